// 44-byte version-1 header with timecnt = 0x4000_0000 and nothing else.
#[test]
fn hostile_header_counts_do_not_overflow() {
    let mut file = Vec::new();
    file.extend_from_slice(b"TZif");
    file.push(0);
    file.extend_from_slice(&[0u8; 15]);
    for count in [0u32, 0, 0, 0x4000_0000, 1, 1] {
        file.extend_from_slice(&count.to_be_bytes());
    }
    assert!(tz::TimeZone::from_tz_data(&file).is_err());
}
