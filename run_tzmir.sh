#!/bin/sh
# usage: run_tzmir.sh <out.json> [cargo feature flags...]
OUT=$1; shift
T=$(mktemp -d)
export LD_LIBRARY_PATH=$(rustc +nightly --print sysroot)/lib
export RUSTC_ICE=0
(cd /repo && TZMIR_OUT=$OUT TZMIR_NONCE=dev RUSTFLAGS="-Zmir-opt-level=0 -Coverflow-checks=on -Cdebug-assertions=off -Awarnings" RUSTC_WORKSPACE_WRAPPER=/verif/tzmir/target/release/tzmir CARGO_TARGET_DIR=$T cargo +nightly check --offline --lib "$@" 2>&1 | tail -30)
rm -rf $T
