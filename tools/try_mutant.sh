#!/bin/sh
# usage: try_mutant.sh <seeded-dir> <prop> [tier]   — apply patch to /repo, run check, always revert
D=$1; P=$2; T=${3:-quick}
cd /repo || exit 9
if [ -n "$(git status --porcelain)" ]; then echo "repo not clean"; exit 9; fi
git apply "$D/patch.diff" || { echo "patch does not apply"; exit 9; }
cd /verif && python3 check.py $P --tier $T > /tmp/try_mutant.out 2>&1; rc=$?
git -C /repo checkout -- . ; git -C /repo clean -fdq
grep -E "^(VIOLATION|OK|CHECKER-ERROR|KNOWN)" /tmp/try_mutant.out | head -5
grep -E "^C[0-9]+ " /tmp/try_mutant.out | cut -c1-300 | head -${MAXL:-6}
echo "exit=$rc"
