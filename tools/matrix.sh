#!/bin/bash
# Developer tool: run the refactor patches (must stay silent) and the seeded changes (should be caught)
# against the relevant checks, in scratch clones, in parallel. Output: /tmp/matrix_refactor.txt, /tmp/matrix_seeded.txt
cd /verif
declare -A PROPS=( [R1]="C08 C07 C19 C15" [R2]="C20 C07 C19 C15" [R3]="C17 C07 C14 C19 C15" [R4]="C13 C07 C14 C19 C15" [R5]="C02 C14 C16 C07 C19 C15" [R6]="C09 C11 C07 C19 C15 C08" )
: > /tmp/mx_r.cmds
for R in R1 R2 R3 R4 R5 R6; do for k in 1 2 3 4; do [ -f /tmp/refactor/$R/$k.diff ] && echo "/tmp/refactor/$R/$k.diff $R-$k ${PROPS[$R]}" >> /tmp/mx_r.cmds; done; done
: > /tmp/mx_s.cmds
for d in seeded/C*-[A-Z]; do n=$(basename $d); p=${n%%-*}; extra="C12"; case $p in C03|C12|C14) extra="C12 C03";; esac; [ "$p" = "C12" ] && extra="C03"; if [ "$p" != "C07" ]; then echo "$d/patch.diff $n $p C07 $extra"; else echo "$d/patch.diff $n $p $extra"; fi >> /tmp/mx_s.cmds; done
if [ "$1" != "seeded" ]; then cat /tmp/mx_r.cmds | MAXL=3 CUT=300 xargs -P ${JOBS:-5} -L 1 tools/try_patch.sh > /tmp/matrix_refactor.txt 2>&1; fi
if [ "$1" != "refactor" ]; then cat /tmp/mx_s.cmds | MAXL=2 CUT=300 xargs -P ${JOBS:-5} -L 1 tools/try_patch.sh > /tmp/matrix_seeded.txt 2>&1; fi
echo "refactor alarms:"; grep -c "exit=[12]" /tmp/matrix_refactor.txt; echo "seeded:"; grep "exit=" /tmp/matrix_seeded.txt | awk '{print $1, $2, $3}' | sort | tr '\n' ';'
