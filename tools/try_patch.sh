#!/bin/bash
# usage: try_patch.sh <patch.diff> <label> <prop> [<prop> ...]
# Developer tool (not a registered check): analyses a scratch clone of /repo with the patch applied, so several
# patches can be examined in parallel and /repo stays untouched. Prints one line per property and the findings.
P=$(realpath "$1"); L=$2; shift 2
W=/tmp/tp-$L-$$; rm -rf $W; git clone -q /repo $W || exit 9
cd $W; if ! git apply "$P" 2>/dev/null; then if ! git apply -3 "$P" >/dev/null 2>&1; then echo "$L: PATCH DOES NOT APPLY"; cd /; rm -rf $W; exit 8; fi; fi
mkdir -p $W/.ev
for prop in "$@"; do
  (cd /verif && TZVERIF_REPO=$W TZVERIF_EVIDENCE_DIR=$W/.ev python3 check.py $prop ${TIER:+--tier $TIER} > $W/.ev/$prop.out 2>&1); rc=$?
  echo "$L $prop exit=$rc $(grep -E '^OK' $W/.ev/$prop.out | cut -c1-80)"
  grep -E "^(C[0-9]+ |CHECKER-ERROR)" $W/.ev/$prop.out | sort -u | cut -c1-${CUT:-330} | head -${MAXL:-4} | sed "s/^/    /"
done
cd /; rm -rf $W
