#!/usr/bin/env python3
"""Writes seeded/<id>/meta.json from the agent's notes.md, my confirm.json and the detection matrix
(/tmp/matrix_seeded.txt produced by tools/matrix.sh seeded). Developer tool."""
import glob, json, os, re, sys

V = os.path.dirname(os.path.dirname(os.path.abspath(__file__)))
matrix = {}
mp = "/tmp/matrix_seeded.txt"
if os.path.exists(mp):
    cur = None
    for line in open(mp, errors="replace"):
        m = re.match(r"^(C\d+-[A-Z]) (C\d+) exit=(\d)", line)
        if m:
            cur = (m.group(1), m.group(2))
            matrix[cur] = {"exit": int(m.group(3)), "findings": []}
        elif cur and line.startswith("    C"):
            matrix[cur]["findings"].append(line.strip()[:400])


def section(text, pats):
    lines = text.split("\n")
    for i, l in enumerate(lines):
        if l.startswith("#") and any(re.search(p, l, re.I) for p in pats):
            out = []
            for m in lines[i + 1:]:
                if m.startswith("#"):
                    break
                out.append(m)
            t = " ".join(x.strip() for x in out if x.strip())
            if t:
                return t[:1200]
    for p in pats:
        m = re.search(r"\*\*[^*]*%s[^*]*\*\*:?\s*(.+)" % p, text, re.I)
        if m:
            return m.group(1).strip()[:1200]
    return None


for d in sorted(glob.glob(os.path.join(V, "seeded", "C*-[A-Z]"))):
    name = os.path.basename(d)
    prop = name.split("-")[0]
    notes = open(os.path.join(d, "notes.md")).read() if os.path.exists(os.path.join(d, "notes.md")) else ""
    title = notes.strip().split("\n", 1)[0].lstrip("# ").strip()
    confirm = json.load(open(os.path.join(d, "confirm.json"))) if os.path.exists(os.path.join(d, "confirm.json")) else None
    files = sorted(set(re.findall(r"^\+\+\+ b/(\S+)", open(os.path.join(d, "patch.diff")).read(), re.M)))
    old = {}
    if os.path.exists(os.path.join(d, "meta.json")):
        try:
            old = json.load(open(os.path.join(d, "meta.json")))
        except Exception:
            old = {}
    verdicts = dict(old.get("verdicts", {}))  # verdicts of checks not re-run this time are kept
    for (n, p), r in matrix.items():
        if n == name:
            verdicts[p] = {"caught": r["exit"] == 1, "exit": r["exit"], "findings": r["findings"][:2]}
    meta = {
        "id": name,
        "round": old.get("round") or (5 if (prop in ("C03", "C12") or name in ("C14-G", "C14-H", "C13-F", "C13-G")) else {"A": 1, "B": 1, "C": 2, "D": 2}.get(name[-1], 4 if prop in ("C07", "C08", "C09", "C13", "C17", "C20") else 3)),
        "breaks_property": prop,
        "title": title,
        "files_changed": files,
        "what_was_changed": section(notes, [r"change"]) or title,
        "clause_broken": section(notes, [r"clause", r"breaks", r"property"]),
        "needs_to_manifest": section(notes, [r"needed", r"manifest", r"trigger"]),
        "origin": old.get("origin") or "fresh sub-agent given only the property text (/tmp/seed5/props/%s.json) and its own scratch git worktree of /repo; nothing from /verif" % prop,
        "confirmed_by_me": confirm,
        "how_checks_were_run": "tools/matrix.sh seeded: scratch clone of /repo + git apply patch.diff, TZVERIF_REPO=<clone> python3 check.py <prop> --tier quick (own property and C07); equivalently tools/try_mutant.sh <dir> <prop>: git -C /repo apply, check, git -C /repo checkout -- .",
        "verdicts": verdicts,
        "caught_by_own_check": verdicts.get(prop, {}).get("caught"),
    }
    json.dump(meta, open(os.path.join(d, "meta.json"), "w"), indent=1)
    print(name, meta["caught_by_own_check"], "C07:", verdicts.get("C07", {}).get("caught"))
