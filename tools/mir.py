#!/usr/bin/env python3
import sys, os
sys.path.insert(0, os.path.dirname(os.path.dirname(os.path.abspath(__file__))))
from tzverif import facts, mirpp
import json
cfg = os.environ.get("CFG", "std")
cache = "/tmp/facts/%s.json" % cfg
if os.path.exists(cache) and not os.environ.get("FRESH"):
    f = facts.Facts(json.load(open(cache)))
else:
    f = facts.export(cfg)
    os.makedirs("/tmp/facts", exist_ok=True)
    json.dump(f.d, open(cache, "w"))
for pat in sys.argv[1:]:
    for i in f.instances:
        if pat in i["name"]:
            print("#%d" % i["id"], mirpp.pp_body(f, i["body"], i["name"]))
            print()
