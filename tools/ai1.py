#!/usr/bin/env python3
# sequential single-root analysis with tracing: TRACE=<fn substring> tools/ai1.py <root name substring>
import sys, os, json
sys.path.insert(0, os.path.dirname(os.path.dirname(os.path.abspath(__file__))))
from tzverif import facts
from tzverif.ai import run
from tzverif.ai.invariants import INVARIANTS
f = facts.Facts(json.load(open("/tmp/facts/%s.json" % os.environ.get("CFG", "std"))))
roots = [i for i in f.instances if any(p == i["name"] or (p.endswith("*") and p[:-1] in i["name"]) for p in sys.argv[1:])]
I, res, errs = run.analyse_all(f, INVARIANTS, roots)
print("errors", errs)
for o in I.obls.values():
    if o.fail: print("FAIL", o.inst, o.kind, o.detail, o.where, json.dumps([x for x in o.fail if x][:1])[:600])
print(len(I.obls), "obligations")
