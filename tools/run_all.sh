#!/bin/sh
# run every claimed quick check on the unchanged tree and refresh evidence; usage: run_all.sh [tier]
cd /verif || exit 1
T=${1:-quick}
if [ -n "$(git -C /repo status --porcelain)" ]; then echo "/repo not clean"; exit 9; fi
rc=0
for id in $(python3 -c "import json; print(' '.join(c['property_id'] for c in json.load(open('MANIFEST.json'))['checks']))"); do
  python3 check.py $id --tier $T | tail -3; r=$?
  [ $r -ne 0 ] && rc=1
done
python3-vt - <<'PY'
import json, jsonschema, glob
sch = json.load(open('/root/.vp/EVIDENCE.schema.json'))
for f in sorted(glob.glob('/verif/evidence/C*.json')):
    ev = json.load(open(f)); jsonschema.validate(ev, sch)
    c = ev['coverage']
    print(f.rsplit('/',1)[1], ev['level'], ev['tier'], 'obl', c.get('obligations'), 'dis', c.get('discharged'), 'lemma', c.get('by_lemma'), 'viol', ev.get('violations'))
PY
exit $rc
