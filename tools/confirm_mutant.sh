#!/bin/bash
# usage: confirm_mutant.sh <seeded-dir>
# Confirms a seeded change in a scratch clone outside /repo and /verif: applies, builds the three
# feature sets, runs the unit tests, runs the demonstration on the clean and on the changed tree.
# Writes <seeded-dir>/confirm.json; removes the scratch clone and its build output.
D=$(realpath "$1"); N=$(basename "$D")
W=/tmp/confirm-$N
rm -rf "$W"; git clone -q /repo "$W" || exit 9
cd "$W" || exit 9
export CARGO_NET_OFFLINE=true CARGO_TARGET_DIR=$W/target
res() { if [ "$1" -eq 0 ]; then echo true; else echo false; fi; }
cp "$D/demo.rs" tests_demo.rs 2>/dev/null
mkdir -p tests; cp "$D/demo.rs" tests/demo.rs
cargo test --offline --test demo > "$W/demo_clean.log" 2>&1; DEMO_CLEAN=$?
rm -f tests/demo.rs
git apply "$D/patch.diff" > "$W/apply.log" 2>&1; APPLY=$?
cargo build --offline --no-default-features > "$W/b1.log" 2>&1; B1=$?
cargo build --offline --no-default-features --features alloc > "$W/b2.log" 2>&1; B2=$?
cargo build --offline > "$W/b3.log" 2>&1; B3=$?
cargo test --offline > "$W/test.log" 2>&1; T=$?
NT=$(grep -h "^test result" "$W/test.log" | head -1)
cp "$D/demo.rs" tests/demo.rs
cargo test --offline --test demo > "$W/demo_mut.log" 2>&1; DEMO_MUT=$?
cat > "$D/confirm.json" <<JSON
{"applies": $(res $APPLY), "builds_nofeat": $(res $B1), "builds_alloc": $(res $B2), "builds_std": $(res $B3),
 "unit_and_doc_tests_pass_on_changed_tree": $(res $T), "unit_test_summary": "$NT",
 "demo_passes_on_clean_tree": $(res $DEMO_CLEAN), "demo_fails_on_changed_tree": $( [ $DEMO_MUT -ne 0 ] && echo true || echo false ),
 "commands": ["git clone /repo <scratch>", "cargo test --offline --test demo (clean tree, demo.rs as tests/demo.rs)", "git apply patch.diff", "cargo build --offline --no-default-features", "cargo build --offline --no-default-features --features alloc", "cargo build --offline", "cargo test --offline", "cargo test --offline --test demo (changed tree)"]}
JSON
cd /; rm -rf "$W"
cat "$D/confirm.json" | tr -d '\n' | cut -c1-400; echo
