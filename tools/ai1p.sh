#!/bin/bash
# usage: ai1p.sh <patch.diff> <root name ...>   — single-root E-AI run (with TRACE=) on a scratch clone with the patch applied
P=$(realpath "$1"); shift
W=/tmp/ai1p-$$; rm -rf $W; git clone -q /repo $W; (cd $W && (git apply "$P" 2>/dev/null || git apply -3 "$P")) || { echo "patch does not apply"; exit 9; }
mkdir -p /tmp/facts-$$
cd /verif && TZVERIF_REPO=$W python3 - "$@" <<PY
import sys, os, json
sys.path.insert(0, '/verif')
from tzverif import facts as F
from tzverif.ai import run
from tzverif.ai.invariants import INVARIANTS
r = F.export_many(['std'])
f = r['std']
if isinstance(f, F.BuildFailure):
    print(f.output[-2000:]); sys.exit(1)
roots = [i for i in f.instances if any(p == i["name"] or (p.endswith("*") and p[:-1] in i["name"]) for p in sys.argv[1:])]
print([x['name'] for x in roots])
I, res, errs = run.analyse_all(f, INVARIANTS, roots)
print("errors", errs)
for o in I.obls.values():
    if o.fail: print("FAIL", o.inst, o.kind, o.detail, o.where, json.dumps([x for x in o.fail if x][:1])[:900])
from tzverif.ai.run import check_invariants
tmap = {a["path"]: a for a in f.d["adts"]}
for name, (R, frame, args) in res.items():
    inst = [i for i in f.instances if i["name"] == name][0]
    try:
        for c in check_invariants(I, inst, R, frame, args, INVARIANTS, f.adt_by_path):
            if not c.get('ok'): print('INV', {k: v for k, v in c.items() if k != 'types'})
    except Exception as e:
        print('inv check error', e)
    if os.environ.get('SHOWRET'):
        print('RET', R.cells.get((frame, 0)) if R is not None else None)
print(len(I.obls), "obligations")
PY
rm -rf $W /tmp/facts-$$
