#!/usr/bin/env python3
import sys, os, json, collections
sys.path.insert(0, os.path.dirname(os.path.dirname(os.path.abspath(__file__))))
from tzverif import facts
from tzverif.ai import run
from tzverif.ai.invariants import INVARIANTS
cfg = os.environ.get("CFG", "std")
f = facts.Facts(json.load(open("/tmp/facts/%s.json" % cfg)))
pats = sys.argv[1:]
roots = [i for i in run.roots_of(f) if any(p in i["name"] for p in pats)] if pats else None
inv = None if os.environ.get("NOINV") else INVARIANTS
obls, notes, errs, col, stats = run.analyse_parallel(f, inv, roots)
print(stats, "errors", len(errs))
for n, e in errs[:int(os.environ.get("NERR", "8"))]:
    print("ERROR", n, e)
c = collections.Counter(); bad = []
for o in obls.values():
    ok = not o["fail"]
    c[(o["kind"].split(":")[0], ok)] += 1
    if not ok: bad.append(o)
print(dict(c))
bad.sort(key=lambda o: (o["inst"], o["kind"], o["detail"]))
for o in bad[:int(os.environ.get("NBAD", "60"))]:
    print("FAIL", o["inst"], o["kind"], o["detail"], o["where"], json.dumps([x for x in o["fail"] if x][:1])[:int(os.environ.get("W", "500"))])
for k in collections.Counter(n[0] + ":" + n[1] for n in notes).most_common(20): print("NOTE", k)
