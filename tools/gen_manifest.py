#!/usr/bin/env python3
"""Regenerates MANIFEST.json from the table below (single source of truth for claims)."""
import json, os
V = os.path.dirname(os.path.dirname(os.path.abspath(__file__)))

CLAIMS = {
    "C15": dict(
        category="proof",
        technique="whole-program effect/type scan over resolved MIR (rustc_private driver) + trait-solver facts + compile_fail witnesses",
        text="Absence proof over every polymorphic and monomorphic MIR body and every type definition of the crate: unsafe_code is forbid and no user unsafe item exists; no mutable, interior-mutable or thread-local static and no reference to one; a deep walk over instantiated field types finds no UnsafeCell behind any crate type; the trait solver proves Send+Sync for every exported ADT (re-checked by a generated compile-pass witness next to an Rc<u8> compile_fail control); every resolved extern callee and every function value is classified by defining crate/module (core/alloc pure except cell/atomic/rc/volatile; std ambient by default with a two-row ambient table: the clock only in functions reachable from no public function other than UtcDateTime::now, DateTime::now and TimeZone::find_current_local_time_type, fs::read in the default reader closure); fn-pointer/virtual calls only through capability-typed values (fn-pointer types of fields of public types, which the user supplies) or through crate-internal dispatch types (a fn-pointer type that occurs in no signature or field nameable from outside the crate and whose every value is made by coercing a crate function or closure). Quick analyses the default configuration, thorough all three feature sets. This decides the property as stated: with no shared mutable state reachable, every call is a function of its arguments, so any interleaving yields what each call yields alone.",
        note="Trusted: rustc's type/borrow checker, trait solver and MIR; the exporter's serialisation; the classification of core/alloc as pure outside the deny-list; std internals of classified-pure APIs. User callbacks and the system clock are intended ambient inputs.",
        design_ref="DESIGN.md §4.1, §4.2, §5/C15",
    ),
    "C19": dict(
        category="proof",
        technique="cross-configuration structural equivalence of canonicalised MIR bodies and ADT definitions + build of each feature set + no_std witness crate",
        text="All three feature sets are built under the exporter; for every definition path present in two configurations (nofeat~alloc, alloc~std) the canonical MIR (types by region-free name, callees by defining path + generic args + resolved impl, constants by evaluated value, variants by name, DFS block order, first-use local numbering) of the body and of each promoted constant must be identical, shared ADTs identical up to cfg-gated variants of #[non_exhaustive] enums (arms for those variants are dropped before comparing and listed), shared signatures/visibility/constness identical; the no-alloc API list of the property is exported without features and a #![no_std] crate without alloc type-checks against it. Same body + same callee identities + same type definitions => same function => same results in every configuration.",
        note="Trusted: compiler determinism (equal canonical MIR + equal callee identity => equal behaviour), the exporter and the canonicalisation (removes only spans, numbering, storage markers, trivially-threaded gotos, arms of non-existent variants). std for 32-bit is not built.",
        design_ref="DESIGN.md §4.7, §5/C19",
    ),
}

NA = {
}

def main():
    props = [json.loads(l) for l in open(os.path.join(V, "properties.jsonl"))]
    extra_claims = {}
    p = os.path.join(V, "tools", "claims_extra.json")
    if os.path.exists(p):
        extra_claims = json.load(open(p))
    claims = dict(CLAIMS); claims.update(extra_claims.get("claims", {}))
    na = dict(NA); na.update(extra_claims.get("not_applicable", {}))
    checks = []
    for pr in props:
        pid = pr["id"]
        if pid in claims:
            c = claims[pid]
            checks.append({
                "property_id": pid,
                "quick_cmd": "python3 check.py %s --tier quick" % pid,
                "thorough_cmd": "python3 check.py %s --tier thorough" % pid,
                "evidence_file": "/verif/evidence/%s.json" % pid,
                "replay_cmd_template": "python3 check.py %s --replay {path}" % pid,
                "engine": "tzverif",
                "level_claimed": {"category": c["category"], "text": c["text"], "design_ref": c["design_ref"]},
                "level_note": c["note"],
                "technique": c["technique"],
            })
    not_app = []
    for pr in props:
        pid = pr["id"]
        if pid not in claims:
            not_app.append({"property_id": pid, "reason": na.get(pid, "static analysis check not built yet (see DESIGN.md §5); not claimed")})
    m = {
        "version": 1,
        "setup_cmd": "cd /verif/tzmir && CARGO_NET_OFFLINE=true cargo +nightly build --release --offline",
        "hooks": {
            "guard": "tz_rs_verif",
            "enable": "none needed: the analysis reads the compiler's own view of the unmodified source (RUSTC_WORKSPACE_WRAPPER=tzmir under cargo +nightly check); no cfg-guarded code exists in /repo",
            "baseline_off_cmd": "cd /repo && cargo test --workspace --no-fail-fast --offline",
            "source_commits": [],
            "add_only": True,
        },
        "engines": [
            {"name": "tzmir", "path": "/verif/tzmir", "serves_properties": sorted(claims), "kind_free_text": "rustc_private driver exporting items, ADTs, trait-solver facts, polymorphic and monomorphic MIR with resolved callees and evaluated constants as JSON facts"},
            {"name": "tzverif", "path": "/verif/tzverif", "serves_properties": sorted(claims), "kind_free_text": "Python static-analysis engines over the fact files: E-FX effects/ownership, E-TY type facts, E-EQ cross-configuration equivalence, E-AI abstract interpreter over monomorphic MIR, E-PATH CFG path rules, E-FLOW derived-only-from dataflow, E-SCALE time-scale qualifier inference (unification based), E-W compile-fail witnesses"},
        ],
        "checks": checks,
        "not_applicable": not_app,
        "notes": "Static analysis only: no registered check executes tz-rs code. See DESIGN.md.",
    }
    json.dump(m, open(os.path.join(V, "MANIFEST.json"), "w"), indent=1)
    print("claimed:", sorted(claims), "n/a:", [x["property_id"] for x in not_app])

main()
