//! Controls for E-FX / E-TY (C15).
use std::cell::Cell;
use std::rc::Rc;
use std::sync::atomic::{AtomicUsize, Ordering};

/// FX-STATIC: interior-mutable static.
pub static COUNTER: AtomicUsize = AtomicUsize::new(0);

/// FX-STATIC: immutable plain static (twin; must stay silent).
pub static PLAIN: [u8; 4] = [1, 2, 3, 4];

thread_local! {
    /// FX-STATIC / FX-ENV: thread-local state.
    static LAST: Cell<u32> = Cell::new(0);
}

/// FX-EXTERN deny-list: atomics.
pub fn bump() -> usize {
    COUNTER.fetch_add(1, Ordering::SeqCst)
}

/// FX-ENV: thread-local access.
pub fn remember(x: u32) -> u32 {
    LAST.with(|c| c.replace(x))
}

/// FX-ENV: environment variable.
pub fn tz_from_env() -> Option<String> {
    std::env::var("TZ").ok()
}

/// FX-EXTERN: ambient std API that is in nobody's table.
pub fn read_hosts() -> Option<Vec<u8>> {
    std::fs::read("/etc/hosts").ok()
}

/// FX-EXTERN: function value mentioned but never called directly.
pub fn env_reader() -> fn(&'static str) -> Result<String, std::env::VarError> {
    std::env::var::<&'static str>
}

/// TY-CELL: interior mutability hidden behind a Vec (Freeze does not see it).
pub struct Hidden {
    cells: Vec<Cell<u8>>,
}

/// TY-AUTO: exported type that is not Send/Sync.
pub struct Shared {
    inner: Rc<u8>,
}

/// Twin: plain data, Send + Sync, no cell.
pub struct Plain {
    data: Vec<u8>,
    n: u32,
}

/// FX-CALLBACK: call through a function pointer that is not a field of an exported type.
pub fn call_it(f: fn(u32) -> u32, x: u32) -> u32 {
    f(x)
}

/// FX-CALLBACK twin: capability stored in an exported type.
pub struct Settings {
    cb: fn(&str) -> usize,
}

impl Settings {
    pub fn new(cb: fn(&str) -> usize) -> Self {
        Settings { cb }
    }
    pub fn run(&self, s: &str) -> usize {
        (self.cb)(s)
    }
}

/// FX-CALLBACK: dynamic dispatch on a non-capability trait.
pub trait Plugin {
    fn go(&self) -> u32;
}
pub fn run_plugin(p: &dyn Plugin) -> u32 {
    p.go()
}

/// FX-UNSAFE: user-written unsafe.
pub fn peek(p: *const u8) -> u8 {
    unsafe { *p }
}
pub struct Forced(*mut u8);
unsafe impl Sync for Forced {}
