//! Controls for E-EQ (C19): a shared function whose body depends on a feature.

pub fn shared(x: u32) -> u32 {
    #[cfg(feature = "extra")]
    {
        return x.wrapping_add(1);
    }
    #[cfg(not(feature = "extra"))]
    {
        x
    }
}

/// Twin: identical in every configuration.
pub fn stable(x: u32) -> u32 {
    x ^ 0x55
}

pub struct Gated {
    pub a: u32,
    #[cfg(feature = "extra")]
    pub b: u32,
}

#[non_exhaustive]
pub enum Open {
    A,
    #[cfg(feature = "extra")]
    B,
}

pub fn describe(o: &Open) -> u32 {
    match o {
        Open::A => 1,
        #[cfg(feature = "extra")]
        Open::B => 2,
    }
}
