//! C17 controls: a generic search that peeks at its list, and a buffer list whose reader bypasses data().
pub struct Item(pub u32);

pub(crate) trait Sink {
    fn push(&mut self, item: Item);
    fn full(&self) -> bool {
        false
    }
}

pub struct VecSink(pub Vec<Item>);
pub struct BufSink<'a> {
    buf: &'a mut [Option<Item>],
    index: usize,
    count: usize,
}

impl Sink for VecSink {
    fn push(&mut self, item: Item) {
        self.0.push(item);
    }
}

impl Sink for BufSink<'_> {
    fn push(&mut self, item: Item) {
        if let Some(slot) = self.buf.get_mut(self.index) {
            *slot = Some(item);
            self.index += 1;
        }
        self.count += 1;
    }
    fn full(&self) -> bool {
        self.count > self.index
    }
}

/// PARAM control: observes the list through `full()`.
pub(crate) fn bad_search(list: &mut impl Sink, a: u32, b: u32) {
    for x in a..b {
        if list.full() {
            break;
        }
        list.push(Item(x));
    }
}

/// PARAM twin: push only.
pub(crate) fn ok_search(list: &mut impl Sink, a: u32, b: u32) {
    for x in a..b {
        list.push(Item(x));
    }
}

impl<'a> BufSink<'a> {
    pub fn new(buf: &'a mut [Option<Item>]) -> Self {
        Self { buf, index: 0, count: 0 }
    }
    pub fn data(&self) -> &[Option<Item>] {
        &self.buf[..self.index]
    }
    pub fn count(&self) -> usize {
        self.count
    }
    /// VIEW control: reads the raw buffer.
    pub fn bad_first(&self) -> Option<&Item> {
        self.buf.first().and_then(|x| x.as_ref())
    }
    pub fn ok_first(&self) -> Option<&Item> {
        self.data().first().and_then(|x| x.as_ref())
    }
}

pub fn run_both(buf: &mut [Option<Item>]) -> (usize, usize) {
    let mut v = VecSink(Vec::new());
    bad_search(&mut v, 0, 3);
    ok_search(&mut v, 0, 3);
    let mut b = BufSink::new(buf);
    bad_search(&mut b, 0, 3);
    ok_search(&mut b, 0, 3);
    let _ = (b.bad_first().is_some(), b.ok_first().is_some(), b.data().len());
    (v.0.len(), b.count())
}
