//! C20 controls: a TZ resolver with the faults the rules look for, next to a correct twin.
pub type ReadFn = fn(&str) -> Result<Vec<u8>, ()>;

pub struct Zone(pub u32);
pub struct Rule(pub u32);

#[inline(never)]
pub fn decode_file(bytes: &[u8]) -> Result<Zone, ()> {
    if bytes.len() < 4 { Err(()) } else { Ok(Zone(bytes[0] as u32)) }
}

#[inline(never)]
pub fn decode_string(bytes: &[u8], extensions: bool) -> Result<Rule, ()> {
    if bytes.is_empty() || extensions { Err(()) } else { Ok(Rule(bytes[0] as u32)) }
}

pub struct Resolver<'a> {
    pub dirs: &'a [&'a str],
    pub read: ReadFn,
}

impl Resolver<'_> {
    fn lookup(&self, name: &str) -> Result<Vec<u8>, ()> {
        if name.starts_with('/') {
            (self.read)(name)
        } else {
            self.dirs.iter().find_map(|d| (self.read)(&format!("{d}/{name}")).ok()).ok_or(())
        }
    }

    /// SOURCES (extra directory, trimmed lookup), CONTENT (sniffing), ORDER (reverse iteration)
    fn bad_lookup(&self, name: &str) -> Result<Vec<u8>, ()> {
        let name = name.trim();
        if let Ok(b) = (self.read)(&format!("/opt/zoneinfo/{name}")) {
            return Ok(b);
        }
        self.dirs.iter().rev().find_map(|d| (self.read)(&format!("{d}/{name}")).ok().filter(|b| b.starts_with(b"TZif"))).ok_or(())
    }

    /// correct twin
    pub fn ok_resolve(&self, tz: &str) -> Result<Zone, ()> {
        if tz.is_empty() {
            return Err(());
        }
        if tz == "localtime" {
            return decode_file(&(self.read)("/etc/localtime")?);
        }
        let mut chars = tz.chars();
        if chars.next() == Some(':') {
            return decode_file(&self.lookup(chars.as_str())?);
        }
        match self.lookup(tz) {
            Ok(bytes) => decode_file(&bytes),
            Err(_) => {
                let rule = decode_string(tz.trim_matches(|c: char| c.is_ascii_whitespace()).as_bytes(), false)?;
                Ok(Zone(rule.0))
            }
        }
    }

    /// no emptiness test; falls back to the string after a malformed file, after a failed ':' lookup,
    /// with extensions on; retries a second lookup
    pub fn bad_resolve(&self, tz: &str) -> Result<Zone, ()> {
        if tz == "localtime" {
            if let Ok(b) = (self.read)("/etc/localtime") {
                return decode_file(&b);
            }
        }
        let name = tz.strip_prefix(':').unwrap_or(tz);
        if let Ok(bytes) = self.bad_lookup(name) {
            if let Ok(z) = decode_file(&bytes) {
                return Ok(z);
            }
        }
        let rule = decode_string(tz.as_bytes(), true)?;
        Ok(Zone(rule.0))
    }

    /// LITERAL control: the /etc/localtime read is not confined to the literal value
    pub fn bad_literal(&self, tz: &str) -> Result<Zone, ()> {
        if tz.is_empty() {
            return Err(());
        }
        if tz == "localtime" || tz.len() == 9 {
            return decode_file(&(self.read)("/etc/localtime")?);
        }
        match self.lookup(tz) {
            Ok(bytes) => decode_file(&bytes),
            Err(_) => Ok(Zone(decode_string(tz.as_bytes(), false)?.0)),
        }
    }

    fn slashy_lookup(&self, name: &str) -> Result<Vec<u8>, ()> {
        if name.contains('/') {
            (self.read)(name)
        } else {
            self.dirs.iter().find_map(|d| (self.read)(&format!("{d}/{name}")).ok()).ok_or(())
        }
    }

    /// PREFIX control: a relative name that merely contains a '/' is opened as is
    pub fn bad_prefix(&self, tz: &str) -> Result<Zone, ()> {
        if tz.is_empty() {
            return Err(());
        }
        if tz == "localtime" {
            return decode_file(&(self.read)("/etc/localtime")?);
        }
        let mut chars = tz.chars();
        if chars.next() == Some(':') {
            return decode_file(&self.slashy_lookup(chars.as_str())?);
        }
        match self.slashy_lookup(tz) {
            Ok(bytes) => decode_file(&bytes),
            Err(_) => {
                let rule = decode_string(tz.trim_matches(|c: char| c.is_ascii_whitespace()).as_bytes(), false)?;
                Ok(Zone(rule.0))
            }
        }
    }

    pub fn ok_local(&self) -> Result<Zone, ()> {
        self.ok_resolve("localtime")
    }

    pub fn bad_local(&self) -> Result<Zone, ()> {
        match (self.read)("/etc/timezone") {
            Ok(b) => decode_file(&b),
            Err(_) => self.ok_resolve("localtime"),
        }
    }
}
