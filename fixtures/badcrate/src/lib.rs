//! Deliberately wrong code: one item per checker rule (positive controls) next to a correct twin.
//! Never executed; only analysed by the same exporter and engines as the real crate.
#![allow(dead_code, unused)]

pub mod fx;
pub mod eq;
pub mod ai;
pub mod list;
pub mod resolve;
pub mod scale;
