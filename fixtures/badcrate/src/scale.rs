//! Controls for E-SCALE (time-scale qualifier inference): two scales with the same Rust type.
//! `*_bad` functions let a leap-count value meet a UTC value without a conversion; `*_good` twins do not.

pub struct Tr {
    leap: i64,
    idx: usize,
}

impl Tr {
    pub fn leap(&self) -> i64 {
        self.leap
    }
}

pub struct Leap {
    leap: i64,
    corr: i32,
}

impl Leap {
    pub fn leap(&self) -> i64 {
        self.leap
    }
    pub fn corr(&self) -> i32 {
        self.corr
    }
}

pub struct Stamp {
    unix: i64,
}

impl Stamp {
    pub fn unix(&self) -> i64 {
        self.unix
    }
}

pub struct Zone<'a> {
    trs: &'a [Tr],
    leaps: &'a [Leap],
}

fn within(lo: i64, x: i64, hi: i64) -> bool {
    lo <= x && x < hi
}

impl<'a> Zone<'a> {
    fn to_leap(&self, unix: i64) -> Result<i64, ()> {
        let mut leap = unix;
        for l in self.leaps {
            if leap < l.leap {
                break;
            }
            leap = unix.checked_add(l.corr as i64).ok_or(())?;
        }
        Ok(leap)
    }

    fn to_unix(&self, leap: i64) -> Result<i64, ()> {
        let mut corr = 0;
        for l in self.leaps {
            if l.leap < leap {
                corr = l.corr;
            }
        }
        leap.checked_sub(corr as i64).ok_or(())
    }

    /// correct: the instant is converted before it is compared with the table
    pub fn lookup_good(&self, unix: i64) -> Result<usize, ()> {
        let leap = self.to_leap(unix)?;
        match self.trs.last() {
            Some(last) if leap >= last.leap => Ok(last.idx),
            _ => Ok(0),
        }
    }

    /// wrong: the UTC instant is compared with a table time
    pub fn lookup_bad(&self, unix: i64) -> Result<usize, ()> {
        match self.trs.last() {
            Some(last) if unix >= last.leap => Ok(last.idx),
            _ => Ok(0),
        }
    }

    /// correct: the table time is converted back before it is handed out
    pub fn stamp_good(&self, k: usize) -> Result<Stamp, ()> {
        Ok(Stamp { unix: self.to_unix(self.trs[k].leap)? })
    }

    /// wrong: the table time is handed out as a UTC instant
    pub fn stamp_bad(&self, k: usize) -> Stamp {
        Stamp { unix: self.trs[k].leap }
    }

    /// correct: one mutable variable holds first the UTC then the leap-count value (def-use webs keep them apart)
    pub fn reuse_good(&self, unix: i64) -> Result<bool, ()> {
        let mut t = unix;
        t = self.to_leap(t)?;
        Ok(t < self.trs[0].leap)
    }

    /// correct: one helper used on both scales (summaries are instantiated per call site)
    pub fn helper_good(&self, unix: i64) -> Result<bool, ()> {
        let leap = self.to_leap(unix)?;
        let a = within(self.trs[0].leap, leap, self.trs[1].leap);
        let b = within(0, unix, 10);
        Ok(a && b)
    }

    /// wrong: the mix happens inside a closure handed to an iterator adaptor
    pub fn through_iter_bad(&self, unix: i64) -> Option<usize> {
        self.trs.iter().map(|t| t.leap).position(|l| l > unix)
    }

    /// wrong: the wrong component of the cached pair is handed out
    pub fn pair_bad(&self, unix: i64) -> Result<Stamp, ()> {
        let pair = (unix, self.to_leap(unix)?);
        Ok(Stamp { unix: pair.1 })
    }

    /// correct twin
    pub fn pair_good(&self, unix: i64) -> Result<Stamp, ()> {
        let pair = (unix, self.to_leap(unix)?);
        Ok(Stamp { unix: pair.0 })
    }

    /// correct: one mutable bound reused for the table phase (leap scale) and the rule phase (UTC scale); which
    /// definitions reach the second phase depends on correlated branches
    pub fn phase_good(&self, unix: i64) -> Result<usize, ()> {
        let leap = self.to_leap(unix)?;
        let mut lower = i64::MIN;
        let mut n = 0;
        for t in self.trs {
            if lower <= leap && leap < t.leap {
                n += 1;
            }
            lower = t.leap;
        }
        if let Some(last) = self.trs.last() {
            lower = self.to_unix(last.leap)?;
        }
        if lower <= unix {
            n += 1;
        }
        Ok(n)
    }

    /// wrong twin: the second phase forgets the conversion
    pub fn phase_bad(&self, unix: i64) -> Result<usize, ()> {
        let leap = self.to_leap(unix)?;
        let mut lower = i64::MIN;
        let mut n = 0;
        for t in self.trs {
            if lower <= leap && leap < t.leap {
                n += 1;
            }
            lower = t.leap;
        }
        if let Some(last) = self.trs.last() {
            lower = last.leap;
        }
        if lower <= unix {
            n += 1;
        }
        Ok(n)
    }
}
