//! Controls for E-AI (C07 and the accept-region rules): each `bad_*` must raise exactly the named
//! obligation; each `ok_*` twin must be discharged.

/// ASSERT bounds: unguarded index.
pub fn bad_index(a: &[u8], i: usize) -> u8 {
    a[i]
}
pub fn ok_index(a: &[u8], i: usize) -> u8 {
    if i < a.len() {
        a[i]
    } else {
        0
    }
}

/// ASSERT overflow: arithmetic on an unconstrained parameter.
pub fn bad_add(x: i64) -> i64 {
    x + 1
}
pub fn ok_add(x: i32) -> i64 {
    x as i64 + 1
}

/// ASSERT div by zero.
pub fn bad_div(x: i64, y: i64) -> i64 {
    x / y
}

/// PRE unwrap on a possibly-None value.
pub fn bad_unwrap(a: &[u8]) -> u8 {
    *a.first().unwrap()
}
pub fn ok_unwrap(a: &[u8]) -> u8 {
    if a.is_empty() {
        return 0;
    }
    *a.first().unwrap()
}

/// PRE slice range.
pub fn bad_range(a: &[u8], n: usize) -> &[u8] {
    &a[n..]
}
pub fn ok_range(a: &[u8], n: usize) -> &[u8] {
    if n <= a.len() {
        &a[n..]
    } else {
        a
    }
}

/// PANIC-CALL reachable.
pub fn bad_unreachable(x: u8) -> u8 {
    match x {
        0..=9 => x,
        _ => unreachable!(),
    }
}
pub fn ok_unreachable(x: u8) -> u8 {
    let y = x % 4;
    match y {
        0..=3 => y,
        _ => unreachable!(),
    }
}

/// ALLOC: capacity from an attacker-controlled count that was not paid for by input bytes.
pub fn bad_alloc(input: &[u8]) -> Vec<u32> {
    let Some((head, _)) = input.split_first_chunk::<4>() else { return Vec::new() };
    let count = u32::from_be_bytes(*head) as usize;
    Vec::with_capacity(count)
}
pub fn ok_alloc(input: &[u8]) -> Vec<u8> {
    let Some((head, rest)) = input.split_first_chunk::<4>() else { return Vec::new() };
    let count = u32::from_be_bytes(*head) as usize;
    match rest.split_at_checked(count) {
        Some((block, _)) => {
            let mut v = Vec::with_capacity(count);
            for b in block {
                v.push(*b);
            }
            v
        }
        None => Vec::new(),
    }
}

/// LOOP: no bound.
pub fn bad_loop(mut x: u64) -> u64 {
    while x != 1 {
        x = if x % 2 == 0 { x / 2 } else { x.wrapping_mul(3).wrapping_add(1) };
    }
    x
}
pub fn ok_loop(a: &[u8]) -> u64 {
    let mut s = 0u64;
    let mut i = 0;
    while i < a.len() {
        s = s.wrapping_add(a[i] as u64);
        i += 1;
    }
    s
}

/// REC: recursion.
pub fn bad_rec(n: u32) -> u32 {
    if n == 0 {
        0
    } else {
        bad_rec(n - 1)
    }
}

/// NARROW: value-changing cast.
pub fn bad_narrow(x: i64) -> u8 {
    x as u8
}
pub fn ok_narrow(x: i64) -> u8 {
    (x.rem_euclid(200)) as u8
}

/// UNMODELLED: an extern callee the model table does not know.
pub fn bad_unmodelled(a: &mut [u8]) {
    a.reverse();
}

/// ACCEPT control: validator with an off-by-one (accepts 13).
pub fn bad_month(m: u8) -> Result<u8, ()> {
    if !(1 <= m && m <= 13) {
        return Err(());
    }
    Ok(m)
}
pub fn ok_month(m: u8) -> Result<u8, ()> {
    if !(1 <= m && m <= 12) {
        return Err(());
    }
    Ok(m)
}

/// FORALL (shrinking slice): every index is validated by a `while let [x, rest @ ..]` loop, then used.
pub fn ok_shrink(idx: &[usize], table: &[u8; 16]) -> u32 {
    let mut rest = idx;
    while let [x, tail @ ..] = rest {
        if *x >= 16 {
            return 0;
        }
        rest = tail;
    }
    let mut s = 0u32;
    let mut i = 0;
    while i < idx.len() {
        s = s.wrapping_add(table[idx[i]] as u32);
        i += 1;
    }
    s
}
/// same loop, but it skips every second element: the unchecked ones must not be trusted.
pub fn bad_shrink(idx: &[usize], table: &[u8; 16]) -> u32 {
    let mut rest = idx;
    while let [x, tail @ ..] = rest {
        if *x >= 16 {
            return 0;
        }
        rest = if let [_, more @ ..] = tail { more } else { tail };
    }
    let mut s = 0u32;
    let mut i = 0;
    while i < idx.len() {
        s = s.wrapping_add(table[idx[i]] as u32);
        i += 1;
    }
    s
}
