//! Controls for E-AI (filled in with the abstract interpreter).
