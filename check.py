#!/usr/bin/env python3
"""check.py <Cxx> [--tier quick|thorough] — static verification of one property of tz-rs.

Exit 0: property held on everything analysed (KNOWN-FINDING lines may be printed).
Exit 1: `VIOLATION property=<id> replay=<path>` printed for every new finding.
--replay <file>: re-analyse the current tree (same tier) and report only whether the finding recorded
        in <file> (rule + key) is still produced: exit 1 with the VIOLATION line if so, exit 0 if not;
        evidence and replay files are left untouched.
Exit 2: the checker itself is broken (CHECKER-ERROR: floor not met, control silent, build of the
        analysed tree failed where that is not itself the property).
"""
import argparse
import importlib
import os
import sys
import traceback

sys.path.insert(0, os.path.dirname(os.path.abspath(__file__)))

from tzverif import report  # noqa: E402

LEVELS = {"C15": "proof", "C19": "proof"}


def main():
    ap = argparse.ArgumentParser()
    ap.add_argument("prop")
    ap.add_argument("--tier", default=os.environ.get("VERIF_TIER", "quick"), choices=["quick", "thorough"])
    ap.add_argument("--replay", default=None)
    args = ap.parse_args()
    prop = args.prop.upper()
    try:
        mod = importlib.import_module("tzverif.props.%s" % prop.lower())
    except ImportError:
        print("CHECKER-ERROR property=%s no check implemented" % prop)
        return 2
    run = report.Run(prop, args.tier, LEVELS.get(prop, "other"), argv=["python3", "check.py", prop, "--tier", args.tier])
    if args.replay:
        # re-analyse the current tree and report whether the recorded finding is still produced
        import json

        try:
            rec = json.load(open(args.replay))
        except Exception as e:
            print("CHECKER-ERROR property=%s cannot read replay file %s: %s" % (prop, args.replay, e))
            return 2
        if rec.get("property") != prop:
            print("CHECKER-ERROR property=%s replay file belongs to %s" % (prop, rec.get("property")))
            return 2
        run.replay = (rec.get("rule"), rec.get("key"), args.replay)
    try:
        mod.check(run, args.tier)
    except report.CheckerError as e:
        run.error(str(e))
    except Exception:
        run.error("internal error: " + traceback.format_exc()[-1500:])
    return run.finish()


if __name__ == "__main__":
    sys.exit(main())
