//! Minimal JSON value and serialiser (no external crates available to a rustc_private driver).

use std::fmt::Write;

#[derive(Clone, Debug)]
pub enum J {
    Null,
    Bool(bool),
    Int(i128),
    UInt(u128),
    Str(String),
    Arr(Vec<J>),
    Obj(Vec<(String, J)>),
}

impl J {
    pub fn s(x: impl Into<String>) -> J {
        J::Str(x.into())
    }
    pub fn obj() -> J {
        J::Obj(Vec::new())
    }
    pub fn set(mut self, k: &str, v: J) -> J {
        if let J::Obj(ref mut o) = self {
            o.push((k.to_string(), v));
        }
        self
    }
    pub fn put(&mut self, k: &str, v: J) {
        if let J::Obj(ref mut o) = self {
            o.push((k.to_string(), v));
        }
    }
    pub fn arr(it: impl IntoIterator<Item = J>) -> J {
        J::Arr(it.into_iter().collect())
    }
    pub fn opt(x: Option<J>) -> J {
        x.unwrap_or(J::Null)
    }
    pub fn write(&self, out: &mut String) {
        match self {
            J::Null => out.push_str("null"),
            J::Bool(b) => out.push_str(if *b { "true" } else { "false" }),
            J::Int(i) => {
                let _ = write!(out, "{}", i);
            }
            J::UInt(i) => {
                let _ = write!(out, "{}", i);
            }
            J::Str(s) => write_str(s, out),
            J::Arr(a) => {
                out.push('[');
                for (i, x) in a.iter().enumerate() {
                    if i > 0 {
                        out.push(',');
                    }
                    x.write(out);
                }
                out.push(']');
            }
            J::Obj(o) => {
                out.push('{');
                for (i, (k, v)) in o.iter().enumerate() {
                    if i > 0 {
                        out.push(',');
                    }
                    write_str(k, out);
                    out.push(':');
                    v.write(out);
                }
                out.push('}');
            }
        }
    }
}

fn write_str(s: &str, out: &mut String) {
    out.push('"');
    for c in s.chars() {
        match c {
            '"' => out.push_str("\\\""),
            '\\' => out.push_str("\\\\"),
            '\n' => out.push_str("\\n"),
            '\r' => out.push_str("\\r"),
            '\t' => out.push_str("\\t"),
            c if (c as u32) < 0x20 => {
                let _ = write!(out, "\\u{:04x}", c as u32);
            }
            c => out.push(c),
        }
    }
    out.push('"');
}
