//! tzmir — fact exporter for the tz-rs static verification machinery.
//!
//! Used as `RUSTC_WORKSPACE_WRAPPER`: `tzmir <rustc> <args…>`.  It runs the real
//! compiler pipeline up to the end of analysis and writes one JSON fact file
//! describing the crate named by `TZMIR_CRATE` (default `tz`) into `TZMIR_OUT`.
//! For every other crate it behaves exactly like rustc.

#![feature(rustc_private)]
#![allow(clippy::all)]

extern crate rustc_abi;
extern crate rustc_data_structures;
extern crate rustc_driver;
extern crate rustc_hir;
extern crate rustc_index;
extern crate rustc_infer;
extern crate rustc_interface;
extern crate rustc_lint;
extern crate rustc_lint_defs;
extern crate rustc_middle;
extern crate rustc_session;
extern crate rustc_span;
extern crate rustc_trait_selection;
extern crate rustc_type_ir;

mod json;
use json::J;

use rustc_data_structures::fx::{FxHashMap, FxHashSet};
use rustc_driver::{Callbacks, Compilation};
use rustc_hir::def::DefKind;
use rustc_hir::def_id::{DefId, LocalDefId, LOCAL_CRATE};
use rustc_interface::interface::Compiler;
use rustc_middle::mir::{self, interpret::GlobalAlloc, AggregateKind, BinOp, BorrowKind, CastKind, ConstValue, Operand, Place, ProjectionElem, Rvalue, StatementKind, TerminatorKind, UnOp};
use rustc_middle::ty::{self, EarlyBinder, GenericArgKind, GenericArgsRef, Instance, InstanceKind, Ty, TyCtxt, TypingEnv};
use rustc_span::{Span, DUMMY_SP};
use std::collections::VecDeque;

struct Exporter;

impl Callbacks for Exporter {
    fn after_analysis<'tcx>(&mut self, _c: &Compiler, tcx: TyCtxt<'tcx>) -> Compilation {
        let want = std::env::var("TZMIR_CRATE").unwrap_or_else(|_| "tz".to_string());
        let name = tcx.crate_name(LOCAL_CRATE).to_string();
        if name != want {
            return Compilation::Continue;
        }
        // only the library target, not build scripts / tests
        if tcx.sess.opts.test {
            return Compilation::Continue;
        }
        let out = match std::env::var("TZMIR_OUT") {
            Ok(o) => o,
            Err(_) => return Compilation::Continue,
        };
        let mut cx = Cx::new(tcx);
        let j = cx.export();
        let mut s = String::with_capacity(1 << 22);
        j.write(&mut s);
        s.push('\n');
        let tmp = format!("{}.tmp.{}", out, std::process::id());
        std::fs::write(&tmp, s).expect("tzmir: cannot write fact file");
        std::fs::rename(&tmp, &out).expect("tzmir: cannot rename fact file");
        Compilation::Continue
    }
}

fn main() -> std::process::ExitCode {
    let mut args: Vec<String> = std::env::args().collect();
    // RUSTC_WORKSPACE_WRAPPER convention: argv[1] is the path of the real rustc.
    if args.len() > 1 && (args[1].ends_with("rustc") || args[1].contains("/rustc")) {
        args.remove(1);
    }
    // never drop rustc-ice-*.txt files into the analysed repository
    std::env::set_var("RUSTC_ICE", "0");
    rustc_driver::install_ice_hook("tzmir: internal error", |_| ());
    rustc_driver::catch_with_exit_code(|| rustc_driver::run_compiler(&args, &mut Exporter))
}

// ---------------------------------------------------------------------------

struct Cx<'tcx> {
    tcx: TyCtxt<'tcx>,
    types: Vec<J>,
    type_ids: FxHashMap<Ty<'tcx>, usize>,
    inst_ids: FxHashMap<Instance<'tcx>, usize>,
    inst_list: Vec<Instance<'tcx>>,
    queue: VecDeque<usize>,
    cell_memo: FxHashMap<Ty<'tcx>, Option<String>>,
}

fn nvp<T>(f: impl FnOnce() -> T) -> T {
    ty::print::with_resolve_crate_name!(ty::print::with_no_trimmed_paths!(ty::print::with_no_visible_paths!(f())))
}

impl<'tcx> Cx<'tcx> {
    fn new(tcx: TyCtxt<'tcx>) -> Self {
        Cx { tcx, types: Vec::new(), type_ids: FxHashMap::default(), inst_ids: FxHashMap::default(), inst_list: Vec::new(), queue: VecDeque::new(), cell_memo: FxHashMap::default() }
    }

    // ----- names ----------------------------------------------------------

    /// Pretty path by *defining* crate (never a re-export), e.g. `core::option::Option::<T>::unwrap`.
    fn path(&self, def_id: DefId) -> String {
        nvp(|| self.tcx.def_path_str(def_id))
    }

    /// Stable key: crate name + raw definition path.
    fn key(&self, def_id: DefId) -> String {
        format!("{}{}", self.tcx.crate_name(def_id.krate), self.tcx.def_path(def_id).to_string_no_crate_verbose())
    }

    fn span(&self, span: Span) -> J {
        let sm = self.tcx.sess.source_map();
        let sp = span.source_callsite();
        if sp.is_dummy() {
            return J::Null;
        }
        let lo = sm.lookup_char_pos(sp.lo());
        let file = match &lo.file.name {
            rustc_span::FileName::Real(r) => match r.local_path() {
                Some(p) => p.display().to_string(),
                None => format!("{:?}", lo.file.name),
            },
            other => format!("{:?}", other),
        };
        J::s(format!("{}:{}:{}", file, lo.line, lo.col.0 + 1))
    }

    // ----- types ----------------------------------------------------------

    fn garg(&mut self, a: ty::GenericArg<'tcx>) -> J {
        match a.kind() {
            GenericArgKind::Type(t) => J::obj().set("t", J::Int(self.tid(t) as i128)),
            GenericArgKind::Lifetime(_) => J::s("lt"),
            GenericArgKind::Const(c) => {
                let v = self.ty_const_value(c);
                J::obj().set("c", v).set("s", J::s(format!("{:?}", c)))
            }
        }
    }

    fn ty_const_value(&self, c: ty::Const<'tcx>) -> J {
        if let ty::ConstKind::Value(v) = c.kind() {
            if let Some(si) = v.try_to_leaf() {
                return J::UInt(si.to_bits_unchecked());
            }
        }
        J::Null
    }

    fn gargs(&mut self, args: GenericArgsRef<'tcx>) -> J {
        let v: Vec<J> = args.iter().filter(|a| !matches!(a.kind(), GenericArgKind::Lifetime(_))).map(|a| self.garg(a)).collect();
        J::Arr(v)
    }

    fn tid(&mut self, t: Ty<'tcx>) -> usize {
        if let Some(&i) = self.type_ids.get(&t) {
            return i;
        }
        let i = self.types.len();
        self.types.push(J::Null);
        self.type_ids.insert(t, i);
        let tcx = self.tcx;
        let ptr_bits = tcx.data_layout.pointer_size().bits();
        let mut o = match *t.kind() {
            ty::Bool => J::obj().set("k", J::s("bool")),
            ty::Char => J::obj().set("k", J::s("char")),
            ty::Int(it) => J::obj().set("k", J::s("int")).set("signed", J::Bool(true)).set("bits", J::UInt(it.bit_width().unwrap_or(ptr_bits) as u128)).set("ptr_sized", J::Bool(it.bit_width().is_none())),
            ty::Uint(ut) => J::obj().set("k", J::s("int")).set("signed", J::Bool(false)).set("bits", J::UInt(ut.bit_width().unwrap_or(ptr_bits) as u128)).set("ptr_sized", J::Bool(ut.bit_width().is_none())),
            ty::Float(_) => J::obj().set("k", J::s("float")),
            ty::Str => J::obj().set("k", J::s("str")),
            ty::Never => J::obj().set("k", J::s("never")),
            ty::Ref(_, inner, m) => {
                let to = self.tid(inner);
                J::obj().set("k", J::s("ref")).set("mut", J::Bool(m.is_mut())).set("to", J::Int(to as i128))
            }
            ty::RawPtr(inner, m) => {
                let to = self.tid(inner);
                J::obj().set("k", J::s("ptr")).set("mut", J::Bool(m.is_mut())).set("to", J::Int(to as i128))
            }
            ty::Slice(e) => {
                let e = self.tid(e);
                J::obj().set("k", J::s("slice")).set("elem", J::Int(e as i128))
            }
            ty::Array(e, n) => {
                let e = self.tid(e);
                J::obj().set("k", J::s("array")).set("elem", J::Int(e as i128)).set("len", self.ty_const_value(n))
            }
            ty::Tuple(ts) => {
                let v: Vec<J> = ts.iter().map(|x| J::Int(self.tid(x) as i128)).collect();
                J::obj().set("k", J::s("tuple")).set("elems", J::Arr(v))
            }
            ty::Adt(def, args) => {
                let a = self.gargs(args);
                let mut o = J::obj().set("k", J::s("adt")).set("path", J::s(self.path(def.did()))).set("key", J::s(self.key(def.did()))).set("local", J::Bool(def.did().is_local())).set("args", a);
                o.put("adt_kind", J::s(if def.is_enum() { "enum" } else if def.is_union() { "union" } else { "struct" }));
                if def.is_unsafe_cell() {
                    o.put("unsafe_cell", J::Bool(true));
                }
                if def.is_box() {
                    o.put("is_box", J::Bool(true));
                }
                if def.is_phantom_data() {
                    o.put("phantom", J::Bool(true));
                }
                // instantiated field types, by variant (needed for abstract values of std types like Option/Result/Range)
                if def.did().is_local() || self.wants_fields(def.did()) {
                    let mut vs = Vec::new();
                    for v in def.variants().iter() {
                        let mut fs = Vec::new();
                        for f in v.fields.iter() {
                            let fty = f.ty(tcx, args);
                            let fty = tcx.try_normalize_erasing_regions(TypingEnv::fully_monomorphized(), ty::Unnormalized::new_wip(fty)).unwrap_or(fty);
                            fs.push(J::obj().set("name", J::s(f.name.to_string())).set("ty", J::Int(self.tid(fty) as i128)));
                        }
                        vs.push(J::obj().set("name", J::s(v.name.to_string())).set("fields", J::Arr(fs)));
                    }
                    o.put("variants", J::Arr(vs));
                }
                o
            }
            ty::Closure(def_id, args) => {
                let cl = args.as_closure();
                let ups: Vec<J> = cl.upvar_tys().iter().map(|x| J::Int(self.tid(x) as i128)).collect();
                J::obj().set("k", J::s("closure")).set("path", J::s(self.path(def_id))).set("key", J::s(self.key(def_id))).set("upvars", J::Arr(ups)).set("closure_kind", J::s(format!("{:?}", cl.kind())))
            }
            ty::FnDef(def_id, args) => {
                let a = self.gargs(args);
                J::obj().set("k", J::s("fndef")).set("path", J::s(self.path(def_id))).set("key", J::s(self.key(def_id))).set("args", a)
            }
            ty::FnPtr(sig_tys, _hdr) => {
                let st = sig_tys.skip_binder();
                let ins: Vec<J> = st.inputs().iter().map(|x| J::Int(self.tid(*x) as i128)).collect();
                let out = self.tid(st.output());
                J::obj().set("k", J::s("fnptr")).set("inputs", J::Arr(ins)).set("output", J::Int(out as i128))
            }
            ty::Dynamic(preds, _) => {
                let mut names = Vec::new();
                for p in preds.iter() {
                    match p.skip_binder() {
                        ty::ExistentialPredicate::Trait(tr) => names.push(J::s(self.path(tr.def_id))),
                        ty::ExistentialPredicate::AutoTrait(d) => names.push(J::s(self.path(d))),
                        ty::ExistentialPredicate::Projection(_) => {}
                    }
                }
                J::obj().set("k", J::s("dyn")).set("traits", J::Arr(names))
            }
            ty::Param(p) => J::obj().set("k", J::s("param")).set("name", J::s(p.name.to_string())).set("index", J::UInt(p.index as u128)),
            ty::Alias(..) => J::obj().set("k", J::s("alias")),
            _ => J::obj().set("k", J::s("other")),
        };
        o.put("s", J::s(nvp(|| format!("{}", t))));
        self.types[i] = o;
        i
    }

    /// Extern ADTs whose variant/field structure the abstract interpreter models structurally.
    fn wants_fields(&self, did: DefId) -> bool {
        let p = self.path(did);
        matches!(
            p.as_str(),
            "core::option::Option"
                | "core::result::Result"
                | "core::ops::range::Range"
                | "core::ops::range::RangeInclusive"
                | "core::ops::range::RangeFrom"
                | "core::ops::range::RangeTo"
                | "core::ops::range::RangeToInclusive"
                | "core::ops::range::RangeFull"
                | "core::ops::control_flow::ControlFlow"
                | "core::cmp::Ordering"
                | "core::convert::Infallible"
        )
    }

    // ----- UnsafeCell deep walk ------------------------------------------

    /// Returns a witness chain if an `UnsafeCell` is reachable from `t` through fields, generic
    /// arguments, pointees, elements and upvars.  `dyn`, fn pointers and type parameters are leaves.
    fn deep_cell(&mut self, t: Ty<'tcx>, seen: &mut FxHashSet<Ty<'tcx>>) -> Option<String> {
        if let Some(r) = self.cell_memo.get(&t) {
            return r.clone();
        }
        if !seen.insert(t) {
            return None;
        }
        let tcx = self.tcx;
        let r = match *t.kind() {
            ty::Adt(def, args) => {
                if def.is_unsafe_cell() {
                    Some(nvp(|| format!("{}", t)))
                } else {
                    let mut found = None;
                    'outer: for v in def.variants().iter() {
                        for f in v.fields.iter() {
                            let fty = f.ty(tcx, args);
                            if let Some(w) = self.deep_cell(fty, seen) {
                                found = Some(format!("{} .{} -> {}", nvp(|| format!("{}", t)), f.name, w));
                                break 'outer;
                            }
                        }
                    }
                    if found.is_none() {
                        for a in args.iter() {
                            if let GenericArgKind::Type(at) = a.kind() {
                                if let Some(w) = self.deep_cell(at, seen) {
                                    found = Some(format!("{} <arg> -> {}", nvp(|| format!("{}", t)), w));
                                    break;
                                }
                            }
                        }
                    }
                    found
                }
            }
            ty::Ref(_, inner, _) | ty::RawPtr(inner, _) => self.deep_cell(inner, seen).map(|w| format!("* -> {}", w)),
            ty::Slice(e) | ty::Array(e, _) => self.deep_cell(e, seen).map(|w| format!("[] -> {}", w)),
            ty::Tuple(ts) => {
                let mut f = None;
                for x in ts.iter() {
                    if let Some(w) = self.deep_cell(x, seen) {
                        f = Some(w);
                        break;
                    }
                }
                f
            }
            ty::Closure(_, args) => {
                let mut f = None;
                for x in args.as_closure().upvar_tys().iter() {
                    if let Some(w) = self.deep_cell(x, seen) {
                        f = Some(w);
                        break;
                    }
                }
                f
            }
            _ => None,
        };
        self.cell_memo.insert(t, r.clone());
        r
    }

    // ----- constants ------------------------------------------------------

    fn read_uint(&self, alloc: &mir::interpret::Allocation, off: u64, size: u64) -> Option<u128> {
        let range = off as usize..(off + size) as usize;
        if range.end > alloc.len() {
            return None;
        }
        let bytes = alloc.inspect_with_uninit_and_ptr_outside_interpreter(range);
        let mut v: u128 = 0;
        match self.tcx.data_layout.endian {
            rustc_abi::Endian::Little => {
                for (i, b) in bytes.iter().enumerate() {
                    v |= (*b as u128) << (8 * i);
                }
            }
            rustc_abi::Endian::Big => {
                for b in bytes.iter() {
                    v = (v << 8) | (*b as u128);
                }
            }
        }
        Some(v)
    }

    fn int_value(&self, t: Ty<'tcx>, bits: u128, size_bits: u64) -> J {
        let signed = matches!(t.kind(), ty::Int(_));
        if signed && size_bits < 128 {
            let sh = 128 - size_bits as u32;
            let v = ((bits << sh) as i128) >> sh;
            J::obj().set("int", J::Int(v))
        } else if signed {
            J::obj().set("int", J::Int(bits as i128))
        } else {
            J::obj().set("int", J::UInt(bits))
        }
    }

    fn size_of(&self, t: Ty<'tcx>) -> Option<u64> {
        let input = TypingEnv::fully_monomorphized().as_query_input(t);
        self.tcx.layout_of(input).ok().map(|l| l.size.bytes())
    }

    /// Decode the value stored at `alloc_id + off` with type `t`.
    fn decode_mem(&mut self, alloc_id: mir::interpret::AllocId, off: u64, t: Ty<'tcx>, depth: u32) -> J {
        if depth > 6 {
            return J::obj().set("opaque", J::s("depth"));
        }
        let tcx = self.tcx;
        let alloc = match tcx.global_alloc(alloc_id) {
            GlobalAlloc::Memory(a) => a,
            GlobalAlloc::Static(d) => return J::obj().set("static", J::s(self.path(d))).set("mutable", J::Bool(tcx.is_mutable_static(d))),
            GlobalAlloc::Function { instance } => return self.fn_alloc(instance),
            _ => return J::obj().set("opaque", J::s("alloc")),
        };
        let a = alloc.inner();
        let ptr_size = tcx.data_layout.pointer_size().bytes();
        match *t.kind() {
            ty::Bool | ty::Char | ty::Int(_) | ty::Uint(_) => {
                let sz = self.size_of(t).unwrap_or(0);
                match self.read_uint(a, off, sz) {
                    Some(v) => self.int_value(t, v, sz * 8),
                    None => J::obj().set("opaque", J::s("oob")),
                }
            }
            ty::Array(e, n) => {
                let n = n.try_to_target_usize(tcx).unwrap_or(0);
                let esz = self.size_of(e).unwrap_or(0);
                let mut v = Vec::new();
                for i in 0..n {
                    v.push(self.decode_mem(alloc_id, off + i * esz, e, depth + 1));
                }
                J::obj().set("arr", J::Arr(v))
            }
            ty::Ref(_, inner, _) | ty::RawPtr(inner, _) => {
                let prov = a.provenance().ptrs().get(&rustc_abi::Size::from_bytes(off)).copied();
                let addr = self.read_uint(a, off, ptr_size).unwrap_or(0) as u64;
                match prov {
                    None => J::obj().set("opaque", J::s("ptr-without-provenance")),
                    Some(p) => {
                        let target = p.alloc_id();
                        let meta = if matches!(inner.kind(), ty::Slice(_) | ty::Str) { self.read_uint(a, off + ptr_size, ptr_size).map(|x| x as u64) } else { None };
                        let v = self.decode_pointee(target, addr, inner, meta, depth + 1);
                        J::obj().set("ref", v)
                    }
                }
            }
            _ => {
                let cv = ConstValue::Indirect { alloc_id, offset: rustc_abi::Size::from_bytes(off) };
                self.const_value(cv, t, depth + 1)
            }
        }
    }

    /// Function pointer constant: name the closure itself when the pointer goes through a call_once shim.
    fn fn_alloc(&mut self, instance: Instance<'tcx>) -> J {
        let mut did = instance.def_id();
        let mut closure = false;
        if let InstanceKind::ClosureOnceShim { .. } = instance.def {
            if let ty::Closure(cd, _) = *instance.args.type_at(0).kind() {
                did = cd;
                closure = true;
            }
        }
        if self.tcx.is_closure_like(did) {
            closure = true;
        }
        let mut o = J::obj().set("fnptr", J::s(self.path(did))).set("key", J::s(self.key(did)));
        if closure {
            o.put("closure", J::Bool(true));
        }
        o
    }

    fn decode_pointee(&mut self, alloc_id: mir::interpret::AllocId, off: u64, inner: Ty<'tcx>, meta: Option<u64>, depth: u32) -> J {
        let tcx = self.tcx;
        match *inner.kind() {
            ty::Str => {
                let n = meta.unwrap_or(0);
                if let GlobalAlloc::Memory(a) = tcx.global_alloc(alloc_id) {
                    let a = a.inner();
                    let r = off as usize..(off + n) as usize;
                    if r.end <= a.len() {
                        let bytes = a.inspect_with_uninit_and_ptr_outside_interpreter(r);
                        return J::obj().set("str", J::s(String::from_utf8_lossy(bytes).to_string()));
                    }
                }
                J::obj().set("opaque", J::s("str"))
            }
            ty::Slice(e) => {
                let n = meta.unwrap_or(0);
                let esz = self.size_of(e).unwrap_or(0);
                let mut v = Vec::new();
                for i in 0..n {
                    v.push(self.decode_mem(alloc_id, off + i * esz, e, depth + 1));
                }
                J::obj().set("arr", J::Arr(v))
            }
            _ => self.decode_mem(alloc_id, off, inner, depth),
        }
    }

    fn const_value(&mut self, cv: ConstValue, t: Ty<'tcx>, depth: u32) -> J {
        let tcx = self.tcx;
        if depth > 8 {
            return J::obj().set("opaque", J::s("depth"));
        }
        match *t.kind() {
            ty::FnDef(def_id, args) => {
                let a = self.gargs(args);
                return J::obj().set("fn", J::s(self.path(def_id))).set("key", J::s(self.key(def_id))).set("args", a);
            }
            _ => {}
        }
        match cv {
            ConstValue::ZeroSized => {
                // unit-like ADT / unit / closure without captures
                match *t.kind() {
                    ty::Adt(def, _) if def.is_struct() => J::obj().set("adt", J::s(self.path(def.did()))).set("variant", J::s(def.non_enum_variant().name.to_string())).set("fields", J::Arr(vec![])),
                    ty::Tuple(ts) if ts.is_empty() => J::obj().set("tup", J::Arr(vec![])),
                    ty::Array(..) => J::obj().set("arr", J::Arr(vec![])),
                    _ => J::obj().set("zst", J::Bool(true)),
                }
            }
            ConstValue::Scalar(sc) => match sc {
                mir::interpret::Scalar::Int(si) => match *t.kind() {
                    ty::Bool | ty::Char | ty::Int(_) | ty::Uint(_) => self.int_value(t, si.to_bits_unchecked(), si.size().bits()),
                    ty::Adt(..) | ty::Tuple(..) | ty::Array(..) => self.destructure(cv, t, depth),
                    _ => J::obj().set("opaque", J::s(format!("scalar {:?}", si))),
                },
                mir::interpret::Scalar::Ptr(ptr, _) => {
                    let (prov, off) = ptr.prov_and_relative_offset();
                    let alloc_id = prov.alloc_id();
                    match *t.kind() {
                        ty::Ref(_, inner, _) | ty::RawPtr(inner, _) => {
                            let v = self.decode_pointee(alloc_id, off.bytes(), inner, None, depth + 1);
                            J::obj().set("ref", v)
                        }
                        ty::FnPtr(..) => match tcx.global_alloc(alloc_id) {
                            GlobalAlloc::Function { instance } => self.fn_alloc(instance),
                            _ => J::obj().set("opaque", J::s("fnptr")),
                        },
                        ty::Adt(..) | ty::Tuple(..) => self.destructure(cv, t, depth),
                        _ => J::obj().set("opaque", J::s("ptr")),
                    }
                }
            },
            ConstValue::Slice { alloc_id, meta } => match *t.kind() {
                ty::Ref(_, inner, _) | ty::RawPtr(inner, _) => {
                    let v = self.decode_pointee(alloc_id, 0, inner, Some(meta), depth + 1);
                    J::obj().set("ref", v)
                }
                _ => J::obj().set("opaque", J::s("slice")),
            },
            ConstValue::Indirect { alloc_id, offset } => match *t.kind() {
                ty::Adt(..) | ty::Tuple(..) => self.destructure(cv, t, depth),
                ty::Closure(..) => J::obj().set("opaque", J::s("closure")),
                _ => self.decode_mem(alloc_id, offset.bytes(), t, depth + 1),
            },
        }
    }

    fn destructure(&mut self, cv: ConstValue, t: Ty<'tcx>, depth: u32) -> J {
        let tcx = self.tcx;
        match tcx.try_destructure_mir_constant_for_user_output(cv, t) {
            Some(d) => {
                let fields: Vec<J> = d.fields.iter().map(|(v, fty)| self.const_value(*v, *fty, depth + 1)).collect();
                match *t.kind() {
                    ty::Adt(def, _) => {
                        let vi = d.variant.unwrap_or(rustc_abi::FIRST_VARIANT);
                        J::obj().set("adt", J::s(self.path(def.did()))).set("variant", J::s(def.variant(vi).name.to_string())).set("fields", J::Arr(fields))
                    }
                    ty::Tuple(_) => J::obj().set("tup", J::Arr(fields)),
                    ty::Array(..) => J::obj().set("arr", J::Arr(fields)),
                    _ => J::obj().set("opaque", J::s("destructure")),
                }
            }
            None => J::obj().set("opaque", J::s("no-destructure")),
        }
    }

    fn mir_const(&mut self, c: &mir::ConstOperand<'tcx>, env: TypingEnv<'tcx>) -> J {
        let tcx = self.tcx;
        let t = c.const_.ty();
        let tid = self.tid(t);
        let mut o = J::obj().set("ty", J::Int(tid as i128));
        if let mir::Const::Unevaluated(uv, _) = c.const_ {
            let mut src = J::obj().set("def", J::s(self.path(uv.def))).set("key", J::s(self.key(uv.def)));
            if let Some(p) = uv.promoted {
                src.put("promoted", J::UInt(p.as_u32() as u128));
            }
            o.put("src", src);
        }
        let v = match c.const_.eval(tcx, env, c.span) {
            Ok(cv) => self.const_value(cv, t, 0),
            Err(_) => J::obj().set("uneval", J::Bool(true)),
        };
        o.put("v", v);
        o
    }

    // ----- places / operands ---------------------------------------------

    fn place(&mut self, body: &mir::Body<'tcx>, p: &Place<'tcx>) -> J {
        let tcx = self.tcx;
        let mut pty = mir::PlaceTy::from_ty(body.local_decls[p.local].ty);
        let mut proj = Vec::new();
        for elem in p.projection.iter() {
            let e = match elem {
                ProjectionElem::Deref => J::s("deref"),
                ProjectionElem::Field(f, fty) => {
                    let mut o = J::obj().set("f", J::UInt(f.as_u32() as u128)).set("ty", J::Int(self.tid(fty) as i128));
                    if let ty::Adt(def, _) = pty.ty.kind() {
                        let vi = pty.variant_index.unwrap_or(rustc_abi::FIRST_VARIANT);
                        if def.is_enum() || def.is_struct() || def.is_union() {
                            if let Some(fd) = def.variant(vi).fields.get(f) {
                                o.put("n", J::s(fd.name.to_string()));
                            }
                        }
                    }
                    o
                }
                ProjectionElem::Index(l) => J::obj().set("idx", J::UInt(l.as_u32() as u128)),
                ProjectionElem::ConstantIndex { offset, min_length, from_end } => J::obj().set("ci", J::Arr(vec![J::UInt(offset as u128), J::UInt(min_length as u128), J::Bool(from_end)])),
                ProjectionElem::Subslice { from, to, from_end } => J::obj().set("sub", J::Arr(vec![J::UInt(from as u128), J::UInt(to as u128), J::Bool(from_end)])),
                ProjectionElem::Downcast(name, vi) => {
                    let n = match name {
                        Some(s) => s.to_string(),
                        None => match pty.ty.kind() {
                            ty::Adt(def, _) => def.variant(vi).name.to_string(),
                            _ => format!("{}", vi.as_u32()),
                        },
                    };
                    J::obj().set("dc", J::s(n)).set("vi", J::UInt(vi.as_u32() as u128))
                }
                ProjectionElem::OpaqueCast(_) => J::s("opaque_cast"),
                ProjectionElem::UnwrapUnsafeBinder(_) => J::s("unwrap_binder"),
            };
            proj.push(e);
            pty = pty.projection_ty(tcx, elem);
        }
        J::obj().set("l", J::UInt(p.local.as_u32() as u128)).set("p", J::Arr(proj))
    }

    fn operand(&mut self, body: &mir::Body<'tcx>, op: &Operand<'tcx>, env: TypingEnv<'tcx>) -> J {
        match op {
            Operand::Copy(p) => J::obj().set("c", self.place(body, p)),
            Operand::Move(p) => J::obj().set("m", self.place(body, p)),
            Operand::Constant(c) => J::obj().set("k", self.mir_const(c, env)),
            Operand::RuntimeChecks(rc) => J::obj().set("rtc", J::s(format!("{:?}", rc))),
        }
    }

    // ----- callees --------------------------------------------------------

    fn def_desc(&mut self, def_id: DefId, args: GenericArgsRef<'tcx>) -> J {
        let tcx = self.tcx;
        let mut o = J::obj().set("def", J::s(self.path(def_id))).set("key", J::s(self.key(def_id))).set("crate", J::s(tcx.crate_name(def_id.krate).to_string())).set("local", J::Bool(def_id.is_local()));
        o.put("args", self.gargs(args));
        // trait item this is (an impl of), if any
        if let Some(ai) = tcx.opt_associated_item(def_id) {
            if let Some(tr_item) = ai.trait_item_def_id() {
                o.put("trait_item", J::s(self.path(tr_item)));
            } else if tcx.trait_of_assoc(def_id).is_some() {
                o.put("trait_item", J::s(self.path(def_id)));
            }
            if let Some(imp) = tcx.impl_of_assoc(def_id) {
                let st = tcx.type_of(imp).instantiate(tcx, args).skip_norm_wip();
                let st = tcx.try_normalize_erasing_regions(TypingEnv::fully_monomorphized(), ty::Unnormalized::new_wip(st)).unwrap_or(st);
                o.put("impl_self", J::Int(self.tid(st) as i128));
            }
        }
        if tcx.is_closure_like(def_id) {
            o.put("closure", J::Bool(true));
        }
        o
    }

    fn inst_id(&mut self, inst: Instance<'tcx>) -> usize {
        if let Some(&i) = self.inst_ids.get(&inst) {
            return i;
        }
        let i = self.inst_list.len();
        self.inst_list.push(inst);
        self.inst_ids.insert(inst, i);
        self.queue.push_back(i);
        i
    }

    fn resolved(&mut self, inst: Instance<'tcx>, mono: bool) -> J {
        let tcx = self.tcx;
        let (kind, def_id) = match inst.def {
            InstanceKind::Item(d) => ("Item", d),
            InstanceKind::Intrinsic(d) => ("Intrinsic", d),
            InstanceKind::VTableShim(d) => ("VTableShim", d),
            InstanceKind::ReifyShim(d, _) => ("ReifyShim", d),
            InstanceKind::FnPtrShim(d, _) => ("FnPtrShim", d),
            InstanceKind::Virtual(d, _) => ("Virtual", d),
            InstanceKind::ClosureOnceShim { call_once, .. } => ("ClosureOnceShim", call_once),
            InstanceKind::DropGlue(d, _) => ("DropGlue", d),
            InstanceKind::CloneShim(d, _) => ("CloneShim", d),
            InstanceKind::FnPtrAddrShim(d, _) => ("FnPtrAddrShim", d),
            InstanceKind::ThreadLocalShim(d) => ("ThreadLocalShim", d),
            _ => ("Other", inst.def_id()),
        };
        let mut o = self.def_desc(def_id, inst.args);
        o.put("kind", J::s(kind));
        match inst.def {
            InstanceKind::FnPtrShim(_, t) | InstanceKind::CloneShim(_, t) => {
                o.put("shim_ty", J::Int(self.tid(t) as i128));
            }
            InstanceKind::DropGlue(_, Some(t)) => {
                o.put("shim_ty", J::Int(self.tid(t) as i128));
            }
            InstanceKind::ClosureOnceShim { .. } => {
                // the closure being called is Self (arg 0)
                let t = inst.args.type_at(0);
                o.put("shim_ty", J::Int(self.tid(t) as i128));
                if mono {
                    if let ty::Closure(cd, cargs) = *t.kind() {
                        if cd.is_local() {
                            let ci = Instance::resolve_closure(tcx, cd, cargs, ty::ClosureKind::FnOnce);
                            if let InstanceKind::Item(_) = ci.def {
                                let id = self.inst_id(ci);
                                o.put("shim_inst", J::UInt(id as u128));
                            } else {
                                // by-ref closure called through FnOnce: body is the Fn/FnMut body
                                let ci2 = Instance::new_raw(cd, cargs);
                                let id = self.inst_id(ci2);
                                o.put("shim_inst", J::UInt(id as u128));
                            }
                        }
                    }
                }
            }
            _ => {}
        }
        if mono {
            if let InstanceKind::Item(d) = inst.def {
                if d.is_local() && tcx.is_mir_available(d) && !tcx.is_foreign_item(d) {
                    let id = self.inst_id(inst);
                    o.put("inst", J::UInt(id as u128));
                }
            }
        }
        o
    }

    fn callee(&mut self, body: &mir::Body<'tcx>, func: &Operand<'tcx>, env: TypingEnv<'tcx>, mono: bool) -> J {
        let tcx = self.tcx;
        let fty = func.ty(&body.local_decls, tcx);
        match *fty.kind() {
            ty::FnDef(def_id, args) => {
                let declared = self.def_desc(def_id, args);
                let mut o = J::obj().set("k", J::s("item")).set("declared", declared);
                let args_n = tcx.try_normalize_erasing_regions(env, ty::Unnormalized::new_wip(args)).unwrap_or(args);
                match Instance::try_resolve(tcx, env, def_id, args_n) {
                    Ok(Some(inst)) => {
                        let r = self.resolved(inst, mono);
                        o.put("resolved", r);
                    }
                    _ => {
                        o.put("resolved", J::Null);
                    }
                }
                o
            }
            ty::FnPtr(..) => J::obj().set("k", J::s("ptr")).set("ty", J::Int(self.tid(fty) as i128)).set("op", self.operand(body, func, env)),
            _ => J::obj().set("k", J::s("other")).set("ty", J::Int(self.tid(fty) as i128)),
        }
    }

    // ----- bodies ---------------------------------------------------------

    fn rvalue(&mut self, body: &mir::Body<'tcx>, rv: &Rvalue<'tcx>, env: TypingEnv<'tcx>, mono: bool) -> J {
        let tcx = self.tcx;
        match rv {
            Rvalue::Use(op, _) => J::obj().set("k", J::s("use")).set("op", self.operand(body, op, env)),
            Rvalue::Repeat(op, n) => J::obj().set("k", J::s("repeat")).set("op", self.operand(body, op, env)).set("n", self.ty_const_value(*n)),
            Rvalue::Ref(_, bk, p) => {
                let m = match bk {
                    BorrowKind::Shared => "shared",
                    BorrowKind::Fake(_) => "fake",
                    BorrowKind::Mut { .. } => "mut",
                };
                J::obj().set("k", J::s("ref")).set("bk", J::s(m)).set("place", self.place(body, p))
            }
            Rvalue::ThreadLocalRef(d) => J::obj().set("k", J::s("thread_local_ref")).set("def", J::s(self.path(*d))),
            Rvalue::RawPtr(k, p) => J::obj().set("k", J::s("rawptr")).set("pk", J::s(format!("{:?}", k))).set("place", self.place(body, p)),
            Rvalue::Cast(ck, op, t) => {
                let cks = match ck {
                    CastKind::IntToInt => "IntToInt".to_string(),
                    CastKind::PointerCoercion(pc, _) => format!("PointerCoercion({:?})", pc),
                    other => format!("{:?}", other),
                };
                let from = op.ty(&body.local_decls, tcx);
                let mut o = J::obj().set("k", J::s("cast")).set("ck", J::s(cks)).set("op", self.operand(body, op, env)).set("from", J::Int(self.tid(from) as i128)).set("to", J::Int(self.tid(*t) as i128));
                // reified functions / closures become callable through the pointer: export their bodies
                if mono {
                    if let CastKind::PointerCoercion(..) = ck {
                        match *from.kind() {
                            ty::FnDef(d, a) => {
                                if let Ok(Some(inst)) = Instance::try_resolve(tcx, env, d, a) {
                                    let r = self.resolved(inst, true);
                                    o.put("target", r);
                                }
                            }
                            ty::Closure(d, a) => {
                                let inst = Instance::resolve_closure(tcx, d, a, ty::ClosureKind::FnOnce);
                                let r = self.resolved(inst, true);
                                o.put("target", r);
                            }
                            _ => {}
                        }
                    }
                }
                o
            }
            Rvalue::BinaryOp(op, ops) => {
                let (a, b) = (&ops.0, &ops.1);
                let name = binop_name(*op);
                let t = a.ty(&body.local_decls, tcx);
                J::obj().set("k", J::s("binop")).set("op", J::s(name)).set("a", self.operand(body, a, env)).set("b", self.operand(body, b, env)).set("ty", J::Int(self.tid(t) as i128))
            }
            Rvalue::UnaryOp(op, a) => {
                let name = match op {
                    UnOp::Not => "Not",
                    UnOp::Neg => "Neg",
                    UnOp::PtrMetadata => "PtrMetadata",
                };
                let t = a.ty(&body.local_decls, tcx);
                J::obj().set("k", J::s("unop")).set("op", J::s(name)).set("a", self.operand(body, a, env)).set("ty", J::Int(self.tid(t) as i128))
            }
            Rvalue::Discriminant(p) => J::obj().set("k", J::s("discr")).set("place", self.place(body, p)),
            Rvalue::Aggregate(kind, ops) => {
                let ops_j: Vec<J> = ops.iter().map(|o| self.operand(body, o, env)).collect();
                let mut o = J::obj().set("k", J::s("aggregate"));
                match **kind {
                    AggregateKind::Array(t) => {
                        o.put("ak", J::s("array"));
                        o.put("elem", J::Int(self.tid(t) as i128));
                    }
                    AggregateKind::Tuple => o.put("ak", J::s("tuple")),
                    AggregateKind::Adt(d, vi, args, _, active) => {
                        let def = tcx.adt_def(d);
                        o.put("ak", J::s("adt"));
                        o.put("path", J::s(self.path(d)));
                        o.put("variant", J::s(def.variant(vi).name.to_string()));
                        o.put("vi", J::UInt(vi.as_u32() as u128));
                        o.put("args", self.gargs(args));
                        let names: Vec<J> = def.variant(vi).fields.iter().map(|f| J::s(f.name.to_string())).collect();
                        o.put("fields", J::Arr(names));
                        if let Some(a) = active {
                            o.put("union_field", J::UInt(a.as_u32() as u128));
                        }
                    }
                    AggregateKind::Closure(d, args) => {
                        o.put("ak", J::s("closure"));
                        o.put("path", J::s(self.path(d)));
                        o.put("key", J::s(self.key(d)));
                        if mono {
                            let inst = Instance::new_raw(d, args);
                            let id = self.inst_id(inst);
                            o.put("inst", J::UInt(id as u128));
                        }
                    }
                    AggregateKind::RawPtr(..) => o.put("ak", J::s("rawptr")),
                    _ => o.put("ak", J::s("other")),
                }
                o.set("ops", J::Arr(ops_j))
            }
            Rvalue::CopyForDeref(p) => J::obj().set("k", J::s("use")).set("op", J::obj().set("c", self.place(body, p))),
            Rvalue::WrapUnsafeBinder(..) => J::obj().set("k", J::s("other")).set("s", J::s("WrapUnsafeBinder")),
        }
    }

    fn body(&mut self, body: &mir::Body<'tcx>, env: TypingEnv<'tcx>, mono: bool) -> J {
        let tcx = self.tcx;
        let mut names: FxHashMap<u32, String> = FxHashMap::default();
        for vdi in body.var_debug_info.iter() {
            if let mir::VarDebugInfoContents::Place(p) = &vdi.value {
                if p.projection.is_empty() {
                    names.entry(p.local.as_u32()).or_insert_with(|| vdi.name.to_string());
                }
            }
        }
        let mut locals = Vec::new();
        for (l, d) in body.local_decls.iter_enumerated() {
            let mut o = J::obj().set("ty", J::Int(self.tid(d.ty) as i128));
            if let Some(n) = names.get(&l.as_u32()) {
                o.put("name", J::s(n.clone()));
            }
            if d.mutability.is_mut() {
                o.put("mut", J::Bool(true));
            }
            locals.push(o);
        }
        let mut blocks = Vec::new();
        for (_bb, data) in body.basic_blocks.iter_enumerated() {
            let mut stmts = Vec::new();
            for st in data.statements.iter() {
                let j = match &st.kind {
                    StatementKind::Assign(b) => {
                        let (p, rv) = (&b.0, &b.1);
                        Some(J::obj().set("k", J::s("assign")).set("place", self.place(body, p)).set("rv", self.rvalue(body, rv, env, mono)))
                    }
                    StatementKind::SetDiscriminant { place, variant_index } => {
                        let pt = place.ty(&body.local_decls, tcx).ty;
                        let name = match pt.kind() {
                            ty::Adt(def, _) => def.variant(*variant_index).name.to_string(),
                            _ => format!("{}", variant_index.as_u32()),
                        };
                        Some(J::obj().set("k", J::s("set_discr")).set("place", self.place(body, place)).set("variant", J::s(name)))
                    }
                    StatementKind::Intrinsic(i) => match &**i {
                        mir::NonDivergingIntrinsic::Assume(op) => Some(J::obj().set("k", J::s("assume")).set("op", self.operand(body, op, env))),
                        mir::NonDivergingIntrinsic::CopyNonOverlapping(_) => Some(J::obj().set("k", J::s("copy_nonoverlapping"))),
                    },
                    StatementKind::StorageLive(l) => Some(J::obj().set("k", J::s("live")).set("l", J::UInt(l.as_u32() as u128))),
                    StatementKind::StorageDead(l) => Some(J::obj().set("k", J::s("dead")).set("l", J::UInt(l.as_u32() as u128))),
                    _ => None,
                };
                if let Some(mut j) = j {
                    if !matches!(st.kind, StatementKind::StorageLive(_) | StatementKind::StorageDead(_)) {
                        j.put("span", self.span(st.source_info.span));
                        if st.source_info.span.from_expansion() {
                            j.put("exp", J::Bool(true));
                        }
                    }
                    stmts.push(j);
                }
            }
            let term = data.terminator();
            let bbj = |b: mir::BasicBlock| J::UInt(b.as_u32() as u128);
            let mut t = match &term.kind {
                TerminatorKind::Goto { target } => J::obj().set("k", J::s("goto")).set("t", bbj(*target)),
                TerminatorKind::SwitchInt { discr, targets } => {
                    let dt = discr.ty(&body.local_decls, tcx);
                    let mut cases = Vec::new();
                    for (v, b) in targets.iter() {
                        let vj = if let ty::Int(it) = dt.kind() {
                            let bits = it.bit_width().unwrap_or(tcx.data_layout.pointer_size().bits());
                            if bits < 128 {
                                let sh = 128 - bits as u32;
                                J::Int(((v << sh) as i128) >> sh)
                            } else {
                                J::Int(v as i128)
                            }
                        } else {
                            J::UInt(v)
                        };
                        cases.push(J::Arr(vec![vj, bbj(b)]));
                    }
                    J::obj().set("k", J::s("switch")).set("op", self.operand(body, discr, env)).set("ty", J::Int(self.tid(dt) as i128)).set("cases", J::Arr(cases)).set("otherwise", bbj(targets.otherwise()))
                }
                TerminatorKind::Return => J::obj().set("k", J::s("return")),
                TerminatorKind::Unreachable => J::obj().set("k", J::s("unreachable")),
                TerminatorKind::UnwindResume => J::obj().set("k", J::s("resume")),
                TerminatorKind::UnwindTerminate(_) => J::obj().set("k", J::s("terminate")),
                TerminatorKind::Drop { place, target, .. } => {
                    let pt = place.ty(&body.local_decls, tcx).ty;
                    J::obj().set("k", J::s("drop")).set("place", self.place(body, place)).set("ty", J::Int(self.tid(pt) as i128)).set("t", bbj(*target))
                }
                TerminatorKind::Call { func, args, destination, target, call_source, fn_span, .. } => {
                    let a: Vec<J> = args.iter().map(|x| self.operand(body, &x.node, env)).collect();
                    let mut o = J::obj().set("k", J::s("call")).set("f", self.callee(body, func, env, mono)).set("args", J::Arr(a)).set("dest", self.place(body, destination));
                    o.put("t", match target {
                        Some(b) => bbj(*b),
                        None => J::Null,
                    });
                    o.put("src", J::s(format!("{:?}", call_source)));
                    o.put("fn_span", self.span(*fn_span));
                    o
                }
                TerminatorKind::TailCall { .. } => J::obj().set("k", J::s("tailcall")),
                TerminatorKind::Assert { cond, expected, msg, target, .. } => {
                    use mir::AssertKind as AK;
                    let m = match &**msg {
                        AK::BoundsCheck { len, index } => J::obj().set("k", J::s("bounds")).set("len", self.operand(body, len, env)).set("index", self.operand(body, index, env)),
                        AK::Overflow(op, a, b) => {
                            let t = a.ty(&body.local_decls, tcx);
                            J::obj().set("k", J::s("overflow")).set("op", J::s(binop_name(*op))).set("a", self.operand(body, a, env)).set("b", self.operand(body, b, env)).set("ty", J::Int(self.tid(t) as i128))
                        }
                        AK::OverflowNeg(a) => J::obj().set("k", J::s("overflow_neg")).set("a", self.operand(body, a, env)),
                        AK::DivisionByZero(a) => J::obj().set("k", J::s("div_zero")).set("a", self.operand(body, a, env)),
                        AK::RemainderByZero(a) => J::obj().set("k", J::s("rem_zero")).set("a", self.operand(body, a, env)),
                        AK::MisalignedPointerDereference { .. } => J::obj().set("k", J::s("misaligned")),
                        AK::NullPointerDereference => J::obj().set("k", J::s("null")),
                        AK::InvalidEnumConstruction(_) => J::obj().set("k", J::s("invalid_enum")),
                        _ => J::obj().set("k", J::s("other")),
                    };
                    J::obj().set("k", J::s("assert")).set("cond", self.operand(body, cond, env)).set("expected", J::Bool(*expected)).set("msg", m).set("t", bbj(*target))
                }
                TerminatorKind::FalseEdge { real_target, .. } => J::obj().set("k", J::s("goto")).set("t", bbj(*real_target)),
                TerminatorKind::FalseUnwind { real_target, .. } => J::obj().set("k", J::s("goto")).set("t", bbj(*real_target)),
                TerminatorKind::InlineAsm { .. } => J::obj().set("k", J::s("asm")),
                _ => J::obj().set("k", J::s("other")),
            };
            t.put("span", self.span(term.source_info.span));
            if term.source_info.span.from_expansion() {
                t.put("exp", J::Bool(true));
            }
            let mut b = J::obj().set("stmts", J::Arr(stmts)).set("term", t);
            if data.is_cleanup {
                b.put("cleanup", J::Bool(true));
            }
            blocks.push(b);
        }
        let mut o = J::obj().set("arg_count", J::UInt(body.arg_count as u128)).set("locals", J::Arr(locals)).set("blocks", J::Arr(blocks));
        if let Some(sa) = body.spread_arg {
            o.put("spread_arg", J::UInt(sa.as_u32() as u128));
        }
        o
    }

    // ----- top level ------------------------------------------------------

    fn vis(&self, def_id: DefId) -> J {
        let tcx = self.tcx;
        match tcx.def_kind(def_id) {
            DefKind::Closure | DefKind::InlineConst | DefKind::AnonConst | DefKind::SyntheticCoroutineBody => J::s("n/a"),
            _ => match tcx.visibility(def_id) {
                ty::Visibility::Public => J::s("pub"),
                ty::Visibility::Restricted(m) => J::s(format!("restricted({})", self.path(m))),
            },
        }
    }

    fn export(&mut self) -> J {
        let tcx = self.tcx;
        let ev = tcx.effective_visibilities(());
        let mut root = J::obj();
        root.put("nonce", J::s(std::env::var("TZMIR_NONCE").unwrap_or_default()));
        root.put("schema", J::UInt(1));

        // --- config
        let mut feats = Vec::new();
        for (name, val) in tcx.sess.config.iter() {
            if name.as_str() == "feature" {
                if let Some(v) = val {
                    feats.push(v.to_string());
                }
            }
        }
        feats.sort();
        let cfg = J::obj()
            .set("crate", J::s(tcx.crate_name(LOCAL_CRATE).to_string()))
            .set("features", J::arr(feats.into_iter().map(J::s)))
            .set("ptr_bits", J::UInt(tcx.data_layout.pointer_size().bits() as u128))
            .set("target", J::s(tcx.sess.opts.target_triple.tuple().to_string()))
            .set("overflow_checks", J::Bool(tcx.sess.overflow_checks()))
            .set("debug_assertions", J::Bool(tcx.sess.opts.debug_assertions))
            .set("mir_opt_level", J::UInt(tcx.sess.mir_opt_level() as u128))
            .set("no_std", J::Bool(tcx.hir_krate_attrs().iter().any(|a| a.has_name(rustc_span::sym::no_std))));
        root.put("config", cfg);

        // --- crate level
        let unsafe_lint = rustc_lint::unerased_lint_store(tcx.sess).get_lints().iter().copied().find(|l| l.name_lower() == "unsafe_code");
        let lvl_s = match unsafe_lint {
            Some(l) => format!("{:?}", tcx.lint_level_at_node(l, rustc_hir::CRATE_HIR_ID).level).to_lowercase(),
            None => "unknown".to_string(),
        };
        let mut krate = J::obj().set("unsafe_code_level", J::s(lvl_s));
        let mut deps = Vec::new();
        for &cnum in tcx.crates(()).iter() {
            deps.push(J::s(tcx.crate_name(cnum).to_string()));
        }
        krate.put("crates", J::Arr(deps));
        // user-written unsafe blocks / fns / impls
        let mut unsafe_sites = Vec::new();
        {
            use rustc_hir::intravisit::{self, Visitor};
            struct V<'a, 'tcx> {
                tcx: TyCtxt<'tcx>,
                out: &'a mut Vec<(Span, &'static str)>,
            }
            impl<'a, 'tcx> Visitor<'tcx> for V<'a, 'tcx> {
                type NestedFilter = rustc_middle::hir::nested_filter::All;
                fn maybe_tcx(&mut self) -> TyCtxt<'tcx> {
                    self.tcx
                }
                fn visit_block(&mut self, b: &'tcx rustc_hir::Block<'tcx>) {
                    if let rustc_hir::BlockCheckMode::UnsafeBlock(src) = b.rules {
                        let user = matches!(src, rustc_hir::UnsafeSource::UserProvided);
                        if user && !b.span.from_expansion() {
                            self.out.push((b.span, "unsafe block"));
                        } else if user {
                            self.out.push((b.span, "unsafe block (macro)"));
                        }
                    }
                    intravisit::walk_block(self, b);
                }
            }
            let mut sites = Vec::new();
            let mut v = V { tcx, out: &mut sites };
            tcx.hir_walk_toplevel_module(&mut v);
            for (sp, what) in sites {
                unsafe_sites.push(J::obj().set("what", J::s(what)).set("span", self.span(sp)));
            }
        }

        // --- items, ADTs, traits, impls, statics
        let mut items = Vec::new();
        let mut adts = Vec::new();
        let mut traits = Vec::new();
        let mut impls = Vec::new();
        let mut statics = Vec::new();
        let send = tcx.get_diagnostic_item(rustc_span::sym::Send);
        let sync = tcx.lang_items().sync_trait();
        let unpin = tcx.lang_items().unpin_trait();
        let crate_items = tcx.hir_crate_items(());
        let defs: Vec<LocalDefId> = crate_items.definitions().collect();
        for ld in defs.iter().copied() {
            let d = ld.to_def_id();
            let dk = tcx.def_kind(d);
            match dk {
                DefKind::Struct | DefKind::Enum | DefKind::Union => {
                    let def = tcx.adt_def(d);
                    let self_ty = tcx.type_of(d).instantiate_identity().skip_norm_wip();
                    let penv = tcx.param_env(d);
                    let tenv = TypingEnv::non_body_analysis(tcx, d);
                    let mut o = J::obj().set("path", J::s(self.path(d))).set("key", J::s(self.key(d))).set("kind", J::s(format!("{:?}", dk).to_lowercase())).set("vis", self.vis(d));
                    o.put("reachable", J::Bool(ev.is_reachable(ld)));
                    o.put("exported", J::Bool(ev.is_exported(ld)));
                    o.put("span", self.span(tcx.def_span(d)));
                    o.put("ty", J::Int(self.tid(self_ty) as i128));
                    let g = tcx.generics_of(d);
                    let mut gp = Vec::new();
                    for p in g.own_params.iter() {
                        let k = match p.kind {
                            ty::GenericParamDefKind::Lifetime => "lifetime",
                            ty::GenericParamDefKind::Type { .. } => "type",
                            ty::GenericParamDefKind::Const { .. } => "const",
                        };
                        gp.push(J::obj().set("name", J::s(p.name.to_string())).set("kind", J::s(k)));
                    }
                    o.put("generics", J::Arr(gp));
                    {
                        use rustc_infer::infer::TyCtxtInferExt;
                        use rustc_trait_selection::infer::InferCtxtExt;
                        let infcx = tcx.infer_ctxt().build(ty::TypingMode::non_body_analysis());
                        let mut check = |tr: Option<DefId>| -> J {
                            match tr {
                                Some(t) => J::Bool(infcx.type_implements_trait(t, [self_ty], penv).must_apply_modulo_regions()),
                                None => J::Null,
                            }
                        };
                        o.put("send", check(send));
                        o.put("sync", check(sync));
                        o.put("unpin", check(unpin));
                    }
                    o.put("freeze", J::Bool(self_ty.is_freeze(tcx, tenv)));
                    o.put("copy", J::Bool(tcx.type_is_copy_modulo_regions(tenv, self_ty)));
                    o.put("has_dtor", J::Bool(def.has_dtor(tcx)));
                    o.put("non_exhaustive", J::Bool(def.is_variant_list_non_exhaustive()));
                    let mut seen = FxHashSet::default();
                    o.put("deep_cell", match self.deep_cell(self_ty, &mut seen) {
                        Some(w) => J::s(w),
                        None => J::Null,
                    });
                    let mut vs = Vec::new();
                    for (vi, v) in def.variants().iter_enumerated() {
                        let mut fs = Vec::new();
                        for f in v.fields.iter() {
                            let fty = tcx.type_of(f.did).instantiate_identity().skip_norm_wip();
                            fs.push(J::obj().set("name", J::s(f.name.to_string())).set("ty", J::Int(self.tid(fty) as i128)).set("vis", self.vis(f.did)).set("ty_s", J::s(nvp(|| format!("{}", fty)))));
                        }
                        let discr = if def.is_enum() { def.discriminant_for_variant(tcx, vi).val } else { 0 };
                        vs.push(J::obj().set("name", J::s(v.name.to_string())).set("discr", J::UInt(discr)).set("fields", J::Arr(fs)));
                    }
                    o.put("variants", J::Arr(vs));
                    adts.push(o);
                }
                DefKind::Trait => {
                    let mut o = J::obj().set("path", J::s(self.path(d))).set("key", J::s(self.key(d))).set("vis", self.vis(d)).set("reachable", J::Bool(ev.is_reachable(ld)));
                    let mut its = Vec::new();
                    for ai in tcx.associated_items(d).in_definition_order() {
                        let mut io = J::obj().set("name", J::s(ai.name().to_string())).set("kind", J::s(format!("{:?}", ai.tag())));
                        if ai.is_fn() {
                            let sig = tcx.fn_sig(ai.def_id).instantiate_identity().skip_norm_wip().skip_binder();
                            let ins: Vec<J> = sig.inputs().iter().map(|t| J::s(nvp(|| format!("{}", t)))).collect();
                            io.put("inputs", J::Arr(ins));
                            io.put("output", J::s(nvp(|| format!("{}", sig.output()))));
                            io.put("has_default", J::Bool(ai.defaultness(tcx).has_value()));
                        }
                        its.push(io);
                    }
                    o.put("items", J::Arr(its));
                    let supers: Vec<J> = tcx.explicit_super_predicates_of(d).iter_identity_copied().map(|x| x.skip_norm_wip()).map(|(c, _)| J::s(nvp(|| format!("{}", c)))).collect();
                    o.put("supertraits", J::Arr(supers));
                    traits.push(o);
                }
                DefKind::Impl { of_trait } => {
                    let st = tcx.type_of(d).instantiate_identity().skip_norm_wip();
                    let mut o = J::obj().set("key", J::s(self.key(d))).set("self", J::Int(self.tid(st) as i128)).set("self_s", J::s(nvp(|| format!("{}", st)))).set("span", self.span(tcx.def_span(d)));
                    if of_trait {
                        let hdr = tcx.impl_trait_header(d);
                        let tr = hdr.trait_ref.instantiate_identity().skip_norm_wip();
                        o.put("trait", J::s(self.path(tr.def_id)));
                        o.put("trait_ref", J::s(nvp(|| format!("{}", tr))));
                        o.put("unsafe", J::Bool(hdr.safety.is_unsafe()));
                        o.put("negative", J::Bool(matches!(hdr.polarity, ty::ImplPolarity::Negative)));
                    } else {
                        o.put("trait", J::Null);
                    }
                    let its: Vec<J> = tcx.associated_item_def_ids(d).iter().map(|x| J::s(self.key(*x))).collect();
                    o.put("items", J::Arr(its));
                    impls.push(o);
                }
                DefKind::Static { mutability, .. } => {
                    let t = tcx.type_of(d).instantiate_identity().skip_norm_wip();
                    let tenv = TypingEnv::fully_monomorphized();
                    let mut seen = FxHashSet::default();
                    let dc = self.deep_cell(t, &mut seen);
                    statics.push(
                        J::obj()
                            .set("path", J::s(self.path(d)))
                            .set("mutable", J::Bool(mutability.is_mut()))
                            .set("thread_local", J::Bool(tcx.is_thread_local_static(d)))
                            .set("ty", J::Int(self.tid(t) as i128))
                            .set("freeze", J::Bool(t.is_freeze(tcx, tenv)))
                            .set("deep_cell", J::opt(dc.map(J::s)))
                            .set("span", self.span(tcx.def_span(d))),
                    );
                }
                _ => {}
            }
            // items with code or signatures
            match dk {
                DefKind::Fn | DefKind::AssocFn | DefKind::Closure | DefKind::Const { .. } | DefKind::AssocConst { .. } | DefKind::InlineConst | DefKind::AnonConst | DefKind::Static { .. } | DefKind::Ctor(..) => {
                    let mut o = J::obj().set("path", J::s(self.path(d))).set("key", J::s(self.key(d))).set("kind", J::s(format!("{:?}", dk))).set("vis", self.vis(d));
                    o.put("reachable", J::Bool(ev.is_reachable(ld)));
                    o.put("exported", J::Bool(ev.is_exported(ld)));
                    o.put("span", self.span(tcx.def_span(d)));
                    if matches!(dk, DefKind::Fn | DefKind::AssocFn) {
                        o.put("const_fn", J::Bool(tcx.is_const_fn(d)));
                        let sig = tcx.fn_sig(d).instantiate_identity().skip_norm_wip().skip_binder();
                        let ins: Vec<J> = sig.inputs().iter().map(|t| J::Int(self.tid(*t) as i128)).collect();
                        o.put("inputs", J::Arr(ins));
                        o.put("output", J::Int(self.tid(sig.output()) as i128));
                        o.put("unsafe", J::Bool(sig.safety().is_unsafe()));
                        let g = tcx.generics_of(d);
                        o.put("generic", J::Bool(g.requires_monomorphization(tcx)));
                    }
                    if let Some(ai) = tcx.opt_associated_item(d) {
                        if let Some(imp) = tcx.impl_of_assoc(d) {
                            o.put("impl", J::s(self.key(imp)));
                            let st = tcx.type_of(imp).instantiate_identity().skip_norm_wip();
                            o.put("impl_self", J::Int(self.tid(st) as i128));
                        }
                        if let Some(ti) = ai.trait_item_def_id() {
                            o.put("trait_item", J::s(self.path(ti)));
                        }
                        if let Some(tr) = tcx.trait_of_assoc(d) {
                            o.put("in_trait", J::s(self.path(tr)));
                        }
                    }
                    if tcx.is_closure_like(d) {
                        o.put("parent", J::s(self.key(tcx.typeck_root_def_id(d))));
                    }
                    items.push(o);
                }
                _ => {}
            }
            // unsafe fn / unsafe impl are sites too
            if matches!(dk, DefKind::Fn | DefKind::AssocFn) {
                let sig = tcx.fn_sig(d).instantiate_identity().skip_norm_wip().skip_binder();
                if sig.safety().is_unsafe() {
                    unsafe_sites.push(J::obj().set("what", J::s("unsafe fn")).set("span", self.span(tcx.def_span(d))));
                }
            }
            if let DefKind::Impl { of_trait: true } = dk {
                if tcx.impl_trait_header(d).safety.is_unsafe() {
                    let derived = tcx.def_span(d).from_expansion() || tcx.is_automatically_derived(d);
                    unsafe_sites.push(J::obj().set("what", J::s(if derived { "unsafe impl (derive)" } else { "unsafe impl" })).set("span", self.span(tcx.def_span(d))).set("key", J::s(self.key(d))));
                }
            }
        }
        krate.put("unsafe_sites", J::Arr(unsafe_sites));
        root.put("crate", krate);

        // --- polymorphic bodies
        let mut bodies = Vec::new();
        let owners: Vec<LocalDefId> = tcx.hir_body_owners().collect();
        for ld in owners.iter().copied() {
            let d = ld.to_def_id();
            let dk = tcx.def_kind(d);
            let is_fn_like = matches!(dk, DefKind::Fn | DefKind::AssocFn | DefKind::Closure);
            if !tcx.is_mir_available(d) && is_fn_like {
                continue;
            }
            let env = TypingEnv::post_analysis(tcx, d);
            let body: &mir::Body<'tcx> = if is_fn_like { tcx.optimized_mir(d) } else { tcx.mir_for_ctfe(d) };
            let bj = self.body(body, env, false);
            let mut o = J::obj().set("key", J::s(self.key(d))).set("path", J::s(self.path(d))).set("kind", J::s(format!("{:?}", dk))).set("body", bj);
            let proms = tcx.promoted_mir(d);
            let mut pv = Vec::new();
            for p in proms.iter() {
                pv.push(self.body(p, env, false));
            }
            o.put("promoted", J::Arr(pv));
            bodies.push(o);
        }
        root.put("bodies", J::Arr(bodies));

        // --- monomorphic instances: every non-generic fn is a starting point
        for ld in owners.iter().copied() {
            let d = ld.to_def_id();
            let dk = tcx.def_kind(d);
            if matches!(dk, DefKind::Fn | DefKind::AssocFn) && !tcx.generics_of(d).requires_monomorphization(tcx) && tcx.is_mir_available(d) {
                let inst = Instance::mono(tcx, d);
                self.inst_id(inst);
            }
        }
        // constants may reify closures / fn items into fn pointers (e.g. a default callback): walk
        // their bodies in mono mode for the side effect of enqueuing those instances
        let mut const_roots = Vec::new();
        for ld in owners.iter().copied() {
            let d = ld.to_def_id();
            let dk = tcx.def_kind(d);
            if matches!(dk, DefKind::Const { .. } | DefKind::AssocConst { .. } | DefKind::Static { .. }) && !tcx.generics_of(d).requires_monomorphization(tcx) {
                let env = TypingEnv::fully_monomorphized();
                let body = tcx.mir_for_ctfe(d);
                let before = self.inst_list.len();
                let _ = self.body(body, env, true);
                for p in tcx.promoted_mir(d).iter() {
                    let _ = self.body(p, env, true);
                }
                for i in before..self.inst_list.len() {
                    const_roots.push(J::obj().set("const", J::s(self.key(d))).set("inst", J::UInt(i as u128)));
                }
            }
        }
        root.put("const_reified", J::Arr(const_roots));
        let mut insts: Vec<J> = Vec::new();
        while let Some(i) = self.queue.pop_front() {
            let inst = self.inst_list[i];
            let d = inst.def_id();
            let env = TypingEnv::fully_monomorphized();
            let poly = tcx.instance_mir(inst.def);
            let body = inst.instantiate_mir_and_normalize_erasing_regions(tcx, env, EarlyBinder::bind(poly.clone()));
            let bj = self.body(&body, env, true);
            let mut o = J::obj().set("id", J::UInt(i as u128)).set("key", J::s(self.key(d))).set("path", J::s(self.path(d))).set("name", J::s(nvp(|| format!("{}", inst)))).set("args", self.gargs(inst.args)).set("body", bj);
            o.put("closure", J::Bool(tcx.is_closure_like(d)));
            if let Some(ld) = d.as_local() {
                let rootd = tcx.typeck_root_def_id(d);
                o.put("reachable", J::Bool(ev.is_reachable(ld)));
                o.put("root_key", J::s(self.key(rootd)));
            }
            o.put("span", self.span(tcx.def_span(d)));
            while insts.len() <= i {
                insts.push(J::Null);
            }
            insts[i] = o;
        }
        root.put("instances", J::Arr(insts));

        // --- public (nameable from outside) paths of local definitions, following `pub use`
        {
            let mut pub_paths: Vec<J> = Vec::new();
            let mut seen: FxHashSet<DefId> = FxHashSet::default();
            let mut q: VecDeque<(LocalDefId, String)> = VecDeque::new();
            q.push_back((rustc_hir::def_id::CRATE_DEF_ID, tcx.crate_name(LOCAL_CRATE).to_string()));
            while let Some((m, mpath)) = q.pop_front() {
                for child in tcx.module_children_local(m) {
                    if !child.vis.is_public() {
                        continue;
                    }
                    if let rustc_hir::def::Res::Def(kind, did) = child.res {
                        let p = format!("{}::{}", mpath, child.ident.name);
                        if seen.insert(did) {
                            pub_paths.push(J::obj().set("def", J::s(self.path(did))).set("key", J::s(self.key(did))).set("public", J::s(p.clone())).set("kind", J::s(format!("{:?}", kind))));
                            if let (DefKind::Mod, Some(l)) = (kind, did.as_local()) {
                                q.push_back((l, p));
                            }
                        }
                    }
                }
            }
            root.put("pub_paths", J::Arr(pub_paths));
        }

        root.put("items", J::Arr(items));
        root.put("adts", J::Arr(adts));
        root.put("traits", J::Arr(traits));
        root.put("impls", J::Arr(impls));
        root.put("statics", J::Arr(statics));
        root.put("types", J::Arr(std::mem::take(&mut self.types)));
        let _ = DUMMY_SP;
        root
    }
}

fn binop_name(op: BinOp) -> &'static str {
    match op {
        BinOp::Add => "Add",
        BinOp::AddUnchecked => "AddUnchecked",
        BinOp::AddWithOverflow => "AddWithOverflow",
        BinOp::Sub => "Sub",
        BinOp::SubUnchecked => "SubUnchecked",
        BinOp::SubWithOverflow => "SubWithOverflow",
        BinOp::Mul => "Mul",
        BinOp::MulUnchecked => "MulUnchecked",
        BinOp::MulWithOverflow => "MulWithOverflow",
        BinOp::Div => "Div",
        BinOp::Rem => "Rem",
        BinOp::BitXor => "BitXor",
        BinOp::BitAnd => "BitAnd",
        BinOp::BitOr => "BitOr",
        BinOp::Shl => "Shl",
        BinOp::ShlUnchecked => "ShlUnchecked",
        BinOp::Shr => "Shr",
        BinOp::ShrUnchecked => "ShrUnchecked",
        BinOp::Eq => "Eq",
        BinOp::Lt => "Lt",
        BinOp::Le => "Le",
        BinOp::Ne => "Ne",
        BinOp::Ge => "Ge",
        BinOp::Gt => "Gt",
        BinOp::Cmp => "Cmp",
        BinOp::Offset => "Offset",
    }
}
