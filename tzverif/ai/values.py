"""Abstract values of E-AI.  All values are immutable; updates rebuild the spine."""


class Val:
    __slots__ = ()


class Bot(Val):
    """No value (unreachable / uninitialised)."""
    __slots__ = ()

    def __repr__(self):
        return "⊥"


BOT = Bot()


class Scalar(Val):
    __slots__ = ("sym",)

    def __init__(self, sym):
        self.sym = sym

    def __repr__(self):
        return "s%d" % self.sym


class Struct(Val):
    """Struct / tuple / closure environment. `path` is the ADT path, 'tuple' or 'closure:<inst>'."""
    __slots__ = ("path", "fields")

    def __init__(self, path, fields):
        self.path = path
        self.fields = tuple(fields)

    def __repr__(self):
        return "%s(%s)" % (self.path.rsplit("::", 1)[-1], ", ".join(map(repr, self.fields)))


class Enum(Val):
    """variants: name -> tuple of field values (only the possible variants).
    when: name -> Delta (what is additionally known if the value is that variant), or {}."""
    __slots__ = ("path", "variants", "when")

    def __init__(self, path, variants, when=None):
        self.path = path
        self.variants = variants
        self.when = when or {}

    def __repr__(self):
        return "%s{%s}" % (self.path.rsplit("::", 1)[-1], " | ".join("%s%s%s" % (k, repr(v) if v else "", "?" if k in self.when else "") for k, v in self.variants.items()))


class Seq(Val):
    """Slice / Vec / str contents: a length symbol and a summary of every element.
    efacts: tuple of (field path, Lin) element facts — see interp.instantiate_elem.
    data: literal bytes for constants (None otherwise).  prov: provenance tags (frozenset)."""
    __slots__ = ("kind", "len", "elem", "efacts", "data", "prov")

    def __init__(self, kind, length, elem, efacts=(), data=None, prov=frozenset()):
        self.kind = kind
        self.len = length
        self.elem = elem
        self.efacts = tuple(efacts)
        self.data = data
        self.prov = prov

    def __repr__(self):
        return "%s[len=s%d; %r]" % (self.kind, self.len, self.elem)


class Arr(Val):
    """Fixed-length array tracked element-wise (n <= 32)."""
    __slots__ = ("elems",)

    def __init__(self, elems):
        self.elems = tuple(elems)

    def __repr__(self):
        return "[%s]" % ", ".join(map(repr, self.elems))


class Ref(Val):
    """Reference / raw pointer to (cell id, path).  target None = unknown pointee."""
    __slots__ = ("cell", "path", "mut")

    def __init__(self, cell, path=(), mut=False):
        self.cell = cell
        self.path = tuple(path)
        self.mut = mut

    def __repr__(self):
        return "&%s%r%s" % ("mut " if self.mut else "", self.cell, "".join(".%s" % (p,) for p in self.path))


class Fn(Val):
    """Function item (ZST) — desc is the exporter's definition description."""
    __slots__ = ("desc",)

    def __init__(self, desc):
        self.desc = desc

    def __repr__(self):
        return "fn %s" % self.desc.get("def")


class FnSet(Val):
    """One of several known function items (a pointer chosen among crate functions)."""
    __slots__ = ("fns",)

    def __init__(self, fns):
        self.fns = tuple(fns)

    def __repr__(self):
        return "fn{%s}" % ", ".join(str(f.desc.get("def")) for f in self.fns)


class FnPtr(Val):
    """Function pointer; target is a Fn / FnSet / closure Struct, or None for an environment callback."""
    __slots__ = ("target", "ty")

    def __init__(self, target, ty=None):
        self.target = target
        self.ty = ty

    def __repr__(self):
        return "fnptr(%r)" % (self.target,)


class Iter(Val):
    """Abstract iterator.  kind: 'slice','chunks','windows','chars','zip','chain','repeat','take',
    'enumerate','copied','flatten','rev', 'opaque'.  a, b: sub-iterators or parameters."""
    __slots__ = ("kind", "a", "b", "n", "finite")

    def __init__(self, kind, a=None, b=None, n=None, finite=True):
        self.kind = kind
        self.a = a
        self.b = b
        self.n = n
        self.finite = finite

    def __repr__(self):
        return "iter:%s(%r,%r,%r)" % (self.kind, self.a, self.b, self.n)


class BoxU(Val):
    """`Box::new_uninit()` / pointer into it, used by the expansion of `vec![..]`."""
    __slots__ = ("cell",)

    def __init__(self, cell):
        self.cell = cell

    def __repr__(self):
        return "boxu(%r)" % (self.cell,)


class Opaque(Val):
    """Any value of the given type (id) about which nothing is tracked."""
    __slots__ = ("ty",)

    def __init__(self, ty=None):
        self.ty = ty

    def __repr__(self):
        return "⊤"


class Delta:
    """Conditional knowledge: interval refinements and facts that hold under a condition."""
    __slots__ = ("iv", "facts", "gen", "ef")

    def __init__(self, iv=None, facts=(), gen=None, ef=None):
        self.iv = iv or {}
        self.facts = tuple(facts)
        self.gen = gen  # symbol -> generation at creation (None: unconditional on generations)
        self.ef = ef or {}  # length symbol of a sequence -> element-fact templates known under the condition

    def __repr__(self):
        return "Δ(%d iv, %d facts%s)" % (len(self.iv), len(self.facts), ", ∀" if self.ef else "")


def val_syms(v, out):
    """Collect symbols mentioned by a value (including conditional deltas)."""
    if isinstance(v, Scalar):
        out.add(v.sym)
    elif isinstance(v, Struct):
        for f in v.fields:
            val_syms(f, out)
    elif isinstance(v, Enum):
        for fs in v.variants.values():
            for f in fs:
                val_syms(f, out)
        for d in v.when.values():
            out.update(d.iv.keys())
            for f in d.facts:
                out.update(f.syms())
    elif isinstance(v, Seq):
        out.add(v.len)
        if v.elem is not None:
            val_syms(v.elem, out)
        for _, f in v.efacts:
            out.update(s for s in f.syms() if not isinstance(s, tuple))
    elif isinstance(v, Arr):
        for e in v.elems:
            val_syms(e, out)
    elif isinstance(v, Iter):
        for x in (v.a, v.b, v.n):
            if isinstance(x, Val):
                val_syms(x, out)
            elif isinstance(x, int) and not isinstance(x, bool) and v.kind in ("take",) and x is v.n:
                out.add(x)
    elif isinstance(v, FnPtr):
        if isinstance(v.target, Val):
            val_syms(v.target, out)
