"""Statement / terminator transfer functions, intra-procedural fixpoint and calls."""
import os

from . import domain as D
from .domain import Lin
from .interp import MAX_DEPTH, MAX_VISITS, ORDERING, Interp, Unsupported
from .join import join
from .state import State
from .values import FnSet, BOT, Arr, Bot, BoxU, Delta, Enum, Fn, FnPtr, Iter, Opaque, Ref, Scalar, Seq, Struct, Val

CMP_OPS = ("Eq", "Ne", "Lt", "Le", "Gt", "Ge")
BIG_THRESHOLDS = sorted(set([0, -1, 1] + [(1 << b) - 1 for b in (7, 8, 15, 16, 31, 32, 63, 64, 127, 128)] + [-(1 << b) for b in (7, 15, 31, 63, 127)]))
FLIP = {"Lt": "Gt", "Le": "Ge", "Gt": "Lt", "Ge": "Le", "Eq": "Eq", "Ne": "Ne"}


class Exec(Interp):
    # analyses that inspect the root's locals in the final state (what was left of a cursor) keep them past their
    # StorageDead; a dead local is never read again by the program, so this changes no verdict
    keep_root_locals = False

    # ------------------------------------------------------------------ scalar helpers
    def sc(self, S, v):
        """Symbol of a scalar value, or None."""
        return v.sym if isinstance(v, Scalar) else None

    def binop(self, S, frame, rv, site):
        op = rv["op"]
        a = self.operand(S, frame, rv["a"], site + ("a",))
        b = self.operand(S, frame, rv["b"], site + ("b",))
        t = self.types[rv["ty"]]
        rng = self.int_range(t)
        if op in CMP_OPS:
            sa, sb = self.sc(S, a), self.sc(S, b)
            if sa is None or sb is None:
                # comparisons of non-scalars (pointers) are opaque booleans
                return Scalar(self.fresh(("v",) + site, (0, 1), S))
            la, lb = S.term(sa), S.term(sb)
            s = self.fresh(("v",) + site, (0, 1), S)
            S.cmpd[s] = (op, la, lb)
            r = S.decide_cmp(op, la, lb)
            if r is not None:
                S.iv[s] = D.point(1 if r else 0)
                # decided through facts, not intervals: no branch will refine the operand later, so a bound of one
                # symbol against a constant is written into its interval now (it is entailed, hence sound); facts
                # may be dropped at the next merge, intervals are not
                d = la.sub(lb)
                sg = d.single()
                if sg is not None and abs(sg[1]) == 1 and op in ("Lt", "Le", "Gt", "Ge"):
                    le0 = {("Lt", True): d.addc(1), ("Le", True): d, ("Ge", True): d.scale(-1), ("Gt", True): d.scale(-1).addc(1),
                           ("Lt", False): d.scale(-1), ("Le", False): d.scale(-1).addc(1), ("Ge", False): d.addc(1), ("Gt", False): d}[(op, r)]
                    x, k = le0.single()
                    rx = self.st.range(x)
                    if k == 1:  # x + c <= 0
                        S.refine(x, D.rng(rx[0], -le0.c))
                    else:  # -x + c <= 0
                        S.refine(x, D.rng(le0.c, rx[1]))
            return Scalar(s)
        if op == "Cmp":
            sa, sb = self.sc(S, a), self.sc(S, b)
            return self.three_way(S, sa, sb, site)
        if op == "Offset":
            return Opaque()
        sa, sb = self.sc(S, a), self.sc(S, b)
        if sa is None or sb is None or rng is None:
            if op.endswith("WithOverflow"):
                return Struct("tuple", [Opaque(), Scalar(self.fresh(("v",) + site + ("o",), (0, 1), S))])
            return Opaque()
        ia, ib = S.ivof(sa), S.ivof(sb)
        base = op.replace("WithOverflow", "").replace("Unchecked", "")
        lin = None
        if base == "Add":
            ex = D.add(ia, ib)
            lin = S.term(sa).add(S.term(sb))
        elif base == "Sub":
            ex = D.sub(ia, ib)
            lin = S.term(sa).sub(S.term(sb))
        elif base == "Mul":
            ex = D.mul(ia, ib)
            if D.is_point(ib):
                lin = S.term(sa).scale(D.lo(ib))
            elif D.is_point(ia):
                lin = S.term(sb).scale(D.lo(ia))
        elif base == "Div":
            nz = D.remove_point(ib, 0)
            ex = D.div_trunc(ia, nz) if nz else ()
            if D.is_point(ib) and D.lo(ib) == 1:
                lin = S.term(sa)
        elif base == "Rem":
            nz = D.remove_point(ib, 0)
            ex = D.rem_trunc(ia, nz) if nz else ()
        elif base in ("BitAnd", "BitOr", "BitXor"):
            if rng == (0, 1):
                if base == "BitAnd":
                    ex = D.rng(min(D.lo(ia), D.lo(ib)) if D.lo(ia) and D.lo(ib) else 0, min(D.hi(ia), D.hi(ib)))
                elif base == "BitOr":
                    ex = D.rng(max(D.lo(ia), D.lo(ib)), max(D.hi(ia), D.hi(ib)))
                else:
                    ex = D.rng(0, 1)
            elif base == "BitAnd" and D.lo(ia) >= 0 and D.lo(ib) >= 0:
                ex = D.rng(0, min(D.hi(ia), D.hi(ib)))
            elif D.lo(ia) >= 0 and D.lo(ib) >= 0:
                m = max(D.hi(ia), D.hi(ib))
                ex = D.rng(0, (1 << m.bit_length()) - 1)
            else:
                ex = D.rng(rng[0], rng[1])
        elif base in ("Shl", "Shr"):
            if base == "Shr" and D.lo(ia) >= 0 and D.lo(ib) >= 0:
                ex = D.rng(D.lo(ia) >> min(D.hi(ib), 200), D.hi(ia) >> D.lo(ib))
            else:
                ex = D.rng(rng[0], rng[1])
        else:
            raise Unsupported("binop %s" % op)
        full = D.rng(rng[0], rng[1])
        fits = D.subset(ex, full)
        if not fits and lin is not None and base in ("Add", "Sub", "Mul") and ex:
            # relational: the exact result is within the type's range although the interval hull is not
            if S.entails(lin.addc(-rng[1])) and S.entails(lin.scale(-1).addc(rng[0])):
                fits = True
                ex = D.meet(ex, full)
        div_facts = None
        if base == "Div" and D.is_point(ib) and D.lo(ib) >= 1 and ia and D.lo(ia) >= 0:
            div_facts = (D.lo(ib), S.term(sa))
        if op.endswith("WithOverflow"):
            o = self.fresh(("v",) + site + ("o",), (0, 1), S)
            if fits:
                S.iv[o] = D.point(0)
                v = self.fresh(("v",) + site + ("r",), rng, S, ex, lin)
            else:
                inside = D.meet(ex, full)
                S.iv[o] = D.rng(0, 1) if inside else D.point(1)
                v = self.fresh(("v",) + site + ("r",), rng, S, full)
                S.ovf[o] = (v, lin, inside)
            return Struct("tuple", [Scalar(v), Scalar(o)])
        if fits:
            r = self.fresh(("v",) + site, rng, S, ex, lin)
            if div_facts is not None and lin is None:
                c, x = div_facts
                rl = Lin.var(r)
                S.add_fact(rl.scale(c).sub(x))  # c*r <= x
                S.add_fact(x.sub(rl.scale(c)).addc(-(c - 1)))  # x <= c*r + c-1
                if c >= 2 and S.entails(x.scale(-1).addc(1)):
                    S.add_fact(rl.sub(x).addc(1))  # x >= 1, c >= 2  =>  r < x
            return Scalar(r)
        # wrapping arithmetic that may wrap: sound but imprecise
        return Scalar(self.fresh(("v",) + site, rng, S, full))

    def three_way(self, S, sa, sb, site):
        vs = {}
        when = {}
        if sa is None or sb is None:
            return Enum("core::cmp::Ordering", {k: () for k in ORDERING})
        la, lb = S.term(sa), S.term(sb)
        d = la.sub(lb)
        for name, facts in (("Less", [d.addc(1)]), ("Equal", [d, d.scale(-1)]), ("Greater", [d.scale(-1).addc(1)])):
            T = S.copy()
            for f in facts:
                T.add_fact(f)
            if not T.dead:
                vs[name] = ()
                when[name] = Delta({}, facts)
                self.stamp_delta(S, when[name])
        return Enum("core::cmp::Ordering", vs, when)

    def cast(self, S, frame, rv, site):
        ck = rv["ck"]
        v = self.operand(S, frame, rv["op"], site + ("c",))
        to = self.types[rv["to"]]
        if ck == "IntToInt":
            s = self.sc(S, v)
            rng = self.int_range(to)
            if s is None or rng is None:
                return Opaque(rv["to"])
            iv = S.ivof(s)
            full = D.rng(rng[0], rng[1])
            src_rng = self.st.range(s)
            if src_rng[0] < rng[0] or src_rng[1] > rng[1]:
                # a cast that can change the value for some inputs of the source type: NARROW obligation
                fits = D.subset(iv, full)
                if not fits and s in S.lin:
                    l = S.lin[s]
                    fits = S.entails(l.addc(-rng[1])) and S.entails(l.scale(-1).addc(rng[0]))
                    if fits:
                        iv = D.meet(iv, full)
                if len(site) >= 3 and isinstance(site[1], int):
                    inst_ = self.cur_inst
                    self.oblige("NARROW", inst_, site[1], "%s->%s%s" % (self.types[rv["from"]]["s"], to["s"], self.cast_ordinal(inst_, site[1], site[2])), fits, S, None, None if fits else {"operand": D.fmt(iv), "target": D.fmt(full)})
            if D.subset(iv, full):
                return Scalar(self.fresh(("v",) + site, rng, S, iv, S.term(s)))
            from . import lemmas as _lm

            for row in _lm.LEMMAS:
                if row["kind"] == "NARROW" and row["function"] == self.cur_inst["name"] and "consequence" in row:
                    lo_, hi_ = row["consequence"]["cast_result"]
                    self.lemma_uses[row["id"]] = self.lemma_uses.get(row["id"], 0) + 1
                    return Scalar(self.fresh(("v",) + site, rng, S, D.meet(D.rng(lo_, hi_), full)))
            # possible truncation / sign reinterpretation: modular image when cheap, else top
            bits = to["bits"] if to["k"] == "int" else None
            if bits is not None and D.size(iv) <= 4096:
                m = 1 << bits
                out = []
                for x in D.values(iv, 4096):
                    y = x % m
                    if to["signed"] and y >= m // 2:
                        y -= m
                    out.append((y, y))
                return Scalar(self.fresh(("v",) + site, rng, S, D.norm(out)))
            return Scalar(self.fresh(("v",) + site, rng, S, full))
        if ck.startswith("PointerCoercion(Unsize"):
            return v
        if ck.startswith("PointerCoercion(ReifyFnPointer") or ck.startswith("PointerCoercion(ClosureFnPointer"):
            return FnPtr(v, rv["to"])
        if ck.startswith("PointerCoercion(MutToConstPointer") or ck in ("PtrToPtr", "Transmute") or ck.startswith("PointerCoercion"):
            if isinstance(v, (Ref, BoxU)):
                return v
            return Opaque(rv["to"])
        return Opaque(rv["to"])

    def cast_ordinal(self, inst, bi, si):
        """#n of this int-to-int cast among the casts of the function (block/statement order)."""
        cache = inst.setdefault("_castord", None)
        if cache is None:
            cache = {}
            n = 0
            for i, b in enumerate(inst["body"]["blocks"]):
                for j, st in enumerate(b["stmts"]):
                    if st["k"] == "assign" and st["rv"]["k"] == "cast" and st["rv"]["ck"] == "IntToInt":
                        cache[(i, j)] = "#%d" % n
                        n += 1
            inst["_castord"] = cache
        return cache.get((bi, si), "#?")

    def rvalue(self, S, frame, rv, site, dest_ty=None):
        k = rv["k"]
        if k == "use":
            return self.operand(S, frame, rv["op"], site)
        if k == "ref" or k == "rawptr":
            cell, path = self.resolve(S, frame, rv["place"], site)
            return Ref(cell, path, rv.get("bk") == "mut" or rv.get("pk") == "Mut")
        if k == "binop":
            return self.binop(S, frame, rv, site)
        if k == "unop":
            a = self.operand(S, frame, rv["a"], site + ("a",))
            op = rv["op"]
            if op == "PtrMetadata":
                tgt = a
                if isinstance(a, Ref):
                    tgt = self.read(S, a.cell, a.path, site + ("pm",)) if a.cell is not None else Opaque()
                return self.seq_len(S, tgt, site)
            s = self.sc(S, a)
            t = self.types[rv["ty"]]
            rng = self.int_range(t)
            if s is None or rng is None:
                return Opaque()
            if op == "Not":
                if rng == (0, 1):
                    n = self.fresh(("v",) + site, (0, 1), S)
                    bv = S.bool_value(s)
                    if D.is_point(bv):
                        S.iv[n] = D.point(1 - D.lo(bv))
                    S.notd[n] = s
                    return Scalar(n)
                return Scalar(self.fresh(("v",) + site, rng, S))
            if op == "Neg":
                ex = D.neg(S.ivof(s))
                full = D.rng(rng[0], rng[1])
                if D.subset(ex, full):
                    return Scalar(self.fresh(("v",) + site, rng, S, ex, S.term(s).scale(-1)))
                return Scalar(self.fresh(("v",) + site, rng, S, full))
            raise Unsupported("unop " + op)
        if k == "cast":
            return self.cast(S, frame, rv, site)
        if k == "discr":
            cell, path = self.resolve(S, frame, rv["place"], site)
            v = self.read(S, cell, path, site + ("dv",)) if cell is not None else Opaque()
            return self.discr_of(S, v, cell, path, site)
        if k == "aggregate":
            ops = [self.operand(S, frame, o, site + (i,)) for i, o in enumerate(rv["ops"])]
            ak = rv["ak"]
            if ak == "tuple":
                return Struct("tuple", ops)
            if ak == "array":
                if len(ops) <= 32:
                    return Arr(ops)
                ln = self.const_sym(len(ops), self.len_rng(), S)
                return Seq("array", ln, self.join_vals(S, ops, site), (), None, frozenset())
            if ak == "adt":
                adt = self.f.adt_by_path.get(rv["path"])
                is_enum = adt["kind"] == "enum" if adt else rv["path"] in ("core::option::Option", "core::result::Result", "core::ops::control_flow::ControlFlow", "core::cmp::Ordering")
                if not adt and not is_enum:
                    is_enum = self.extern_is_enum(rv["path"])
                if is_enum:
                    return Enum(rv["path"], {rv["variant"]: tuple(ops)})
                val = Struct(rv["path"], ops)
                for h in self.hooks:
                    h("literal", interp=self, path=rv["path"], value=val, state=S, site=site)
                return val
            if ak == "closure":
                return Struct("closure:%s@%s" % (rv["key"], rv.get("inst", "")), ops)
            return Opaque()
        if k == "repeat":
            v = self.operand(S, frame, rv["op"], site)
            n = rv["n"]
            if n is not None and n <= 32:
                return Arr([v] * n)
            ln = self.const_sym(n or 0, self.len_rng(), S)
            return Seq("array", ln, v, (), None, frozenset())
        if k == "thread_local_ref":
            return Opaque()
        return Opaque()

    def extern_is_enum(self, path):
        for t in self.types:
            if t.get("k") == "adt" and t.get("path") == path:
                return t.get("adt_kind") == "enum"
        return False

    def seq_len(self, S, v, site):
        if isinstance(v, Seq):
            return Scalar(v.len)
        if isinstance(v, Arr):
            return Scalar(self.const_sym(len(v.elems), self.len_rng(), S))
        return Scalar(self.fresh(("v",) + site + ("len",), self.len_rng(), S, D.rng(0, self.max_len())))

    # ------------------------------------------------------------------ discriminants
    def variant_discrs(self, path):
        adt = self.f.adt_by_path.get(path)
        if adt is not None:
            return {v["name"]: v["discr"] for v in adt["variants"]}
        if path == "core::cmp::Ordering":
            return dict(ORDERING)
        for t in self.types:
            if t.get("k") == "adt" and t.get("path") == path and "variants" in t:
                return {v["name"]: i for i, v in enumerate(t["variants"])}
        return None

    def discr_of(self, S, v, cell, path, site):
        if isinstance(v, Enum):
            ds = self.variant_discrs(v.path)
            if ds is not None:
                vals = [ds[n] for n in v.variants if n in ds]
                if vals:
                    s = self.fresh(("v",) + site, (min(ds.values()), max(ds.values())) if min(ds.values()) < 0 else (0, max(max(ds.values()), 1)), S, D.norm([(x, x) for x in vals]))
                    S.discr[s] = (cell, tuple(path), v, ds)
                    return Scalar(s)
        return Scalar(self.fresh(("v",) + site, (-(1 << 63), (1 << 63) - 1), S))

    def prune_variant(self, S, s, values):
        """After a switch on discriminant symbol s took an edge allowing `values`."""
        d = S.discr.get(s)
        if d is None:
            return
        cell, path, ev, ds = d
        if cell is None:
            return
        cur = self.read(S, cell, path, ("prune",))
        if cur is not ev and not (isinstance(cur, Enum) and cur.path == ev.path and cur.variants == ev.variants):
            return
        keep = {n: fs for n, fs in ev.variants.items() if ds.get(n) in values}
        if not keep:
            S.dead = True
            return
        if len(keep) == len(ev.variants):
            return
        new = Enum(ev.path, keep, {k: w for k, w in ev.when.items() if k in keep})
        if not any(pe[0] in ("idx", "ci", "elem") for pe in path):
            # (an element of a summarised sequence is not narrowed in place: the summary stands for all elements;
            # what is known about this one element lives in the symbols of the value that was read)
            self.write(S, cell, path, new, ("prune",))
        if len(keep) == 1:
            (n,) = keep
            w = ev.when.get(n)
            if w is not None:
                S.apply_delta(w)
        else:
            ws = [ev.when.get(n) for n in keep]
            if all(w is not None for w in ws):
                common = set(ws[0].iv)
                for w in ws[1:]:
                    common &= set(w.iv)
                for x in common:
                    if any(w.gen is not None and S.gen.get(x, 0) != w.gen.get(x, 0) for w in ws):
                        continue
                    j = ws[0].iv[x]
                    for w in ws[1:]:
                        j = D.join(j, w.iv[x])
                    S.refine(x, j)
                for f in ws[0].facts:
                    if all(f in w.facts for w in ws[1:]) and not any(w.gen is not None and S.gen.get(x, 0) != w.gen.get(x, 0) for w in ws for x in f.t):
                        S.add_fact(f)

    # ------------------------------------------------------------------ statements
    def statement(self, S, frame, st, site):
        k = st["k"]
        if k == "assign":
            v = self.rvalue(S, frame, st["rv"], site)
            self.write_place(S, frame, st["place"], v, site + ("w",))
            if self.hooks and frame[0] == "R" and st["place"]["l"] == 0 and not st["place"]["p"]:
                for h in self.hooks:
                    h("ret_assign", interp=self, value=v, state=S, frame=frame, site=site)
        elif k == "dead":
            if not (self.keep_root_locals and frame[0] == "R"):
                S.cells.pop((frame, st["l"]), None)
        elif k == "live":
            pass
        elif k == "set_discr":
            cell, path = self.resolve(S, frame, st["place"], site)
            cur = self.read(S, cell, path, site)
            if isinstance(cur, Enum) and st["variant"] in cur.variants:
                self.write(S, cell, path, Enum(cur.path, {st["variant"]: cur.variants[st["variant"]]}), site)
        elif k == "assume":
            v = self.operand(S, frame, st["op"], site)
            s = self.sc(S, v)
            if s is not None:
                S.assume_sym(s, D.point(1))

    # ------------------------------------------------------------------ function bodies
    def loop_heads(self, inst):
        lh = self.loops.get(inst["id"])
        if lh is not None:
            return lh
        blocks = inst["body"]["blocks"]
        heads = set()
        color = {}
        stack = [(0, iter(self.succs(blocks[0])))]
        color[0] = 1
        while stack:
            n, it = stack[-1]
            adv = False
            for s in it:
                c = color.get(s, 0)
                if c == 0:
                    color[s] = 1
                    stack.append((s, iter(self.succs(blocks[s]))))
                    adv = True
                    break
                if c == 1:
                    heads.add(s)
            if not adv:
                color[n] = 2
                stack.pop()
        self.loops[inst["id"]] = heads
        # thresholds: integer literals of the function + small neighbours
        th = set([0, 1, -1])

        def walk(x):
            if isinstance(x, dict):
                if "int" in x and isinstance(x["int"], int):
                    th.update((x["int"], x["int"] - 1, x["int"] + 1))
                for v in x.values():
                    walk(v)
            elif isinstance(x, list):
                for v in x:
                    walk(v)

        walk(blocks)
        for b in (8, 16, 32, 64, 128):
            th.update(((1 << b) - 1, (1 << (b - 1)) - 1, -(1 << (b - 1))))
        th.add(self.max_len())
        self.thresholds[inst["id"]] = sorted(th)
        return heads

    @staticmethod
    def succs(b):
        t = b["term"]
        k = t["k"]
        if k == "goto":
            return [t["t"]]
        if k == "switch":
            return [c[1] for c in t["cases"]] + [t["otherwise"]]
        if k in ("call", "assert", "drop"):
            return [t["t"]] if t.get("t") is not None else []
        return []

    def rpo_of(self, inst):
        r = inst.get("_rpo")
        if r is None:
            blocks = inst["body"]["blocks"]
            seen, post = set(), []
            stack = [(0, iter(self.succs(blocks[0])))]
            seen.add(0)
            while stack:
                n, it = stack[-1]
                adv = False
                for x in it:
                    if x not in seen:
                        seen.add(x)
                        stack.append((x, iter(self.succs(blocks[x]))))
                        adv = True
                        break
                if not adv:
                    post.append(n)
                    stack.pop()
            r = {b: i for i, b in enumerate(reversed(post))}
            inst["_rpo"] = r
        return r

    @staticmethod
    def descends(fr, frame, bi):
        """Is activation frame `fr` nested (at any depth) in the call made by block bi of `frame`?"""
        while isinstance(fr, tuple) and len(fr) > 2 and fr[0] == "F":
            if fr[1] == frame and fr[2] == bi:
                return True
            fr = fr[1]
        return False

    def show(self, S, v, depth=0):
        if isinstance(v, Scalar):
            return "s%d∈%s%s" % (v.sym, D.fmt(S.ivof(v.sym)), ("=" + repr(S.lin[v.sym])) if v.sym in S.lin else "")
        if isinstance(v, Struct):
            return "%s(%s)" % (v.path.rsplit("::", 1)[-1], ", ".join(self.show(S, f, depth + 1) for f in v.fields)) if depth < 3 else "…"
        if isinstance(v, Enum):
            return "{%s}" % " | ".join("%s(%s)%s" % (k, ", ".join(self.show(S, f, depth + 1) for f in fs) if depth < 3 else "…", ("?" + repr(v.when[k])) if k in v.when else "") for k, fs in v.variants.items())
        if isinstance(v, Seq):
            return "%s[len s%d∈%s; %s]" % (v.kind, v.len, D.fmt(S.ivof(v.len)), self.show(S, v.elem, depth + 1) if v.elem is not None else "-")
        if isinstance(v, Arr):
            return "[%s]" % ", ".join(self.show(S, e, depth + 1) for e in v.elems[:9])
        if isinstance(v, Ref):
            tgt = S.cells.get(v.cell) if v.cell is not None and not (isinstance(v.cell, tuple) and v.cell[0] == "multi") else None
            if depth < 2 and tgt is not None:
                return "&(%s)%s" % (self.show(S, tgt, depth + 1), "".join("." + str(p[1]) if len(p) > 1 else "." + p[0] for p in v.path))
            return repr(v)[:60]
        return repr(v)[:50]

    def dump(self, inst, frame, bi, S):
        print("== %s bb%d  (facts: %s)" % (inst["name"], bi, ", ".join(repr(f) for f in list(S.facts)[:14])))
        for n, l in enumerate(inst["body"]["locals"]):
            v = S.cells.get((frame, n))
            if v is not None:
                print("   _%d%s = %s" % (n, (" " + l["name"]) if "name" in l else "", self.show(S, v)))

    def loop_body(self, inst, h):
        """Blocks of the natural loop(s) headed by h: reachable from h and reaching h."""
        cache = inst.setdefault("_loops", {})
        if h in cache:
            return cache[h]
        blocks = inst["body"]["blocks"]
        fwd, st = set(), [h]
        while st:
            x = st.pop()
            if x in fwd:
                continue
            fwd.add(x)
            st.extend(self.succs(blocks[x]))
        preds = self.preds_of(inst)
        back, st = set(), [h]
        while st:
            x = st.pop()
            if x in back:
                continue
            back.add(x)
            st.extend(p for p in preds.get(x, []) if p in fwd)
        cache[h] = fwd & back
        return cache[h]

    @staticmethod
    def sym_origin(key):
        """(frame, block) where a symbol is defined, from its deterministic key."""
        def frame_like(x):
            return isinstance(x, tuple) and x and x[0] in ("R", "F")
        stack = [key]
        while stack:
            k = stack.pop(0)
            if not isinstance(k, tuple):
                continue
            for i, e in enumerate(k):
                if frame_like(e) and i + 1 < len(k) and isinstance(k[i + 1], int) and not isinstance(k[i + 1], bool):
                    return e, k[i + 1]
            stack.extend(e for e in k if isinstance(e, tuple) and not frame_like(e))
            stack.extend(e for e in k if frame_like(e) and False)
        return None

    def defined_in_loop(self, s, frame, body):
        o = self.sym_origin(self.st.keys[s])
        if o is None:
            return False
        fr, bi = o
        if fr == frame:
            return bi in body
        while isinstance(fr, tuple) and len(fr) > 2 and fr[0] == "F":
            if fr[1] == frame:
                return fr[2] in body
            fr = fr[1]
        return False

    def scrub_loop_deltas(self, S, inst, frame, h):
        """At a loop head: conditional deltas stored in values must not talk about symbols that the
        loop body is going to redefine (they would describe the previous iteration)."""
        body = self.loop_body(inst, h)
        memo = {}

        def bad(s):
            r = memo.get(s)
            if r is None:
                r = memo[s] = self.defined_in_loop(s, frame, body)
            return r

        def clean(d):
            if not d.iv and not d.facts:
                return d
            iv = {s: v for s, v in d.iv.items() if not bad(s)}
            facts = tuple(f for f in d.facts if not any(bad(x) for x in f.t))
            if len(iv) == len(d.iv) and len(facts) == len(d.facts):
                return d
            return Delta(iv, facts, d.gen, d.ef)

        def walk(v, depth=0):
            if isinstance(v, Enum):
                nw = {k: clean(d) for k, d in v.when.items()} if v.when else v.when
                nv = {k: tuple(walk(f, depth + 1) for f in fs) for k, fs in v.variants.items()} if depth < 6 else v.variants
                if nw is v.when or all(nw[k] is v.when[k] for k in nw):
                    if all(all(a is b for a, b in zip(nv[k], v.variants[k])) for k in nv):
                        return v
                return Enum(v.path, nv, nw)
            if isinstance(v, Struct) and depth < 6:
                fs = [walk(f, depth + 1) for f in v.fields]
                if all(a is b for a, b in zip(fs, v.fields)):
                    return v
                return Struct(v.path, fs)
            if isinstance(v, Arr) and depth < 6:
                es = [walk(e, depth + 1) for e in v.elems]
                if all(a is b for a, b in zip(es, v.elems)):
                    return v
                return Arr(es)
            if isinstance(v, Seq) and v.elem is not None and depth < 6:
                e = walk(v.elem, depth + 1)
                if e is v.elem:
                    return v
                return Seq(v.kind, v.len, e, v.efacts, v.data, v.prov)
            return v

        for c, v in list(S.cells.items()):
            nv = walk(v)
            if nv is not v:
                S.cells[c] = nv
        for s, w in list(S.when.items()):
            nw = {k: clean(d) for k, d in w.items()}
            if any(nw[k] is not w[k] for k in w):
                S.when[s] = nw

    def loop_check(self, inst, frame, heads, inputs, edges):
        """LOOP rule (DESIGN §3.9): every CFG cycle is bounded by (a) a `next` on an iterator that is
        finite by construction, executed on every iteration, or (b) an integer measure hi - lo that is
        non-negative and strictly decreases on every back edge."""
        preds = self.preds_of(inst)
        dom = self.dominators(inst)
        for n, h in enumerate(sorted(heads)):
            if h not in inputs:
                continue
            body = self.loop_body(inst, h)
            back = [p for p in preds.get(h, []) if p in body and (p, h) in edges and not edges[(p, h)].dead]
            if not back:
                continue
            why = None
            # (a) iterator-driven
            for (fr, bi), finite in self.iter_sites.items():
                if fr == frame and bi in body and finite and all(bi in dom.get(p, ()) for p in back):
                    why = "iterator next() in bb%d on a finite iterator" % bi
                    break
            # (a') a local holding a slice whose length strictly decreases on every back edge (lengths are >= 0)
            if why is None:
                J = inputs[h]
                for cell, v in J.cells.items():
                    if not (isinstance(cell, tuple) and len(cell) == 2 and cell[0] == frame and isinstance(v, Ref) and v.cell is not None):
                        continue
                    qh = self.read(J, v.cell, v.path, ("loopq",))
                    if not isinstance(qh, Seq):
                        continue
                    dec = True
                    for p in back:
                        B = edges[(p, h)]
                        bv = B.cells.get(cell)
                        qb = self.read(B, bv.cell, bv.path, ("loopqb",)) if isinstance(bv, Ref) and bv.cell is not None else None
                        if not (isinstance(qb, Seq) and B.entails(B.term(qb.len).sub(B.term(qh.len)).addc(1))):
                            dec = False
                            break
                    if dec:
                        why = "the slice held in _%s gets shorter on every back edge" % (cell[1],)
                        break
            # (b) decreasing measure between two head symbols / a head symbol and an invariant symbol
            if why is None:
                J = inputs[h]
                phis = []
                for cell, v in J.cells.items():
                    if isinstance(cell, tuple) and len(cell) == 2 and cell[0] == frame and isinstance(v, Scalar):
                        key = self.st.keys[v.sym]
                        if isinstance(key, tuple) and key[0] == "phi" and key[1] == (frame, h) and self.st.range(v.sym) != (0, 1):
                            phis.append((cell, v.sym))
                cands = []
                for c1, p1 in phis:
                    for c2, p2 in phis:
                        if p1 != p2:
                            cands.append(((c1, p1), (c2, p2)))
                    # against loop-invariant symbols related by a fact
                    for f in J.facts:
                        if p1 in f.t:
                            for x in f.t:
                                if x != p1 and not self.defined_in_loop(x, frame, body) and self.st.range(x) != (0, 1):
                                    cands.append(((c1, p1), (None, x)))
                                    cands.append(((None, x), (c1, p1)))  # a counter going down to a fixed lower end
                # bounded counter: p' = p + c (c >= 1) on every back edge and p' has a finite upper bound
                for c1, p1 in phis:
                    okc = True
                    bound = None
                    for p in back:
                        B = edges[(p, h)]
                        nv_ = B.cells.get(c1)
                        l_ = B.lin.get(nv_.sym) if isinstance(nv_, Scalar) else None
                        if l_ is None or set(l_.t) != {p1} or l_.t[p1] != 1 or l_.c < 1:
                            okc = False
                            break
                        hi_b = D.hi(B.ivof(nv_.sym))
                        if hi_b >= (1 << 40):
                            okc = False
                            break
                        bound = hi_b if bound is None else max(bound, hi_b)
                    if okc:
                        why = "counter s%d increases on every back edge and stays <= %d" % (p1, bound)
                        break
                if why is not None:
                    cands = []
                for (clo, lo_), (chi, hi_) in cands:
                    ok = True
                    for p in self.measure_edges(inst, h, body, back, edges, [c for c in (clo, chi) if c is not None]):
                        B = edges[p]
                        if B.dead:
                            continue
                        nlo = B.cells.get(clo) if clo is not None else None
                        nhi = B.cells.get(chi) if chi is not None else None
                        tlo = B.term(nlo.sym) if isinstance(nlo, Scalar) else (B.term(lo_) if clo is None else None)
                        thi = B.term(nhi.sym) if isinstance(nhi, Scalar) else (B.term(hi_) if chi is None else None)
                        if tlo is None or thi is None:
                            ok = False
                            break
                        m_new = thi.sub(tlo)
                        m_old = B.term(hi_).sub(B.term(lo_)) if chi is not None else B.term(hi_).sub(Lin.var(lo_))
                        m_old = Lin.var(hi_).sub(Lin.var(lo_))
                        # decreasing by at least one and still non-negative
                        if not (B.entails(m_new.sub(m_old).addc(1)) and B.entails(m_new.scale(-1))):
                            ok = False
                            break
                    if ok:
                        why = "measure s%d - s%d decreases on every back edge and stays >= 0" % (hi_, lo_)
                        break
            key = (inst["name"], "#%d" % n)
            prev = self.loop_reports.get(key)
            if prev is None or (prev[0] and why is None):
                self.loop_reports[key] = (why is not None, why or "no finite iterator and no decreasing measure found", inst["body"]["blocks"][h]["term"].get("span"))

    def measure_edges(self, inst, h, body, back, edges, cells):
        """Edges on which to test a loop measure: the back edges, or — when a back-edge source is
        reached through a chain of blocks that do not assign the measured locals — the edges
        entering the last merge block before it (so the test is path-wise, before the join)."""
        preds = self.preds_of(inst)
        blocks = inst["body"]["blocks"]
        locs = {c[1] for c in cells}

        def assigns(bi):
            for st in blocks[bi]["stmts"]:
                if st["k"] == "assign" and st["place"]["l"] in locs and not st["place"]["p"]:
                    return True
            t = blocks[bi]["term"]
            return t["k"] == "call" and t["dest"]["l"] in locs and not t["dest"]["p"]

        out = []
        for p in back:
            cur = p
            hops = 0
            while hops < 6 and not assigns(cur):
                ps = [q for q in preds.get(cur, []) if (q, cur) in edges]
                if len(ps) == 1 and ps[0] in body and ps[0] != h:
                    cur = ps[0]
                    hops += 1
                    continue
                if len(ps) > 1 and all(q in body for q in ps) and cur != h:
                    out.extend((q, cur) for q in ps)
                    cur = None
                break
            if cur is not None:
                out.append((p, h))
        return out

    def dominators(self, inst):
        d = inst.get("_dom")
        if d is not None:
            return d
        blocks = inst["body"]["blocks"]
        preds = self.preds_of(inst)
        rpo = self.rpo_of(inst)
        order = sorted(rpo, key=lambda b: rpo[b])
        allb = set(order)
        dom = {b: set(allb) for b in order}
        dom[0] = {0}
        changed = True
        while changed:
            changed = False
            for b in order:
                if b == 0:
                    continue
                ps = [p for p in preds.get(b, []) if p in dom]
                if not ps:
                    continue
                new = set.intersection(*[dom[p] for p in ps]) | {b}
                if new != dom[b]:
                    dom[b] = new
                    changed = True
        inst["_dom"] = dom
        return dom

    def forall_rule(self, inst, frame, h, inputs, edges):
        """Validation-loop rule (DESIGN §3.6): for a counting loop `i = 0; while i < len(A) { ..A[i].. ; i += 1 }`
        facts about the element read at index i that hold on every back edge are generalised to every
        element of A on the exit edge where i >= len(A).  Returns the list of exit targets to re-process."""
        body = self.loop_body(inst, h)
        J = inputs.get(h)
        if J is None:
            return []
        preds = self.preds_of(inst)
        back = [p for p in preds.get(h, []) if p in body and (p, h) in edges and not edges[(p, h)].dead]
        entry = [p for p in (["entry"] if h == 0 else []) + preds.get(h, []) if p not in body and (p, h) in edges]
        if not back or not entry:
            return []
        dom = self.dominators(inst)
        requeue = []
        for cell, v in list(J.cells.items()):
            if not (isinstance(cell, tuple) and len(cell) == 2 and cell[0] == frame and isinstance(v, Scalar)):
                continue
            i = v.sym
            key = self.st.keys[i]
            if not (isinstance(key, tuple) and key[0] == "phi" and key[1] == (frame, h)):
                continue
            # i starts at 0 and is incremented by exactly 1 on every back edge
            ok = True
            for p in entry:
                ev = edges[(p, h)].cells.get(cell)
                if not (isinstance(ev, Scalar) and edges[(p, h)].ivof(ev.sym) == D.point(0)):
                    ok = False
            for p in back:
                B = edges[(p, h)]
                bv = B.cells.get(cell)
                if not (isinstance(bv, Scalar) and B.lin.get(bv.sym) == Lin({i: 1}, 1)):
                    ok = False
            if not ok:
                continue
            # element symbols read at index i
            per_seq = {}
            for e, (ln, idx, blk, fpath) in self.elem_of.items():
                if idx != i or blk not in body:
                    continue
                if self.defined_in_loop(ln, frame, body):
                    continue
                if not all(blk in dom.get(p, ()) for p in back):
                    continue
                per_seq.setdefault(ln, []).append((e, fpath))
            for ln, elems in per_seq.items():
                templates = None
                for p in back:
                    B = edges[(p, h)]
                    cur = set()
                    for e, fpath in elems:
                        if e not in B.iv:
                            continue
                        for f in B.facts:
                            if e not in f.t:
                                continue
                            others = [x for x in f.t if x != e]
                            if any(x in self.elem_of for x in others):
                                continue
                            if any(self.defined_in_loop(x, frame, body) for x in others):
                                continue
                            cur.add((fpath, f.rename({e: ("ELEM",)})))
                        iv = B.ivof(e)
                        r = self.st.range(e)
                        if iv and D.lo(iv) > r[0]:
                            cur.add((fpath, Lin({("ELEM",): -1}, D.lo(iv))))
                        if iv and D.hi(iv) < r[1]:
                            cur.add((fpath, Lin({("ELEM",): 1}, -D.hi(iv))))
                    templates = cur if templates is None else self._weaken_templates(templates, cur)
                if not templates:
                    continue
                # exit edges on which i >= len(A)
                for b in body:
                    for tgt in self.succs(inst["body"]["blocks"][b]):
                        if tgt in body or (b, tgt) not in edges:
                            continue
                        U = edges[(b, tgt)]
                        if U.dead or not U.entails(U.term(ln).sub(U.term(i))):
                            continue
                        U = U.copy()  # the edge state may be aliased by the target's stored input
                        edges[(b, tgt)] = U
                        if self._attach_efacts(U, ln, templates):
                            self.forall_established.append({"function": inst["name"], "loop_head": h, "facts": sorted("%s: %r <= 0" % (fp, l) for fp, l in templates)})
                            if tgt not in requeue:
                                requeue.append(tgt)
        return requeue

    def record_loop_reads(self, inst, frame, h, inputs, edges):
        """Side table for coverage rules: for a counting loop (counter starts at a constant c0, +1 per back edge)
        the offsets d of the element reads `seq[i + d]` made in its body, per sequence."""
        body = self.loop_body(inst, h)
        J = inputs.get(h)
        if J is None:
            return
        preds = self.preds_of(inst)
        back = [p for p in preds.get(h, []) if p in body and (p, h) in edges and not edges[(p, h)].dead]
        entry = [p for p in (["entry"] if h == 0 else []) + preds.get(h, []) if p not in body and (p, h) in edges and not edges[(p, h)].dead]
        if not back or not entry:
            return
        for cell, v in list(J.cells.items()):
            if not (isinstance(cell, tuple) and len(cell) == 2 and cell[0] == frame and isinstance(v, Scalar)):
                continue
            i = v.sym
            key = self.st.keys[i]
            if not (isinstance(key, tuple) and key[0] == "phi" and key[1] == (frame, h)):
                continue
            c0s = set()
            for p in entry:
                ev = edges[(p, h)].cells.get(cell)
                iv = edges[(p, h)].ivof(ev.sym) if isinstance(ev, Scalar) else None
                c0s.add(D.lo(iv) if iv is not None and D.is_point(iv) else None)
            if len(c0s) != 1 or None in c0s:
                continue
            if not all(isinstance(edges[(p, h)].cells.get(cell), Scalar) and edges[(p, h)].lin.get(edges[(p, h)].cells[cell].sym) == Lin({i: 1}, 1) for p in back):
                continue
            per_seq = {}
            for e, info in self.elem_of.items():
                ln, idx, blk, fpath = info
                if blk not in body or isinstance(idx, tuple):
                    continue
                t = self.elem_idx_term.get(e)
                if t is not None and set(t.t) == {i} and t.t[i] == 1:
                    per_seq.setdefault(ln, set()).add(t.c)
            for ln, offs in per_seq.items():
                rec = {"function": inst["name"], "loop_head": h, "len_sym": ln, "start": c0s.copy().pop(), "offsets": sorted(offs)}
                if rec not in self.loop_reads:
                    self.loop_reads.append(rec)

    def forall_shrink_rule(self, inst, frame, h, inputs, edges):
        """Validation loop over a shrinking slice: `while let [x, rest @ ..] = cur { ..x..; cur = rest }`.
        A local holds a reference to a slice; on every back edge it holds the tail `[1..]` of what it held at the
        head; the body reads element 0 of the head's slice. Facts about that element that hold on every back edge
        hold for every element of the slice the loop started with, on the exit edge where the rest is empty."""
        body = self.loop_body(inst, h)
        J = inputs.get(h)
        if J is None:
            return []
        preds = self.preds_of(inst)
        back = [p for p in preds.get(h, []) if p in body and (p, h) in edges and not edges[(p, h)].dead]
        entry = [p for p in (["entry"] if h == 0 else []) + preds.get(h, []) if p not in body and (p, h) in edges and not edges[(p, h)].dead]
        if not back or not entry:
            return []
        dom = self.dominators(inst)
        requeue = []
        for cell, v in list(J.cells.items()):
            if not (isinstance(cell, tuple) and len(cell) == 2 and cell[0] == frame and isinstance(v, Ref) and v.cell is not None):
                continue
            qh = self.read(J, v.cell, v.path, ("shrink",))
            if not isinstance(qh, Seq) or qh.elem is None:
                continue
            # back edges: the local holds exactly the tail [1..] of the head's slice
            ok = True
            for p in back:
                bv = edges[(p, h)].cells.get(cell)
                if not (isinstance(bv, Ref) and bv.cell == v.cell and tuple(bv.path) == tuple(v.path) + (("sub", 1, 0, True),)):
                    ok = False
            if not ok:
                continue
            # entry edges: the slice the loop starts with (same element summary)
            lens = set()
            for p in entry:
                E = edges[(p, h)]
                ev = E.cells.get(cell)
                qe = self.read(E, ev.cell, ev.path, ("shrinke",)) if isinstance(ev, Ref) and ev.cell is not None else None
                if not (isinstance(qe, Seq) and qe.elem is qh.elem):
                    ok = False
                    break
                lens.add(qe.len)
            if not ok or len(lens) != 1:
                continue
            (l0,) = lens
            # element symbols read at constant index 0 of the head's slice, in blocks dominating every back edge
            elems = []
            for e, info in self.elem_of.items():
                ln, idx, blk, fpath = info
                if ln != qh.len or idx != ("ci", 0) or blk not in body:
                    continue
                if not all(blk in dom.get(p, ()) for p in back):
                    continue
                elems.append((e, fpath))
            if not elems:
                continue
            templates = None
            for p in back:
                B = edges[(p, h)]
                cur = set()
                for e, fpath in elems:
                    if e not in B.iv:
                        continue
                    for f in B.facts:
                        if e not in f.t:
                            continue
                        others = [x for x in f.t if x != e]
                        if any(x in self.elem_of for x in others):
                            continue
                        if any(self.defined_in_loop(x, frame, body) for x in others):
                            continue
                        cur.add((fpath, f.rename({e: ("ELEM",)})))
                    iv = B.ivof(e)
                    r = self.st.range(e)
                    if iv and D.lo(iv) > r[0]:
                        cur.add((fpath, Lin({("ELEM",): -1}, D.lo(iv))))
                    if iv and D.hi(iv) < r[1]:
                        cur.add((fpath, Lin({("ELEM",): 1}, -D.hi(iv))))
                templates = cur if templates is None else self._weaken_templates(templates, cur)
            if not templates:
                continue
            for b in body:
                for tgt in self.succs(inst["body"]["blocks"][b]):
                    if tgt in body or (b, tgt) not in edges:
                        continue
                    U = edges[(b, tgt)]
                    # exits on which the rest is empty (every element has been the head once)
                    if U.dead or not U.entails(U.term(qh.len)):
                        continue
                    U = U.copy()
                    edges[(b, tgt)] = U
                    if self._attach_efacts(U, l0, templates):
                        self.forall_established.append({"function": inst["name"], "loop_head": h, "facts": sorted("%s: %r <= 0" % (fp, l) for fp, l in templates), "form": "shrinking slice"})
                        if tgt not in requeue:
                            requeue.append(tgt)
        return requeue

    @staticmethod
    def _weaken_templates(a, b):
        """Templates that hold on both back edges (bound templates are weakened to the looser bound)."""
        out = set()
        for fp, l in a:
            if (fp, l) in b:
                out.add((fp, l))
                continue
            if len(l.t) == 1:  # ELEM bound: k*ELEM + c <= 0
                for fp2, l2 in b:
                    if fp2 == fp and l2.t == l.t:
                        out.add((fp, l if l.c >= l2.c else l2))
        return out

    def _attach_efacts(self, U, ln, templates):
        return U.attach_efacts(ln, templates)

    def preds_of(self, inst):
        pm = inst.get("_preds")
        if pm is None:
            pm = {}
            for i, b in enumerate(inst["body"]["blocks"]):
                if b.get("cleanup"):
                    continue
                for t in self.succs(b):
                    pm.setdefault(t, [])
                    if i not in pm[t]:
                        pm[t].append(i)
            inst["_preds"] = pm
        return pm

    def run_body(self, inst, S, frame):
        """Analyse one activation.  Returns the state at the return block (joined) or None.
        Edge states are kept per CFG edge; a block's input is the join of its incoming edges."""
        body = inst["body"]
        blocks = body["blocks"]
        heads = self.loop_heads(inst)
        thresholds = self.thresholds[inst["id"]]
        preds = self.preds_of(inst)
        edges = {("entry", 0): S}
        inputs = {}
        visits = {}
        work = [0]
        rets = {}
        rpo = self.rpo_of(inst)
        widened = set()
        narrowing = False
        forall_done = False
        nvis = {}
        while True:
          while work:
            work.sort(key=lambda x: rpo.get(x, 1 << 30))
            bi = work.pop(0)
            # input = join of incoming edge states
            srcs = (["entry"] if bi == 0 else []) + preds.get(bi, [])
            sts = [edges[(p, bi)] for p in srcs if (p, bi) in edges and not edges[(p, bi)].dead]
            if not sts:
                continue
            nv = visits.get(bi, 0)
            J = sts[0]
            for X in sts[1:]:
                J = join(J, X, (frame, bi), first=(nv <= 1))
            def scrub(J):
                if bi in heads and len(sts) > 1:
                    if any(J is x for x in sts) or J is inputs.get(bi):
                        J = J.copy()
                    self.scrub_loop_deltas(J, inst, frame, bi)
                return J

            J = scrub(J)
            old = inputs.get(bi)
            if old is not None:
                if narrowing:
                    if bi in heads and forall_done:
                        # final re-propagation: keep the stable head state; sequences that the loop
                        # does not modify take the (new) element facts of the entry edges
                        Jn = old.copy()
                        body_ = self.loop_body(inst, bi)
                        ent = [edges[(p_, bi)] for p_ in srcs if (p_, bi) in edges and p_ not in body_ and not edges[(p_, bi)].dead]
                        bks = [edges[(p_, bi)] for p_ in srcs if (p_, bi) in edges and p_ in body_ and not edges[(p_, bi)].dead]
                        def carry(v_, bvs, evs, depth=0):
                            """v_ with the element facts that all entry edges have and no back edge contradicts
                            (the loop leaves the sequence as it is: same length symbol, same element summary)."""
                            if isinstance(v_, Seq):
                                if not all(isinstance(b_, Seq) and b_.len == v_.len and b_.elem is v_.elem for b_ in bvs):
                                    return v_
                                if not evs or not all(isinstance(e_, Seq) and e_.len == v_.len and e_.elem is v_.elem for e_ in evs):
                                    return v_
                                ef = [t_ for t_ in evs[0].efacts if all(t_ in e_.efacts for e_ in evs[1:])]
                                new_ = tuple(t_ for t_ in ef if t_ not in v_.efacts)
                                return Seq(v_.kind, v_.len, v_.elem, v_.efacts + new_, v_.data, v_.prov) if new_ else v_
                            if depth > 4:
                                return v_
                            if isinstance(v_, Struct):
                                if not all(isinstance(x, Struct) and len(x.fields) == len(v_.fields) for x in bvs + evs):
                                    return v_
                                fs = [carry(f_, [b_.fields[i_] for b_ in bvs], [e_.fields[i_] for e_ in evs], depth + 1) for i_, f_ in enumerate(v_.fields)]
                                return v_ if all(a_ is b_ for a_, b_ in zip(fs, v_.fields)) else Struct(v_.path, fs)
                            return v_

                        if ent:
                            for c_, v_ in old.cells.items():
                                if not isinstance(v_, (Seq, Struct)):
                                    continue
                                nv_ = carry(v_, [B_.cells.get(c_) for B_ in bks], [E_.cells.get(c_) for E_ in ent])
                                if nv_ is not v_:
                                    Jn.cells[c_] = nv_
                        J = Jn
                    elif bi in heads:
                        nvis[bi] = nvis.get(bi, 0) + 1
                        if nvis[bi] > 2:
                            continue
                        # narrow intervals only: both `old` and the recomputed join over-approximate
                        # the states at this head, so their interval-wise meet does too
                        Jn = old.copy()
                        for s_, iv_ in old.iv.items():
                            nw = J.iv.get(s_)
                            if nw is not None and nw != iv_:
                                m_ = D.meet(iv_, nw)
                                if m_:
                                    Jn.iv[s_] = m_
                        J = Jn
                elif bi in heads and nv >= 3:
                    th = thresholds if (nv < 7 or os.environ.get('NO_BIG')) else None
                    J = scrub(join(old, J, (frame, bi), widen=(old, th), first=False))
                    widened.add(bi)
                if self.same_state(J, old):
                    continue
            inputs[bi] = J
            visits[bi] = nv + 1
            if visits[bi] > MAX_VISITS:
                raise Unsupported("no convergence in %s bb%d" % (inst["name"], bi))
            T = J.copy()
            b = blocks[bi]
            self.cur_inst = inst
            self.cur_frame = frame
            # verdicts recorded by earlier visits of this block (and of activations nested in it) are superseded
            if nv:
                self.forget_block(frame, bi)
            if self.trace and self.trace in inst["name"]:
                self.dump(inst, frame, bi, J)
            for si, st in enumerate(b["stmts"]):
                self.statement(T, frame, st, (frame, bi, si))
                if T.dead:
                    break
            outs = [] if T.dead else self.terminator(T, frame, inst, bi, b["term"])
            self.cur_inst = inst
            self.cur_frame = frame
            seen_t = set()
            for tgt, U in outs:
                if tgt == "return":
                    rets[bi] = join(rets[bi], U, (frame, "ret", bi)) if ("return" in seen_t and bi in rets) else U
                    seen_t.add(tgt)
                    continue
                if tgt in seen_t:
                    U = join(edges[(bi, tgt)], U, (frame, "edge", bi, tgt))
                seen_t.add(tgt)
                edges[(bi, tgt)] = U
                if tgt not in work:
                    work.append(tgt)
            # edges that were produced before but not this time are now infeasible
            for t2 in self.succs(b):
                if t2 not in seen_t and (bi, t2) in edges:
                    del edges[(bi, t2)]
                    if t2 not in work:
                        work.append(t2)
            if "return" not in seen_t and bi in rets:
                del rets[bi]
          if narrowing or not widened or os.environ.get('NO_NARROW'):
            # last phase: validation-loop rule on the final loop states, then re-propagate from the exits
            if not forall_done and heads:
                forall_done = True
                narrowing = True  # no further widening; heads re-visited at most twice more
                for h_ in sorted(heads):
                    work.extend(t_ for t_ in self.forall_rule(inst, frame, h_, inputs, edges) if t_ not in work)
                    work.extend(t_ for t_ in self.forall_shrink_rule(inst, frame, h_, inputs, edges) if t_ not in work)
                    self.record_loop_reads(inst, frame, h_, inputs, edges)
                if work:
                    continue
            break
          # decreasing iterations from the post-fixpoint: recompute widened loop heads without widening
          narrowing = True
          work = sorted(widened)
        if heads:
            self.loop_check(inst, frame, heads, inputs, edges)
        ret_state = None
        for bi in sorted(rets):
            U = rets[bi]
            if U.dead:
                continue
            ret_state = U if ret_state is None else join(ret_state, U, (frame, "ret"))
        return ret_state

    def same_state(self, A, B):
        if A.facts != B.facts or A.iv != B.iv or A.lin != B.lin:
            return False
        if A.cells.keys() != B.cells.keys():
            return False
        for c, v in A.cells.items():
            w = B.cells[c]
            if v is not w and not self.same_val(v, w):
                return False
        return True

    def same_val(self, a, b):
        if a is b:
            return True
        if type(a) is not type(b):
            return False
        if isinstance(a, Scalar):
            return a.sym == b.sym
        if isinstance(a, Struct):
            return a.path == b.path and len(a.fields) == len(b.fields) and all(self.same_val(x, y) for x, y in zip(a.fields, b.fields))
        if isinstance(a, Enum):
            if a.path != b.path or a.variants.keys() != b.variants.keys():
                return False
            if set(a.when) != set(b.when):
                return False
            for k in a.when:
                if a.when[k].iv != b.when[k].iv or a.when[k].facts != b.when[k].facts or a.when[k].ef != b.when[k].ef:
                    return False
            return all(all(self.same_val(x, y) for x, y in zip(a.variants[k], b.variants[k])) for k in a.variants)
        if isinstance(a, Arr):
            return len(a.elems) == len(b.elems) and all(self.same_val(x, y) for x, y in zip(a.elems, b.elems))
        if isinstance(a, Seq):
            return a.kind == b.kind and a.len == b.len and a.efacts == b.efacts and a.data == b.data and ((a.elem is None and b.elem is None) or (a.elem is not None and b.elem is not None and self.same_val(a.elem, b.elem)))
        if isinstance(a, Ref):
            return a.cell == b.cell and a.path == b.path
        if isinstance(a, Fn):
            return a.desc.get("def") == b.desc.get("def")
        if isinstance(a, FnPtr):
            return (a.target is b.target) or (isinstance(a.target, Val) and isinstance(b.target, Val) and self.same_val(a.target, b.target))
        if isinstance(a, Iter):
            def eq(x, y):
                if isinstance(x, Val) and isinstance(y, Val):
                    return self.same_val(x, y)
                return x == y
            return a.kind == b.kind and eq(a.a, b.a) and eq(a.b, b.b) and eq(a.n, b.n)
        if isinstance(a, BoxU):
            return a.cell == b.cell
        return True

    # ------------------------------------------------------------------ terminators
    def terminator(self, S, frame, inst, bi, t):
        k = t["k"]
        site = (frame, bi, "t")
        if k == "goto":
            return [(t["t"], S)]
        if k == "return":
            return [("return", S)]
        if k == "unreachable":
            return []
        if k == "drop":
            return [(t["t"], S)]
        if k == "switch":
            return self.switch(S, frame, t, site)
        if k == "assert":
            return self.assert_(S, frame, inst, bi, t, site)
        if k == "call":
            return self.call(S, frame, inst, bi, t, site)
        if k in ("resume", "terminate"):
            return []
        raise Unsupported("terminator " + k)

    def switch(self, S, frame, t, site):
        v = self.operand(S, frame, t["op"], site)
        s = self.sc(S, v)
        outs = []
        if s is None:
            for c in t["cases"]:
                outs.append((c[1], S.copy()))
            outs.append((t["otherwise"], S))
            return outs
        rng = self.st.range(s)
        isbool = rng == (0, 1)
        cur = S.bool_value(s) if isbool else S.ivof(s)
        taken = []
        for val, tgt in t["cases"]:
            taken.append(val)
            if not D.contains(cur, val):
                continue
            T = S.copy()
            T.assume_sym(s, D.point(val))
            if not T.dead:
                self.prune_variant(T, s, {val})
            if not T.dead:
                outs.append((tgt, T))
        rest = cur
        for val in taken:
            rest = D.remove_point(rest, val)
        if rest:
            T = S
            T.assume_sym(s, rest)
            if not T.dead:
                self.prune_variant(T, s, set(D.values(rest, 64) or []) or None) if D.size(rest) <= 64 else None
            if not T.dead:
                outs.append((t["otherwise"], T))
        return outs

    def assert_(self, S, frame, inst, bi, t, site):
        v = self.operand(S, frame, t["cond"], site)
        s = self.sc(S, v)
        exp = 1 if t["expected"] else 0
        m = t["msg"]
        kind = "ASSERT:" + m["k"] + ((":" + m["op"]) if "op" in m else "")
        # site identity without block numbers: ordinal of this assert kind within the function
        detail = self.site_ordinal(inst, bi, kind)
        ok = False
        if s is not None:
            bv = S.bool_value(s)
            ok = D.is_point(bv) and D.lo(bv) == exp
        extra = None
        if not ok:
            extra = self.describe_assert(S, frame, t, s)
        self.oblige(kind, inst, bi, detail, ok, S, t.get("span"), extra)
        if s is not None:
            S.assume_sym(s, D.point(exp))
        return [(t["t"], S)] if not S.dead else []

    def describe_assert(self, S, frame, t, s):
        out = {}
        m = t["msg"]
        for name in ("a", "b", "len", "index"):
            if name in m:
                try:
                    v = self.operand(S.copy(), frame, m[name], ("dbg", name))
                    if isinstance(v, Scalar):
                        out[name] = D.fmt(S.ivof(v.sym)) + ((" = " + repr(S.lin[v.sym])) if v.sym in S.lin else "")
                except Exception as e:  # pragma: no cover
                    out[name] = "?"
        if s is not None and s in S.cmpd:
            c = S.cmpd[s]
            out["cond"] = "%s(%r, %r)" % c
        out["facts"] = [repr(f) + " <= 0" for f in list(S.facts)[:12]]
        return out

    def site_ordinal(self, inst, bi, kind):
        """n-th terminator of this kind in block order — stable under edits elsewhere in the crate."""
        cache = inst.setdefault("_ord", {})
        key = (bi, kind)
        if key in cache:
            return cache[key]
        n = 0
        for i, b in enumerate(inst["body"]["blocks"]):
            t = b["term"]
            kk = None
            if t["k"] == "assert":
                m = t["msg"]
                kk = "ASSERT:" + m["k"] + ((":" + m["op"]) if "op" in m else "")
            elif t["k"] == "call":
                kk = "CALL:" + self.callee_name(t)
            if kk == kind:
                cache[(i, kind)] = "#%d" % n
                n += 1
        return cache.get(key, "#?")

    @staticmethod
    def callee_name(t):
        f = t["f"]
        if f["k"] == "item":
            r = f["resolved"] or f["declared"]
            return r["def"]
        return f["k"]

    # ------------------------------------------------------------------ calls
    def call(self, S, frame, inst, bi, t, site):
        f = t["f"]
        args = [self.operand(S, frame, a, site + ("arg", i)) for i, a in enumerate(t["args"])]
        dest_ty = None
        if f["k"] == "ptr":
            fp = self.operand(S, frame, f["op"], site + ("fp",))
            ret = self.call_value(S, frame, inst, bi, t, fp, args, site)
        elif f["k"] == "item":
            r = f["resolved"] or f["declared"]
            ret = self.call_desc(S, frame, inst, bi, t, r, args, site)
        else:
            self.note("CALLBACK", "call through unknown value in %s" % inst["name"], t.get("span"))
            ret = self.top_of_dest(S, inst, t, site)
        if S.dead or ret is None:
            return []
        if t["t"] is None:
            return []
        self.write_place(S, frame, t["dest"], ret, site + ("ret",))
        if self.hooks and frame[0] == "R" and t["dest"]["l"] == 0 and not t["dest"]["p"]:
            for h in self.hooks:
                h("ret_assign", interp=self, value=ret, state=S, frame=frame, site=site)
        return [(t["t"], S)]

    def top_of_dest(self, S, inst, t, site):
        from ..eeq import place_ty

        tid = place_ty(self.f, inst["body"], t["dest"])
        if tid is None:
            return Opaque()
        return self.top(tid, S, ("ret",) + site)

    def havoc_mut_args(self, S, args, site):
        for i, a in enumerate(args):
            if isinstance(a, Ref) and a.mut and a.cell is not None:
                self.write(S, a.cell, a.path, Opaque(), site + ("havoc", i))

    def call_value(self, S, frame, inst, bi, t, fv, args, site):
        """Call through a function pointer value."""
        if isinstance(fv, FnPtr) and isinstance(fv.target, Fn):
            return self.call_fn_item(S, frame, inst, bi, t, fv.target, args, site)
        if isinstance(fv, FnPtr) and isinstance(fv.target, FnSet):
            # one of several known crate functions: analyse each in its own copy of the state and join
            from .join import join as join_states

            cell = ("fnset",) + tuple(site)
            J = None
            for n_, fn_ in enumerate(fv.target.fns):
                T = S.copy()
                r_ = self.call_fn_item(T, frame, inst, bi, t, fn_, args, site + ("alt", n_))
                if T.dead or r_ is None:
                    continue
                T.cells[cell] = r_
                J = T if J is None else join_states(J, T, (frame, "fnset", bi, n_))
            if J is None:
                S.dead = True
                return None
            ret = J.cells.pop(cell, None)
            for name in ("cells", "iv", "lin", "cmpd", "ovf", "notd", "absd", "discr", "when", "facts", "dead", "log", "gen", "emem"):
                setattr(S, name, getattr(J, name))
            return ret
        if isinstance(fv, FnPtr) and isinstance(fv.target, Struct) and fv.target.path.startswith("closure:"):
            return self.call_closure(S, frame, inst, bi, t, fv.target, [fv.target, Struct("tuple", args)], site, by_ref=False)
        # environment callback: result is anything of the return type; &mut arguments are havocked
        for h in self.hooks:
            h("env_call", interp=self, inst=inst, term=t, args=args, state=S, site=site)
        self.havoc_mut_args(S, args, site)
        return self.top_of_dest(S, inst, t, site)

    def find_instance(self, path_or_key, args_sig=None):
        for i in self.f.instances:
            if i["path"] == path_or_key or i["key"] == path_or_key:
                return i
        return None

    def call_fn_item(self, S, frame, inst, bi, t, fn, args, site):
        d = fn.desc
        path = d["def"]
        crate = path.lstrip("<").split("::", 1)[0]
        if crate == self.f.d["config"]["crate"]:
            # tuple-struct / tuple-variant constructors used as functions
            adt_path, _, last = path.rpartition("::")
            adt = self.f.adt_by_path.get(adt_path)
            if adt is not None and adt["kind"] == "enum" and any(v["name"] == last for v in adt["variants"]):
                return Enum(adt_path, {last: tuple(args)})
            adt = self.f.adt_by_path.get(path)
            if adt is not None and adt["kind"] == "struct":
                return Struct(path, args)
            cands = [i for i in self.f.instances if i["path"] == path]
            if len(cands) == 1:
                return self.call_inst(S, cands[0], args, site, t)
            if cands:
                # generic function: pick by generic arguments rendering
                for c in cands:
                    if c["args"] == d.get("args"):
                        return self.call_inst(S, c, args, site, t)
            self.note("UNMODELLED", "cannot resolve local function value %s" % path, t.get("span"))
            return self.top_of_dest(S, inst, t, site)
        return self.call_model(S, frame, inst, bi, t, {"def": path, "crate": crate, "args": d.get("args", []), "local": False}, args, site)

    def call_closure(self, S, frame, inst, bi, t, clo, args, site, by_ref):
        key, _, iid = clo.path[len("closure:"):].partition("@")
        target = None
        if iid:
            target = self.inst_by_id.get(int(iid))
        if target is None:
            cands = [i for i in self.f.instances if i["key"] == key and i.get("closure")]
            if len(cands) == 1:
                target = cands[0]
            elif cands:
                # closure of a generic function reached without its instance id: prefer the
                # instantiation belonging to the function currently being analysed
                for c in cands:
                    if any(c["name"].startswith(n) for n in self.stack[::-1]):
                        target = c
                        break
                target = target or cands[0]
        if target is None:
            self.note("UNMODELLED", "closure body not found: %s" % key, t.get("span") if t else None)
            return Opaque()
        return self.call_inst(S, target, args, site, t)

    def call_desc(self, S, frame, inst, bi, t, r, args, site):
        kind = r.get("kind", "Item")
        if kind == "Item" and r.get("local") and "inst" in r:
            return self.call_inst(S, self.inst_by_id[r["inst"]], args, site, t)
        if kind == "ClosureOnceShim" and "shim_inst" in r:
            return self.call_inst(S, self.inst_by_id[r["shim_inst"]], args, site, t)
        if kind == "FnPtrShim":
            # <F as Fn*>::call*(f, (args,)) where F is a fn item or fn pointer
            fv = args[0]
            if isinstance(fv, Ref):
                fv = self.read(S, fv.cell, fv.path, site + ("shim",)) if fv.cell is not None else Opaque()
            tup = args[1] if len(args) > 1 else Struct("tuple", [])
            inner = list(tup.fields) if isinstance(tup, Struct) else []
            if isinstance(fv, Fn):
                return self.call_fn_item(S, frame, inst, bi, t, fv, inner, site)
            if isinstance(fv, FnPtr):
                return self.call_value(S, frame, inst, bi, t, fv, inner, site)
            sty = self.types[r["shim_ty"]] if "shim_ty" in r else None
            if sty is not None and sty["k"] == "fndef":
                return self.call_fn_item(S, frame, inst, bi, t, Fn({"def": sty["path"], "args": sty.get("args", [])}), inner, site)
            self.havoc_mut_args(S, inner, site)
            return self.top_of_dest(S, inst, t, site)
        if kind == "Virtual":
            for h in self.hooks:
                h("env_call", interp=self, inst=inst, term=t, args=args, state=S, site=site)
            self.havoc_mut_args(S, args, site)
            return self.top_of_dest(S, inst, t, site)
        if kind in ("DropGlue",):
            return Struct("tuple", [])
        if kind == "CloneShim":
            a = args[0]
            if isinstance(a, Ref) and a.cell is not None:
                return self.read(S, a.cell, a.path, site + ("clone",))
            return self.top_of_dest(S, inst, t, site)
        if r.get("local"):
            # local item without exported instance (should not happen)
            self.note("UNMODELLED", "local callee without body: %s" % r["def"], t.get("span"))
            return self.top_of_dest(S, inst, t, site)
        return self.call_model(S, frame, inst, bi, t, r, args, site)

    def call_inst(self, S, callee, args, site, t=None):
        """Inline analysis of a crate function in the caller's context."""
        if len(self.stack) >= MAX_DEPTH:
            raise Unsupported("call depth exceeded at %s" % callee["name"])
        if callee["name"] in self.stack:
            raise Unsupported("recursion through %s" % callee["name"])
        body = callee["body"]
        frame = ("F",) + tuple(site)
        nargs = body["arg_count"]
        # closures called through Fn* traits receive (env, (a, b, ..)): untuple
        if callee.get("closure") and len(args) == 2 and isinstance(args[1], Struct) and args[1].path == "tuple":
            args = [args[0]] + list(args[1].fields)
        if callee.get("closure") and args:
            # the body's first parameter may be &closure / &mut closure / closure by value
            want = self.types[body["locals"][1]["ty"]]["k"] if nargs >= 1 else None
            a0 = args[0]
            if want in ("ref",) and not isinstance(a0, Ref):
                cell = (frame, "env")
                S.cells[cell] = a0
                args = [Ref(cell, (), True)] + list(args[1:])
            elif want == "closure" and isinstance(a0, Ref):
                args = [self.read(S, a0.cell, a0.path, site + ("env",)) if a0.cell is not None else Opaque()] + list(args[1:])
        if len(args) != nargs:
            raise Unsupported("arity mismatch calling %s: %d vs %d" % (callee["name"], len(args), nargs))
        for i, a in enumerate(args):
            S.cells[(frame, i + 1)] = a
        if len(site) >= 2:
            self.children.setdefault((site[0], site[1]), set()).add(frame)
        self.stack.append(callee["name"])
        self.call_log.append((len(self.stack), callee["name"]))
        for h in self.hooks:
            h("enter", interp=self, inst=callee, args=args, state=S, site=site)
        saved = self.cur_inst if hasattr(self, "cur_inst") else None
        try:
            R = self.run_body(callee, S.copy(), frame)
        finally:
            self.stack.pop()
            self.cur_inst = saved
        if R is None:
            S.dead = True
            return None
        ret = R.cells.get((frame, 0), Struct("tuple", []))
        from . import lemmas

        ret, used = lemmas.apply_contract(self, R, callee, args, ret)
        if used:
            self.contract_uses[callee["name"]] = self.contract_uses.get(callee["name"], 0) + 1
        if getattr(self, "ret_override", None) is not None:
            # box theorems on a callee's return case (C03): the continuation is analysed under one variant
            ret = self.ret_override(self, R, callee, args, ret)
            if R.dead:
                S.dead = True
                return None
        for h in self.hooks:
            h("leave", interp=self, inst=callee, ret=ret, state=R, site=site)
        # drop the callee frame, keep everything else (callee may have written through &mut)
        for c in [c for c in R.cells if isinstance(c, tuple) and c and c[0] == frame]:
            del R.cells[c]
        # transplant R into S (S is the caller's mutable state object)
        for name in ("cells", "iv", "lin", "cmpd", "ovf", "notd", "absd", "discr", "when", "facts", "dead", "log", "gen"):
            setattr(S, name, getattr(R, name))
        # temporarily root the return value for gc
        S.cells[("ret", frame)] = ret
        S.gc()
        del S.cells[("ret", frame)]
        return ret

    def call_model(self, S, frame, inst, bi, t, r, args, site):
        path = r["def"]
        m = self.models.lookup(path, r)
        if m is None:
            kind = "UNMODELLED"
            self.oblige("UNMODELLED", inst, bi, path, False, S, t.get("span"), {"callee": path})
            for h in self.hooks:
                h("inexact", interp=self, callee=path, why="no model", args=args, state=S, term=t)
            self.havoc_mut_args(S, args, site)
            return self.top_of_dest(S, inst, t, site)
        ctx = CallCtx(self, S, frame, inst, bi, t, r, args, site)
        for h in self.hooks:
            h("model_call", interp=self, callee=path, args=args, state=S, term=t)
        ret = m(ctx)
        if ctx.inexact is not None and self.hooks:
            for h in self.hooks:
                h("inexact", interp=self, callee=path, why=ctx.inexact, args=args, state=S, term=t)
        if ret is not None:
            self.stamp(S, ret)
        return ret

    def stamp(self, S, v, depth=0):
        """Give generation stamps to conditional deltas created by models."""
        if isinstance(v, Enum):
            for d in v.when.values():
                self.stamp_delta(S, d)
            if depth < 3:
                for fs in v.variants.values():
                    for f in fs:
                        self.stamp(S, f, depth + 1)
        elif isinstance(v, Struct) and depth < 3:
            for f in v.fields:
                self.stamp(S, f, depth + 1)
        elif isinstance(v, Scalar):
            w = S.when.get(v.sym)
            if w:
                for d in w.values():
                    self.stamp_delta(S, d)

    @staticmethod
    def stamp_delta(S, d):
        if d.gen is None:
            g = {}
            for s in d.iv:
                g[s] = S.gen.get(s, 0)
            for f in d.facts:
                for s in f.t:
                    g[s] = S.gen.get(s, 0)
            d.gen = g

    # ------------------------------------------------------------------ roots
    def analyse_root(self, inst, make_args=None):
        self.root_name = inst["name"]
        self.stack = []
        S = State(self.st)
        body = inst["body"]
        frame = ("R", inst["id"])
        args = []
        for i in range(body["arg_count"]):
            tid = body["locals"][i + 1]["ty"]
            args.append(self.top(tid, S, ("arg", inst["id"], i)))
        if make_args is not None:
            args = make_args(self, S, inst, args)
        for i, a in enumerate(args):
            S.cells[(frame, i + 1)] = a
        self.cur_inst = inst
        for h in self.hooks:
            h("root", interp=self, inst=inst, args=args, state=S)
        self.site_results = {}
        self.children = {}
        R = self.run_body(inst, S, frame)
        self.fold_site_results()
        return R, frame, args


class CallCtx:
    """What a model of an extern function sees."""

    def __init__(self, I, S, frame, inst, bi, t, r, args, site):
        self.I = I
        self.S = S
        self.frame = frame
        self.inst = inst
        self.bi = bi
        self.t = t
        self.r = r
        self.args = args
        self.site = site
        self.inexact = None  # set by a model that answers with less than it could know (unknown boolean, top)

    def deref(self, v, tag="d"):
        if isinstance(v, Ref):
            if v.cell is None:
                return Opaque()
            return self.I.read(self.S, v.cell, v.path, self.site + (tag,))
        return v

    def top_ret(self):
        self.inexact = "result not modelled"
        return self.I.top_of_dest(self.S, self.inst, self.t, self.site)

    def ret_ty(self):
        from ..eeq import place_ty

        return place_ty(self.I.f, self.inst["body"], self.t["dest"])

    def fresh(self, tag, rng, iv=None, lin=None):
        return self.I.fresh(("m",) + self.site + (tag,), rng, self.S, iv, lin)

    def garg_ty(self, n=0):
        ts = [a["t"] for a in self.r.get("args", []) if isinstance(a, dict) and "t" in a]
        return ts[n] if n < len(ts) else None

    def garg_const(self, n=0):
        cs = [a["c"] for a in self.r.get("args", []) if isinstance(a, dict) and "c" in a]
        return cs[n] if n < len(cs) else None

    def pre(self, name, ok, extra=None):
        kind = "PRE:" + name
        detail = self.I.site_ordinal(self.inst, self.bi, "CALL:" + self.r["def"])
        self.I.oblige(kind, self.inst, self.bi, self.r["def"] + detail, ok, self.S, self.t.get("span"), extra)
