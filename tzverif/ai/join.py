"""Join of two abstract states with phi symbols, Houdini-style fact inference and conditional
deltas (`when`) for enum / boolean cells whose cases differ between the two sides."""
from . import domain as D
from .domain import Lin
from .state import State
from .values import BOT, Arr, Bot, BoxU, Delta, Enum, Fn, FnPtr, FnSet, Iter, Opaque, Ref, Scalar, Seq, Struct, Val, val_syms


INTERP = None  # set by the interpreter: gives the joiner read access through references


class Joiner:
    def __init__(self, A, B, at, widen=None, first=True, type_of_cell=None):
        self.A = A
        self.B = B
        self.at = at
        self.J = State(A.st)
        self.sa = {}  # A sym -> J sym
        self.sb = {}
        self.phis = []  # (phi, a, b)
        self.enum_sites = []  # (joined enum without when, enumA, enumB, context deltas of A, of B)
        self._ctx_a = ()
        self._ctx_b = ()
        self.widen = widen
        self.first = first
        self._delta_cache = {}
        self.merged = {}
        self.lost_ef_a = {}
        self.lost_ef_b = {}
        self.seq_sites = []
        self.phi_path = {}
        self.sa_all = {}
        self.sb_all = {}
        self.phi_ctx = {}

    # ---- symbols
    def sym(self, a, b, path):
        if a == b:
            return a
        st = self.A.st
        ra, rb = st.range(a), st.range(b)
        key = ("phi", self.at, path)
        p = st.get(key, (min(ra[0], rb[0]), max(ra[1], rb[1])))
        self.phis.append((p, a, b))
        self.phi_path[p] = path
        if self._ctx_a or self._ctx_b:
            self.phi_ctx[p] = (self._ctx_a, self._ctx_b)  # the phi sits inside enum variants: what each side knows there
        self.sa.setdefault(a, p)
        self.sb.setdefault(b, p)
        # one source symbol can sit in several places and so get several phis: keep them all for interval deltas
        self.sa_all.setdefault(a, []).append(p)
        self.sb_all.setdefault(b, []).append(p)
        return p

    # ---- values
    def val(self, a, b, path):
        if a is b:
            return a
        if isinstance(a, Bot):
            return b
        if isinstance(b, Bot):
            return a
        ta, tb = type(a), type(b)
        if ta is Scalar and tb is Scalar:
            s = self.sym(a.sym, b.sym, path)
            return a if s == a.sym else (b if s == b.sym else Scalar(s))
        if ta is Struct and tb is Struct and a.path == b.path and len(a.fields) == len(b.fields):
            fs = [self.val(x, y, path + (i,)) for i, (x, y) in enumerate(zip(a.fields, b.fields))]
            if all(f is x for f, x in zip(fs, a.fields)):
                return a
            return Struct(a.path, fs)
        if ta is Enum and tb is Enum and a.path == b.path:
            vs = {}
            ctx_a, ctx_b = self._ctx_a, self._ctx_b
            for k in list(a.variants) + [k for k in b.variants if k not in a.variants]:
                if k in a.variants and k in b.variants:
                    # what each side knows under "this value is variant k" is context for nested enums
                    wa_, wb_ = a.when.get(k), b.when.get(k)
                    self._ctx_a = ctx_a + ((wa_,) if wa_ is not None else ())
                    self._ctx_b = ctx_b + ((wb_,) if wb_ is not None else ())
                    vs[k] = tuple(self.val(x, y, path + (k, i)) for i, (x, y) in enumerate(zip(a.variants[k], b.variants[k])))
                    self._ctx_a, self._ctx_b = ctx_a, ctx_b
                elif k in a.variants:
                    vs[k] = a.variants[k]
                else:
                    vs[k] = b.variants[k]
            e = Enum(a.path, vs, {})
            self.enum_sites.append((e, a, b, ctx_a, ctx_b))
            return e
        if ta is Arr and tb is Arr and len(a.elems) == len(b.elems):
            es = [self.val(x, y, path + (("i", i),)) for i, (x, y) in enumerate(zip(a.elems, b.elems))]
            if all(e is x for e, x in zip(es, a.elems)):
                return a
            return Arr(es)
        if (ta is Seq or ta is Arr) and (tb is Seq or tb is Arr):
            sa_, sb_ = self.as_seq(a, self.A, path + ("A",)), self.as_seq(b, self.B, path + ("B",))
            byteish = {"str", "string"}
            if sa_.kind != sb_.kind and (sa_.kind in byteish) != (sb_.kind in byteish):
                return Opaque()
            ln = self.sym(sa_.len, sb_.len, path + ("len",))
            if sa_.elem is None:
                el = sb_.elem
            elif sb_.elem is None:
                el = sa_.elem
            else:
                el = self.val(sa_.elem, sb_.elem, path + ("elem",))
            ef = ()  # fixed up in run() once the symbol renamings are complete
            data = sa_.data if sa_.data == sb_.data else None
            kind = sa_.kind if sa_.kind == sb_.kind else ("str" if sa_.kind in byteish else "slice")
            q = Seq(kind, ln, el, ef, data, sa_.prov | sb_.prov)
            if sa_.efacts or sb_.efacts:
                self.seq_sites.append((q, sa_.efacts, sb_.efacts, sa_.len, sb_.len))
            return q
        if ta is Ref and tb is Ref:
            if a.cell == b.cell and a.path == b.path:
                return a if a.mut == b.mut else Ref(a.cell, a.path, a.mut and b.mut)
            if not a.mut and not b.mut and INTERP is not None and a.cell is not None and b.cell is not None and len(path) < 24:
                # shared references to different places: point at a merged copy of the two pointees
                va = INTERP.read(self.A, a.cell, a.path, ("jr", self.at) + path + ("A",))
                vb = INTERP.read(self.B, b.cell, b.path, ("jr", self.at) + path + ("B",))
                v = self.val(va, vb, path + ("*",))
                cell = ("j", self.at, path)
                self.merged[cell] = v
                return Ref(cell, (), False)
            ts = []
            for r in (a, b):
                if r.cell is None:
                    return Ref(None, (), a.mut and b.mut)
                if isinstance(r.cell, tuple) and r.cell and r.cell[0] == "multi":
                    ts.extend(r.cell[1])
                else:
                    ts.append((r.cell, r.path))
            uniq = []
            for t in ts:
                if t not in uniq:
                    uniq.append(t)
            return Ref(("multi", tuple(uniq)), (), a.mut and b.mut)
        if ta is Fn and tb is Fn and a.desc.get("def") == b.desc.get("def") and a.desc.get("args") == b.desc.get("args"):
            return a
        if ta in (Fn, FnSet) and tb in (Fn, FnSet):
            # two different known functions: the pointer is one of them
            fns = []
            for x in (a.fns if ta is FnSet else (a,)) + (b.fns if tb is FnSet else (b,)):
                if not any(x.desc.get("def") == y.desc.get("def") and x.desc.get("args") == y.desc.get("args") for y in fns):
                    fns.append(x)
            return FnSet(fns) if len(fns) <= 8 else Opaque()
        if ta is FnPtr and tb is FnPtr:
            if a.target is b.target:
                return a
            if isinstance(a.target, Val) and isinstance(b.target, Val):
                t = self.val(a.target, b.target, path + ("fp",))
                if not isinstance(t, Opaque):
                    return FnPtr(t, a.ty)
            return FnPtr(None, a.ty)
        if ta is Iter and tb is Iter and a.kind == b.kind:
            def j(x, y, tag):
                if isinstance(x, Val) and isinstance(y, Val):
                    return self.val(x, y, path + (tag,))
                if x == y:
                    return x
                if isinstance(x, int) and isinstance(y, int) and a.kind in ("slice", "take", "chunks", "windows", "enumerate") and tag == "n":
                    return self.sym(x, y, path + (tag,))
                if a.kind == "chars" and tag == "n":
                    return "advanced"  # at the start on one side only: position unknown
                return None
            return Iter(a.kind, j(a.a, b.a, "a"), j(a.b, b.b, "b"), j(a.n, b.n, "n"), a.finite and b.finite)
        if ta is Iter and tb is Iter:
            return Iter("opaque", None, None, None, a.finite and b.finite)
        if ta is BoxU and tb is BoxU and a.cell == b.cell:
            return a
        if ta is Opaque and tb is Opaque:
            return a
        return Opaque()

    def as_seq(self, v, S, path):
        if isinstance(v, Seq):
            return v
        # Arr -> summary
        st = S.st
        n = len(v.elems)
        ln = st.get(("const", n, "len"), (n, n))
        if ln not in S.iv:
            S.iv[ln] = D.point(n)
        el = None
        J = Joiner(S, S, self.at + ("arrsum",) + path)
        for e in v.elems:
            el = e if el is None else J.val(el, e, ("e",))
        for p, a, b in J.phis:
            S.iv[p] = D.join(S.ivof(a), S.ivof(b))
        return Seq("array", ln, el, (), None, frozenset())

    # ---- whole states
    def run(self):
        A, B, J = self.A, self.B, self.J
        if A.dead:
            return B
        if B.dead:
            return A
        for c in A.cells:
            if c in B.cells:
                J.cells[c] = self.val(A.cells[c], B.cells[c], (c,))
            else:
                J.cells[c] = A.cells[c]
        for c in B.cells:
            if c not in A.cells:
                J.cells[c] = B.cells[c]
        J.cells.update(self.merged)
        # element reads both sides made of the very same sequence value, with the very same result, stay valid
        if A.emem and B.emem:
            for k_, ev_ in A.emem.items():
                bv_ = B.emem.get(k_)
                if bv_ is not None and bv_[0] is ev_[0] and bv_[1] is ev_[1]:
                    J.emem[k_] = ev_
        # intervals.  A symbol that no value of one side can reach is meaningless on that side's
        # paths: take the other side's interval instead of the hull.
        self.dead_in_a = set()
        self.dead_in_b = set()
        diffs = [s for s, iv in A.iv.items() if s in B.iv and B.iv[s] != iv]
        self._live = {}
        if diffs:
            la, lb = A.live_syms(), B.live_syms()
            self._live[id(A)] = la
            self._live[id(B)] = lb
            for s in diffs:
                if s in la and s not in lb:
                    self.dead_in_b.add(s)
                elif s in lb and s not in la:
                    self.dead_in_a.add(s)
        for s, iv in A.iv.items():
            if s in B.iv:
                if s in self.dead_in_b:
                    J.iv[s] = iv
                elif s in self.dead_in_a:
                    J.iv[s] = B.iv[s]
                else:
                    J.iv[s] = iv if iv == B.iv[s] else D.join(iv, B.iv[s])
            else:
                J.iv[s] = iv
        for s, iv in B.iv.items():
            if s not in A.iv:
                J.iv[s] = iv
        phi_ids = set()
        # a phi symbol that a side still mentions although its cell now holds another value is the
        # *previous* value of that phi (loop back edge): everything that side says about it is stale
        self.stale_a = {p for p, a, b in self.phis if a != p}
        self.stale_b = {p for p, a, b in self.phis if b != p}
        for p, a, b in self.phis:
            phi_ids.add(p)
            J.iv[p] = D.join(A.tight_iv(a), B.tight_iv(b))
        # generations: a phi that is (re)assigned by this join gets a new generation
        ga, gb = A.gen, B.gen
        g = dict(ga)
        for s_, n in gb.items():
            if g.get(s_, 0) < n:
                g[s_] = n
        for p, a, b in self.phis:
            if a != p or b != p:
                g[p] = max(ga.get(p, 0), gb.get(p, 0)) + 1
        J.gen = g
        if self.widen is not None:
            old, thresholds = self.widen
            for s in list(J.iv):
                o = old.iv.get(s)
                if o is not None and o != J.iv[s]:
                    th = thresholds if thresholds is not None else list(J.st.range(s))
                    J.iv[s] = D.widen(o, J.iv[s], th)
        # definitions identical on both sides survive
        for name in ("lin", "cmpd", "ovf", "notd", "absd", "discr", "when"):
            ca, cb, cj = getattr(A, name), getattr(B, name), getattr(J, name)
            for k, v in ca.items():
                if k in phi_ids:
                    continue
                if (self.stale_a or self.stale_b) and self._mentions(name, v, self.stale_a | self.stale_b):
                    continue
                w = cb.get(k)
                if w is not None and (w is v or w == v):
                    cj[k] = v
                elif k not in B.iv and k not in cb:
                    cj[k] = v  # symbol only meaningful on A's paths
            for k, v in cb.items():
                if k not in ca and k not in A.iv and k not in phi_ids:
                    if self.stale_b and self._mentions(name, v, self.stale_b):
                        continue
                    cj[k] = v
        # definitions that do not survive are turned into equality facts on their side, so that the
        # relation can still be kept as a (conditional) fact
        for X in (A, B):
            lost = [k for k in X.lin if k not in J.lin and k not in phi_ids]
            if lost:
                live = self._live.get(id(X))
                if live is None:
                    live = self._live[id(X)] = X.live_syms()
                extra = []
                for k in lost:
                    if k in live:
                        e = Lin({k: 1}).sub(X.lin[k])
                        extra.append(e)
                        extra.append(e.scale(-1))
                if extra:
                    X = X  # facts sets are copied per state; safe to extend this side's set
                    X.facts = set(X.facts) | set(extra)
        # facts: keep what the other side entails (after mapping phi-paired symbols)
        mab = {a: b for _, a, b in self.phis}
        mba = {b: a for _, a, b in self.phis}
        # a symbol that is dead on side X takes the other side's interval in J, so nothing X says
        # about it may survive (its facts are about values J's interval does not cover)
        self._facts(A, B, self.sa, mab, self.stale_a | self.dead_in_a, self.dead_in_b)
        self._facts(B, A, self.sb, mba, self.stale_b | self.dead_in_b, self.dead_in_a)
        # candidate order relations for integer phis (Houdini): p vs common symbols, p vs other phis
        self._new_facts = []
        self._phi_relations(mab, mba)
        # definitional equalities for phis
        for p, a, b in self.phis:
            if p in J.lin:
                continue
            for (X, Y, x, y, sx, mxy, stale) in ((A, B, a, b, self.sa, mab, self.stale_a), (B, A, b, a, self.sb, mba, self.stale_b)):
                l = X.lin.get(x)
                if l is None or any(s_ in stale for s_ in l.t):
                    continue
                # other side must satisfy y == l[x-syms -> y-syms]
                ly = Y.expand(l.rename(mxy))
                e = Y.term(y).sub(ly)
                if e.t == {} and e.c == 0 or (Y.entails(e) and Y.entails(e.scale(-1))):
                    lj = l.rename(sx)
                    if p not in lj.t and all((s in J.iv or s in phi_ids) for s in lj.t):
                        lj = J.expand(lj)
                        if p not in lj.t:
                            J.lin[p] = lj
                            break
        # element facts of joined sequences: equal after renaming both sides into J's symbols
        for q, efa, efb, lna, lnb in self.seq_sites:
            ra = [(fp, l.rename(self.sa) if any(x in self.sa for x in l.t) else l) for fp, l in efa]
            rb = [(fp, l.rename(self.sb) if any(x in self.sb for x in l.t) else l) for fp, l in efb]
            if A.ivof(lna) == D.point(0):
                common = rb  # an empty sequence satisfies every element fact
            elif B.ivof(lnb) == D.point(0):
                common = ra
            else:
                common = [t for t in ra if t in rb]
            q.efacts = tuple(common)
            la = [t for t in ra if t not in common]
            lb = [t for t in rb if t not in common]
            if la:
                self.lost_ef_a.setdefault(q.len, set()).update(la)
            if lb:
                self.lost_ef_b.setdefault(q.len, set()).update(lb)
        # conditional deltas for enums / booleans
        for e, ea, eb, cxa, cxb in self.enum_sites:
            when = {}
            for k in e.variants:
                pa_, pb_ = set(), set()
                if k in ea.variants:
                    for x_ in ea.variants[k]:
                        val_syms(x_, pa_)
                    pa_ = {self.sa.get(s_, s_) for s_ in pa_} | {p_ for s_ in pa_ for p_ in self.sa_all.get(s_, ())} | pa_
                if k in eb.variants:
                    for x_ in eb.variants[k]:
                        val_syms(x_, pb_)
                    pb_ = {self.sb.get(s_, s_) for s_ in pb_} | {p_ for s_ in pb_ for p_ in self.sb_all.get(s_, ())} | pb_
                da = self._delta(A, _merge_deltas(cxa + ((ea.when[k],) if k in ea.when else ())), self.sa, prefer=pa_) if k in ea.variants else None
                db = self._delta(B, _merge_deltas(cxb + ((eb.when[k],) if k in eb.when else ())), self.sb, prefer=pb_) if k in eb.variants else None
                d = da if db is None else (db if da is None else self._join_delta(da, db))
                if da is not None and db is not None and d is not None:
                    # a fact about the payload that one side states and the other side (under its own knowledge
                    # about this variant) entails holds for the variant too (e.g. `idx < len` vs `idx == 0, len >= 1`)
                    pj = pa_ | pb_
                    extra_f = []
                    for side_facts, X, xw, sx, cx in ((db.facts, A, ea.when.get(k), self.sa, cxa), (da.facts, B, eb.when.get(k), self.sb, cxb)):
                        cand = [f_ for f_ in side_facts if f_ not in d.facts and any(s_ in pj for s_ in f_.t)][:6]
                        if not cand:
                            continue
                        Xc = X.copy()
                        dx = _merge_deltas(tuple(cx) + ((xw,) if xw is not None else ()))
                        if dx is not None:
                            Xc.apply_delta(dx)
                        inv = {}
                        for s_src, s_phi in sx.items():
                            inv.setdefault(s_phi, s_src)
                        for f_ in cand:
                            fx = f_.rename(inv) if any(s_ in inv for s_ in f_.t) else f_
                            if not Xc.dead and all(s_ in Xc.iv or not isinstance(s_, tuple) for s_ in fx.t) and Xc.entails(fx):
                                extra_f.append(f_)
                    if extra_f:
                        d = Delta(d.iv, tuple(d.facts) + tuple(f_ for f_ in extra_f if f_ not in d.facts), d.gen, d.ef)
                    # a bound of a scalar payload against a symbol both sides share, which neither side *states* about
                    # the payload but each entails for its own source value (`Some(i)` joined from `Ok(i) => Some(i)`
                    # with i < len and `Err(i) => Some(i - 1)` with i <= len): candidates payload - t + c <= 0, c in {1, 0}
                    try:
                        phimap = {p_: (a_, b_) for p_, a_, b_ in self.phis}
                        newf = []
                        sides = []
                        for X, xw, cx in ((A, ea.when.get(k), cxa), (B, eb.when.get(k), cxb)):
                            Xc = X.copy()
                            dx = _merge_deltas(tuple(cx) + ((xw,) if xw is not None else ()))
                            if dx is not None:
                                Xc.apply_delta(dx)
                            sides.append(Xc)
                        XA, XB = sides
                        if not XA.dead and not XB.dead:
                            stale_ = self.stale_a | self.stale_b
                            for x_ in [v_ for v_ in e.variants[k] if isinstance(v_, Scalar)][:2]:
                                if x_.sym not in phimap or J.st.range(x_.sym) == (0, 1):
                                    continue
                                a_, b_ = phimap[x_.sym]
                                cands = set()
                                for X, s_ in ((XA, a_), (XB, b_)):
                                    base = set(X.term(s_).t) | {s_}
                                    for f_ in X.facts:
                                        if base & set(f_.t):
                                            cands.update(f_.t)
                                cands = [t_ for t_ in cands if t_ not in phimap and t_ not in stale_ and not isinstance(t_, tuple) and t_ not in (a_, b_) and XA.term(t_) == Lin.var(t_) and XB.term(t_) == Lin.var(t_)]
                                for t_ in sorted(cands)[:6]:
                                    for c_ in (1, 0):
                                        ga = XA.term(a_).sub(Lin.var(t_)).addc(c_)
                                        gb = XB.term(b_).sub(Lin.var(t_)).addc(c_)
                                        if XA.entails(ga) and XB.entails(gb):
                                            newf.append(Lin({x_.sym: 1}).sub(Lin.var(t_)).addc(c_))
                                            break
                        if newf:
                            d = Delta(d.iv, tuple(d.facts) + tuple(f_ for f_ in newf if f_ not in d.facts), d.gen, d.ef)
                    except Exception:
                        pass
                if d is not None and (d.iv or d.facts or d.ef):
                    when[k] = d
            e.when = when
        for p, a, b in self.phis:
            r = J.st.range(p)
            if r == (0, 1) or (D.size(J.ivof(p)) <= 4):
                va, vb = D.values(A.ivof(a), 4), D.values(B.ivof(b), 4)
                if va is None or vb is None:
                    continue
                if set(va) == set(vb) and len(va) > 1:
                    continue
                w = {}
                wa, wb = A.when.get(a, {}), B.when.get(b, {})
                cxa, cxb = self.phi_ctx.get(p, ((), ()))
                for v in set(va) | set(vb):
                    da = self._case_delta(A, a, v, wa, self.sa, cxa) if v in va else None
                    db = self._case_delta(B, b, v, wb, self.sb, cxb) if v in vb else None
                    d = da if db is None else (db if da is None else self._join_delta(da, db))
                    if d is not None and (d.iv or d.facts):
                        w[v] = d
                if w:
                    J.when[p] = w
        J.log = A.log if A.log == B.log else _merge_logs(A.log, B.log)
        for f in self._new_facts:
            J.add_fact(f)  # also tightens intervals
        return J

    def _phi_relations(self, mab, mba):
        A, B, J = self.A, self.B, self.J
        ints = [(p, a, b) for p, a, b in self.phis if J.st.range(p) != (0, 1)]
        if not ints or len(ints) > 60:
            return
        many = len(ints) > 12
        stale = self.stale_a | self.stale_b
        phi_ids = {p for p, _, _ in self.phis}

        def related(X, x):
            out = set()
            base = set(X.term(x).t) | {x}
            for f in X.facts:
                if base & set(f.t):
                    out.update(f.t)
            return out

        fa = set()
        for f in A.facts:
            fa.update(f.t)
        fb = set()
        for f in B.facts:
            fb.update(f.t)

        def interesting(X, x, fx):
            return x in X.lin or x in fx or bool(set(X.term(x).t) & fx)

        # symbols that the two incoming paths know differently (refined by the branch that splits them)
        diffsyms = []
        if len(self.phis) <= 80:
            for s_, iva in A.iv.items():
                ivb = B.iv.get(s_)
                if ivb is not None and ivb != iva and s_ not in phi_ids and s_ not in stale and J.st.range(s_) != (0, 1):
                    if s_ in self.dead_in_a or s_ in self.dead_in_b:
                        continue
                    diffsyms.append(s_)
                    if len(diffsyms) >= 6:
                        break
        def is_len(p_):
            return tuple(self.phi_path.get(p_, ()))[-1:] == ("len",)

        if diffsyms:
            # only phis whose two values actually differ are worth relating to them
            ints = [(p, a, b) for p, a, b in ints if is_len(p) or interesting(A, a, fa) or interesting(B, b, fb) or (A.ivof(a) != B.ivof(b) and D.size(A.ivof(a)) <= 4 and D.size(B.ivof(b)) <= 4)]
        else:
            ints = [(p, a, b) for p, a, b in ints if is_len(p) or interesting(A, a, fa) or interesting(B, b, fb)]
        many = len(ints) > 12
        for p, a, b in ints[:24]:
            cands = (related(A, a) | related(B, b) | {a, b} | set(diffsyms)) - phi_ids - stale
            cands = [t for t in cands if t in A.iv and t in B.iv and not isinstance(t, tuple)]
            for t in sorted(cands)[:8]:
                ta, tb = A.term(t), B.term(t)
                for sign in (1, -1):
                    for c in (1, 0, -1):
                        ga = A.term(a).sub(ta).scale(sign).addc(c)
                        gb = B.term(b).sub(tb).scale(sign).addc(c)
                        if A.entails(ga, False) and B.entails(gb, False):
                            self._new_facts.append(Lin({p: 1}).sub(J.term(t)).scale(sign).addc(c))
                            break
        for i in range(len(ints)):
            for j in range(i + 1, len(ints)):
                p, pa, pb = ints[i]
                q, qa, qb = ints[j]
                if many and self.phi_path.get(p, (None,))[0] != self.phi_path.get(q, (0,))[0]:
                    continue  # with many phis only relate fields of the same cell
                for sign in (1, -1):
                    for c in (1, 0, -1):
                        ga = A.term(pa).sub(A.term(qa)).scale(sign).addc(c)
                        gb = B.term(pb).sub(B.term(qb)).scale(sign).addc(c)
                        if A.entails(ga, False) and B.entails(gb, False):
                            self._new_facts.append(Lin({p: 1}).sub(Lin({q: 1})).scale(sign).addc(c))
                            break
                # conserved sums: a counter going up while a length goes down (`while let [x, rest @ ..] = rest`)
                # keeps p + q equal to a term K over symbols both sides share
                ka, kb = A.term(pa).add(A.term(qa)), B.term(pb).add(B.term(qb))
                for K, Y, ky in ((ka, B, kb), (kb, A, ka)):
                    if any((t in phi_ids or t in stale or isinstance(t, tuple) or t not in A.iv or t not in B.iv or A.term(t) != Lin.var(t) or B.term(t) != Lin.var(t)) for t in K.t):
                        continue
                    d_ = ky.sub(K)
                    if (not d_.t and d_.c == 0) or (Y.entails(d_, False) and Y.entails(d_.scale(-1), False)):
                        e_ = Lin({p: 1}).add(Lin({q: 1})).sub(K)
                        self._new_facts.append(e_)
                        self._new_facts.append(e_.scale(-1))
                        break

    @staticmethod
    def _mentions(name, v, stale):
        if name == "lin":
            return any(s in stale for s in v.t)
        if name == "cmpd":
            return any(s in stale for s in v[1].t) or any(s in stale for s in v[2].t)
        if name == "ovf":
            return v[0] in stale or (v[1] is not None and any(s in stale for s in v[1].t))
        if name in ("notd", "absd"):
            return v in stale
        if name == "when":
            return any(any(s in stale for s in d.iv) or any(any(s in stale for s in f.t) for f in d.facts) for d in v.values())
        return False

    def _alt_renames(self, f, side_a):
        """A source symbol that sits in several places gets several phis; `sx` knows only the first.  Yield, for every
        other phi p' = (a | b') of a symbol a the fact mentions, (fact over p', fact over the other side's b')."""
        sx, mxy = (self.sa, None) if side_a else (self.sb, None)
        sx_all = self.sa_all if side_a else self.sb_all
        out = []
        for s in f.t:
            ps = sx_all.get(s)
            if not ps or len(ps) < 2:
                continue
            for p2 in ps:
                if p2 == sx.get(s):
                    continue
                other = None
                for p_, a_, b_ in self.phis:
                    if p_ == p2:
                        other = b_ if side_a else a_
                        break
                if other is None:
                    continue
                mj = {k: v for k, v in sx.items() if k in f.t}
                mj[s] = p2
                my = {}
                for k in f.t:
                    if k == s:
                        my[k] = other
                    else:
                        pk = sx.get(k)
                        if pk is not None:
                            for p_, a_, b_ in self.phis:
                                if p_ == pk:
                                    my[k] = b_ if side_a else a_
                                    break
                out.append((f.rename(mj), f.rename(my) if my else f))
                if len(out) >= 4:
                    return out
        return out

    def _facts(self, X, Y, sx, mxy, stale, dead_in_y=()):
        J = self.J
        for f in X.facts:
            if stale and any(s in stale for s in f.t):
                continue
            if dead_in_y:
                nd = sum(1 for s in f.t if s in dead_in_y)
                if nd == len(f.t):
                    J.facts.add(f.rename(sx) if any(s in sx for s in f.t) else f)  # irrelevant on Y's paths
                    continue
                if nd:
                    continue  # mixes symbols meaningful on both sides with ones that are not
            fy = f.rename(mxy) if any(s in mxy for s in f.t) else f
            fj = f.rename(sx) if any(s in sx for s in f.t) else f
            if fj is not f:
                for fj2, fy2 in self._alt_renames(f, X is self.A):
                    if fj2 not in J.facts and all(s_ in Y.iv or not isinstance(s_, int) for s_ in fy2.t) and (fy2 in Y.facts or Y.entails(Y.expand(fy2))):
                        J.facts.add(fj2)
            if fj in J.facts:
                continue
            if fy in Y.facts or Y.entails(Y.expand(fy)):
                J.facts.add(fj)
            elif self.first:
                h = Y.hull(Y.expand(fy))
                if h is not None and 0 < h[1] <= 8:
                    J.facts.add(fj.addc(-h[1]))

    def _delta(self, X, extra, sx, prefer=None):
        """What X knows beyond J: tighter intervals (for J-visible symbols) and extra facts.
        prefer: symbols whose facts must survive the cap on the number of facts (the payload of the variant)."""
        if prefer:
            base = self._delta0(X, None, sx, prefer=prefer)
        else:
            base = self._delta_cache.get(id(X))
            if base is None:
                base = self._delta_cache[id(X)] = self._delta0(X, None, sx)
        if extra is None:
            return base
        iv = dict(base.iv)
        facts = list(base.facts)
        sx_all = self.sa_all if sx is self.sa else (self.sb_all if sx is self.sb else {})
        for s, v in extra.iv.items():
            for js in (sx_all.get(s) or (sx.get(s, s),)):
                cur = iv.get(js)
                iv[js] = v if cur is None else D.meet(cur, v)
        for f in extra.facts:
            fj = f.rename(sx) if any(s in sx for s in f.t) else f
            if fj not in facts:
                facts.append(fj)
            if prefer and fj is not f and any(s in prefer and s in sx for s in f.t) and f not in facts:
                facts.append(f)
            if prefer and fj is not f:
                for fj2, _ in self._alt_renames(f, sx is self.sa):
                    if fj2 not in facts and any(s in prefer for s in fj2.t):
                        facts.append(fj2)
        ef = dict(base.ef)
        for ln, ts in extra.ef.items():
            jl = sx.get(ln, ln)
            ts = tuple((fp, l.rename(sx) if any(x in sx for x in l.t) else l) for fp, l in ts)
            ef[jl] = tuple(ef.get(jl, ())) + tuple(t for t in ts if t not in ef.get(jl, ()))
        return Delta(iv, facts[:24], base.gen, ef)

    def _case_delta(self, X, x, v, wx, sx, ctx=()):
        """What side X knows beyond J when its value x equals v.  If x can take several values on
        that side and is *defined* there (a comparison, a negation, an overflow flag or a value with
        its own conditional refinements), the definition is applied first: `let b = p && q;` keeps
        `b == 1 => p, q` across the merge of the short-circuit arms."""
        vals = D.values(X.ivof(x), 4)
        if vals is not None and len(vals) > 1 and (x in X.cmpd or x in X.notd or x in X.ovf or x in X.when):
            X2 = X.copy()
            X2.assume_sym(x, D.point(v))
            if X2.dead:
                return None
            if ctx:
                X2.apply_delta(_merge_deltas(ctx))
                if X2.dead:
                    return None
            # what the definition itself contributes must survive the cap on the number of facts
            return self._delta0(X2, None, sx, like=X, first=[f for f in X2.facts if f not in X.facts])
        return self._delta(X, _merge_deltas(tuple(ctx) + ((wx[v],) if v in wx else ())), sx)

    def _delta0(self, X, extra, sx, like=None, prefer=None, first=None):
        J = self.J
        iv = {}
        side_a = (like if like is not None else X) is self.A
        stale = (self.stale_a | self.dead_in_a) if side_a else (self.stale_b | self.dead_in_b)
        sx_all = self.sa_all if sx is self.sa else (self.sb_all if sx is self.sb else {})
        for s, v in X.iv.items():
            if s in stale:
                continue
            for js in (sx_all.get(s) or (sx.get(s, s),)):
                jv = J.iv.get(js)
                if jv is not None and v != jv and D.subset(v, jv):
                    cur = iv.get(js)
                    iv[js] = v if cur is None else D.meet(cur, v)
        facts = []
        for f in X.facts:
            if stale and any(s in stale for s in f.t):
                continue
            fj = f.rename(sx) if any(s in sx for s in f.t) else f
            if fj not in J.facts:
                facts.append(fj)
            # a payload symbol that is also the source of a phi elsewhere (the same value sits in a local that is
            # merged and in a variant's payload that is not): the variant keeps the fact about the symbol itself too
            if prefer and fj is not f and any(s in prefer and s in sx for s in f.t) and f not in J.facts and f not in facts:
                facts.append(f)
            if prefer and fj is not f:
                for fj2, _ in self._alt_renames(f, side_a):
                    if fj2 not in J.facts and fj2 not in facts and any(s in prefer for s in fj2.t):
                        facts.append(fj2)
        if len(iv) > 64:
            iv = dict(list(iv.items())[:64])
        if prefer and len(facts) > 24:
            facts.sort(key=lambda f_: 0 if any(s_ in prefer for s_ in f_.t) else 1)
        if first and len(facts) > 24:
            ff = {(f_.rename(sx) if any(s_ in sx for s_ in f_.t) else f_) for f_ in first}
            facts.sort(key=lambda f_: 0 if f_ in ff else 1)
        facts = facts[:24]
        gen = {}
        for s in iv:
            gen[s] = J.gen.get(s, 0)
        for f in facts:
            for s in f.t:
                gen[s] = J.gen.get(s, 0)
        lost = self.lost_ef_a if side_a else self.lost_ef_b
        ef = {ln: tuple(sorted(ts, key=repr)) for ln, ts in lost.items()} if lost else None
        return Delta(iv, facts, gen, ef)

    def _join_delta(self, a, b):
        iv = {}
        for s in a.iv:
            if s in b.iv:
                j = D.join(a.iv[s], b.iv[s])
                jv = self.J.iv.get(s)
                if jv is None or j != jv:
                    iv[s] = j
        facts = [f for f in a.facts if f in b.facts]
        gen = None
        if a.gen is not None and b.gen is not None:
            gen = dict(a.gen)
            gen.update(b.gen)
        ef = {ln: tuple(t for t in ts if t in b.ef.get(ln, ())) for ln, ts in a.ef.items() if ln in b.ef}
        ef = {ln: ts for ln, ts in ef.items() if ts}
        return Delta(iv, facts, gen, ef)


def _merge_deltas(ds):
    """Conjunction of conditional refinements (all of them hold)."""
    ds = [d for d in ds if d is not None]
    if not ds:
        return None
    if len(ds) == 1:
        return ds[0]
    iv = {}
    facts = []
    ef = {}
    gen = {}
    for d in ds:
        for s_, v in d.iv.items():
            cur = iv.get(s_)
            iv[s_] = v if cur is None else D.meet(cur, v)
        for f in d.facts:
            if f not in facts:
                facts.append(f)
        for ln, ts in (d.ef or {}).items():
            ef[ln] = tuple(ef.get(ln, ())) + tuple(t for t in ts if t not in ef.get(ln, ()))
        if d.gen:
            gen.update(d.gen)
    return Delta(iv, facts, gen or None, ef)


def _merge_logs(a, b):
    # keep the common prefix; mark divergence
    n = 0
    while n < len(a) and n < len(b) and a[n] == b[n]:
        n += 1
    return a[:n] + (("diverged",),) if (len(a) > n or len(b) > n) else a[:n]


def join(A, B, at, widen=None, first=True):
    if A is B:
        return A
    return Joiner(A, B, at, widen, first).run()
