"""Accept regions (DESIGN §4.5): analyse a validator on the top box and project the state of each
return case (variant path of the returned value) on chosen input symbols."""
from . import domain as D
from .exec import Exec
from .invariants import INVARIANTS
from .models import M
from . import models2  # noqa: F401
from .values import Arr, Enum, Ref, Scalar, Seq, Struct


def variant_cases(I, S, v, path=(), depth=0):
    """Yield (variant path, state with the conditional refinements of that path applied, payload)."""
    if isinstance(v, Enum) and depth < 5:
        for k, fs in v.variants.items():
            Sk = S
            d = v.when.get(k)
            if d is not None and (d.iv or d.facts or d.ef):
                Sk = S.copy()
                Sk.apply_delta(d)
            if Sk.dead:
                continue
            # descend into a single enum payload (error enums nested in error enums)
            inner = [f for f in fs if isinstance(f, Enum)]
            if len(fs) == 1 and inner:
                for x in variant_cases(I, Sk, fs[0], path + (k,), depth + 1):
                    yield x
            else:
                yield path + (k,), Sk, fs
    else:
        yield path, S, (v,)


def analyse(facts, root_name, make_args=None, invariants=INVARIANTS):
    I = Exec(facts, M, invariants)
    insts = [i for i in facts.instances if i["name"] == root_name]
    if not insts:
        return None
    inst = insts[0]
    R, frame, args = I.analyse_root(inst, make_args)
    cases = []
    if R is not None:
        ret = R.cells.get((frame, 0))
        for path, S, payload in variant_cases(I, R, ret):
            cases.append({"path": path, "state": S, "payload": payload})
    return {"I": I, "inst": inst, "args": args, "frame": frame, "state": R, "cases": cases}


def arg_sym(I, S, args, sel):
    """sel: tuple; first element is the argument index, then field indices / 'deref' / 'len' / ('variant', name, i)."""
    v = args[sel[0]]
    for s in sel[1:]:
        if isinstance(v, Ref) and s != "deref" and v.cell is not None:
            v = I.read(S, v.cell, v.path, ("probe",))
        if s == "deref":
            if isinstance(v, Ref) and v.cell is not None:
                v = I.read(S, v.cell, v.path, ("probe",))
        elif s == "len":
            if isinstance(v, Seq):
                return v.len
            return None
        elif isinstance(s, tuple) and s[0] == "variant":
            if isinstance(v, Enum) and s[1] in v.variants:
                v = v.variants[s[1]][s[2]]
            else:
                return None
        elif isinstance(s, int):
            if isinstance(v, Struct) and s < len(v.fields):
                v = v.fields[s]
            elif isinstance(v, Arr) and s < len(v.elems):
                v = v.elems[s]
            else:
                return None
    return v.sym if isinstance(v, Scalar) else None


def region(I, case, args, sel):
    s = arg_sym(I, case["state"], args, sel)
    if s is None:
        return None
    return case["state"].ivof(s)
