"""One shared E-AI pass per configuration, cached by the hash of the analysed facts and of the
analyser's own sources (a cache hit means: byte-identical program, byte-identical checker)."""
import glob
import hashlib
import json
import os
import time

from ..facts import VERIF
from . import lemmas, run
from .invariants import INVARIANTS

CACHE = os.path.join(VERIF, ".cache")


def _code_hash():
    h = hashlib.sha256()
    for p in sorted(glob.glob(os.path.join(os.path.dirname(__file__), "*.py"))):
        h.update(open(p, "rb").read())
    return h.hexdigest()


def facts_hash(facts):
    return facts.hash


def static_sites(facts):
    """Universe of panic-relevant sites in monomorphic bodies (for floors and 'unreached' accounting)."""
    out = {"assert": 0, "assert_kinds": {}, "casts": 0, "narrowing_casts": 0, "panic_calls": 0, "fnptr_calls": 0, "calls_local": 0, "calls_extern": 0, "instances": len(facts.instances)}
    sites = {}
    for inst in facts.instances:
        n_ord = {}
        for b in inst["body"]["blocks"]:
            if b.get("cleanup"):
                continue
            for st in b["stmts"]:
                if st["k"] == "assign" and st["rv"]["k"] == "cast" and st["rv"]["ck"] == "IntToInt":
                    out["casts"] += 1
            t = b["term"]
            if t["k"] == "assert":
                m = t["msg"]
                kind = "ASSERT:" + m["k"] + ((":" + m["op"]) if "op" in m else "")
                out["assert"] += 1
                out["assert_kinds"][kind] = out["assert_kinds"].get(kind, 0) + 1
                o = n_ord.get(kind, 0)
                n_ord[kind] = o + 1
                sites[(inst["name"], kind, "#%d" % o)] = t.get("span")
            elif t["k"] == "call":
                f = t["f"]
                if f["k"] == "ptr":
                    out["fnptr_calls"] += 1
                elif f["k"] == "item":
                    r = f["resolved"] or f["declared"]
                    if r.get("local"):
                        out["calls_local"] += 1
                    else:
                        out["calls_extern"] += 1
                        if r["def"].startswith("core::panicking::"):
                            out["panic_calls"] += 1
                            k2 = "CALL:" + r["def"]
                            o = n_ord.get(k2, 0)
                            n_ord[k2] = o + 1
                            sites[(inst["name"], "PANIC-CALL", r["def"] + "#%d" % o)] = t.get("span")
    return out, sites


def run_pipeline(facts, use_cache=True):
    key = facts_hash(facts)[:24] + "-" + _code_hash()[:16]
    path = os.path.join(CACHE, "ai-%s.json" % key)
    if use_cache and os.path.exists(path):
        with open(path) as f:
            res = json.load(f)
        res["cache_hit"] = True
        return res
    tmap = run.adt_type_entries(facts)

    def extra(I, inst, R, frame, args):
        return run.check_invariants(I, inst, R, frame, args, INVARIANTS, tmap)

    t0 = time.time()
    obls, notes, errs, col, stats = run.analyse_parallel(facts, INVARIANTS, None, extra=extra)
    side = stats.pop("side")
    st, sites = static_sites(facts)
    res = {
        "config": facts.config,
        "facts_hash": key,
        "stats": stats,
        "errors": errs,
        "notes": [list(n) for n in notes],
        "obligations": [{"inst": o["inst"], "kind": o["kind"], "detail": o["detail"], "where": o["where"], "ok": o["ok"], "contexts": o["contexts"], "fail": [x for x in o["fail"] if x][:2], "n_fail": len(o["fail"])} for o in obls.values()],
        "inv": col,
        "loops": [{"function": k[0], "loop": k[1], "ok": v[0], "why": v[1], "where": v[2]} for k, v in sorted(side["loops"].items())],
        "forall": side["forall"],
        "contracts": side["contracts"],
        "lemma_uses": side["lemma_uses"],
        "static": st,
        "static_sites": [[k[0], k[1], k[2], v] for k, v in sites.items()],
        "instance_names": [i["name"] for i in facts.instances],
        "analysed_instances": sorted(side["analysed"]),
        "wall_s": round(time.time() - t0, 1),
        "cache_hit": False,
    }
    os.makedirs(CACHE, exist_ok=True)
    tmp = path + ".tmp%d" % os.getpid()
    with open(tmp, "w") as f:
        json.dump(res, f)
    os.replace(tmp, path)
    # keep the cache small
    files = sorted(glob.glob(os.path.join(CACHE, "ai-*.json")), key=os.path.getmtime)
    for old in files[:-8]:
        try:
            os.remove(old)
        except OSError:
            pass
    return res
