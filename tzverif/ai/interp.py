"""E-AI: forward abstract interpreter over monomorphic MIR (inlining calls in the caller's context)."""
import sys

from . import domain as D
from .domain import Lin
from .join import Joiner, join
from .state import State, SymTab
from .values import BOT, Arr, Bot, BoxU, Delta, Enum, Fn, FnPtr, Iter, Opaque, Ref, Scalar, Seq, Struct, Val, val_syms

sys.setrecursionlimit(40000)

ORDERING = {"Less": -1, "Equal": 0, "Greater": 1}
MAX_DEPTH = 40  # crate call chains are ~12 deep; helper extraction adds levels (recursion is refused separately)
MAX_VISITS = 40


class Unsupported(Exception):
    pass


class Obligation:
    __slots__ = ("key", "kind", "inst", "where", "detail", "ok", "fail", "contexts", "reached")

    def __init__(self, key, kind, inst, where, detail):
        self.key = key
        self.kind = kind
        self.inst = inst
        self.where = where
        self.detail = detail
        self.ok = 0
        self.fail = []
        self.contexts = 0


class Interp:
    def __init__(self, facts, models, invariants=None, trace=False):
        self.f = facts
        self.types = facts.types
        self.st = SymTab()
        self.models = models
        from .invariants import bind

        self.inv = bind(invariants, facts)
        self.obls = {}
        self.notes = []  # UNMODELLED etc.
        self.trace = trace
        self.ptr_bits = facts.d["config"]["ptr_bits"]
        self.inst_by_id = {i["id"]: i for i in facts.instances}
        self.stack = []
        self.loops = {}  # inst id -> set of loop heads
        self.thresholds = {}
        self.hooks = []  # observers: fn(event, **kw)
        self.root_name = None
        self.call_log = []
        self.site_results = {}
        self.children = {}
        self.cur_frame = None
        from . import join as _j

        _j.INTERP = self
        self.contracts = {}
        self.contract_uses = {}
        self.lemma_uses = {}
        self.loop_reports = {}
        self.alloc_reports = {}
        self.iter_sites = {}
        self.elem_of = {}
        self.forall_established = []
        self.elem_idx_term = {}
        self.loop_reads = []  # counting loops: start value and element offsets read, per sequence (coverage rules)

    # ------------------------------------------------------------------ types
    def int_range(self, t):
        if t["k"] == "int":
            b = t["bits"]
            return (-(1 << (b - 1)), (1 << (b - 1)) - 1) if t["signed"] else (0, (1 << b) - 1)
        if t["k"] == "bool":
            return (0, 1)
        if t["k"] == "char":
            return (0, 0x10FFFF)
        return None

    def is_scalar(self, tid):
        return self.types[tid]["k"] in ("int", "bool", "char")

    def fresh(self, key, tid_or_rng, S, iv=None, lin=None):
        rng = tid_or_rng if isinstance(tid_or_rng, tuple) else self.int_range(self.types[tid_or_rng])
        if rng is None:
            raise Unsupported("fresh symbol of non-scalar type %s" % self.types[tid_or_rng]["s"])
        s = self.st.get(key, rng)
        S.define(s, iv if iv is not None else D.rng(rng[0], rng[1]), lin)
        return s

    def const_sym(self, v, rng, S):
        s = self.st.get(("const", v, rng), rng)
        if s not in S.iv:
            S.iv[s] = D.point(v)
        return s

    def usize_rng(self):
        return (0, (1 << self.ptr_bits) - 1)

    def len_rng(self):
        """Range of any slice / Vec / str length (language guarantee: at most isize::MAX bytes)."""
        return (0, (1 << (self.ptr_bits - 1)) - 1)

    def max_len(self, elem_size=1):
        return ((1 << (self.ptr_bits - 1)) - 1) // max(1, elem_size)

    # ------------------------------------------------------------------ obligations
    def oblige(self, kind, inst, bb, detail, ok, S, where=None, extra=None):
        """Record the verdict of an obligation for the current activation.  A block may be visited
        several times before the fixpoint is reached; only the verdict of its last visit (the one
        on the fixpoint state) counts, so results are keyed by (activation frame, block, site)."""
        frame = self.cur_frame
        self.site_results.setdefault(frame, {})[(bb, kind, detail)] = (inst["name"], where, ok, None if ok else {"context": " → ".join(self.context()), "state": extra or ""})
        return ok

    def forget_block(self, frame, bi):
        """Drop verdicts recorded by an earlier visit of block bi of `frame`, including those of
        all activations nested in calls made by that block."""
        d = self.site_results.get(frame)
        if d:
            for k in [k for k in d if k[0] == bi]:
                del d[k]
        stack = list(self.children.pop((frame, bi), ()))
        while stack:
            fr = stack.pop()
            self.site_results.pop(fr, None)
            for key in [k for k in self.children if k[0] == fr]:
                stack.extend(self.children.pop(key))

    def fold_site_results(self):
        flat = [((frame,) + k, v) for frame, d in self.site_results.items() for k, v in d.items()]
        for (frame, bb, kind, detail), (iname, where, ok, info) in flat:
            key = (iname, kind, detail)
            o = self.obls.get(key)
            if o is None:
                o = self.obls[key] = Obligation(key, kind, iname, where, detail)
            o.contexts += 1
            if ok:
                o.ok += 1
            elif len(o.fail) < 3:
                o.fail.append(info)
            else:
                o.fail.append(None)
        self.site_results = {}
        self.children = {}

    def context(self):
        return [self.root_name or "?"] + [n for n in self.stack]

    def note(self, kind, msg, where=None):
        self.notes.append((kind, msg, where, " → ".join(self.context())))

    # ------------------------------------------------------------------ constants
    def const_val(self, k, S, key):
        """Abstract value of an exported constant {ty, v}."""
        return self.cv(k["v"], k["ty"], S, key)

    def cv(self, v, tid, S, key):
        t = self.types[tid]
        if "int" in v:
            rng = self.int_range(t)
            if rng is None:
                return Opaque(tid)
            return Scalar(self.const_sym(v["int"], rng, S))
        if "fn" in v:
            return Fn({"def": v["fn"], "key": v.get("key"), "args": v.get("args", []), "ty": tid})
        if "fnptr" in v:
            if v.get("closure"):
                return FnPtr(Struct("closure:%s@" % v.get("key"), []), tid)
            return FnPtr(Fn({"def": v["fnptr"], "key": v.get("key"), "args": []}), tid)
        if "ref" in v:
            inner_t = t["to"] if t["k"] in ("ref", "ptr") else None
            cell = ("k", key)
            if cell not in S.cells:
                # the pointee gets its own key: a reference to a reference (`&&str` of a promoted `&"lit"`) must not
                # end up stored in the cell it points to
                S.cells[cell] = self.cv_pointee(v["ref"], inner_t, S, key + ("*",))
            return Ref(cell, (), False)
        if "tup" in v:
            if t["k"] == "tuple":
                return Struct("tuple", [self.cv(x, et, S, key + (i,)) for i, (x, et) in enumerate(zip(v["tup"], t["elems"]))])
            return Opaque(tid)
        if "arr" in v:
            return self.cv_pointee(v, tid, S, key)
        if "adt" in v:
            return self.cv_adt(v, tid, S, key)
        if "zst" in v:
            if t["k"] == "closure":
                return Struct("closure:%s@" % t["key"], [])
            if t["k"] == "tuple" and not t["elems"]:
                return Struct("tuple", [])
            return Opaque(tid)
        return Opaque(tid)

    def cv_pointee(self, v, tid, S, key):
        t = self.types[tid] if tid is not None else None
        if "str" in v:
            data = v["str"].encode("utf-8")
            ln = self.const_sym(len(data), self.len_rng(), S)
            el = None
            if data:
                s = self.st.get(("strbytes", key), (0, 255))
                S.iv[s] = D.norm([(b, b) for b in data])
                el = Scalar(s)
            return Seq("str", ln, el, (), data, frozenset())
        if "arr" in v:
            et = t["elem"] if t is not None and t["k"] in ("array", "slice") else None
            if et is None:
                return Opaque(tid)
            elems = [self.cv(x, et, S, key + (i,)) for i, x in enumerate(v["arr"])]
            if t["k"] == "array" and len(elems) <= 32:
                return Arr(elems)
            data = None
            if all("int" in x for x in v["arr"]) and self.types[et]["k"] == "int" and self.types[et]["bits"] == 8:
                data = bytes(x["int"] & 255 for x in v["arr"])
            ln = self.const_sym(len(elems), self.len_rng(), S)
            el = None
            if elems:
                J = Joiner(S, S, ("constarr", key))
                el = elems[0]
                for e in elems[1:]:
                    el = J.val(el, e, ("e",))
                for p, a, b in J.phis:
                    S.iv[p] = D.join(S.ivof(a), S.ivof(b)) if p not in S.iv else D.join(S.iv[p], D.join(S.ivof(a), S.ivof(b)))
            return Seq("slice", ln, el, (), data, frozenset())
        if t is not None:
            return self.cv(v, tid, S, key)
        return Opaque(tid)

    def cv_adt(self, v, tid, S, key):
        t = self.types[tid]
        if t["k"] != "adt" or "variants" not in t:
            return Opaque(tid)
        var = None
        for vv in t["variants"]:
            if vv["name"] == v["variant"]:
                var = vv
        if var is None:
            return Opaque(tid)
        fields = [self.cv(x, fd["ty"], S, key + (i,)) for i, (x, fd) in enumerate(zip(v["fields"], var["fields"]))]
        if t.get("adt_kind") == "enum":
            return Enum(t["path"], {v["variant"]: tuple(fields)})
        return Struct(t["path"], fields)

    # ------------------------------------------------------------------ top values
    def top(self, tid, S, key, depth=0):
        """Most general abstract value of a type; crate types carry their invariants (assume side)."""
        t = self.types[tid]
        k = t["k"]
        if k in ("int", "bool", "char"):
            return Scalar(self.fresh(("top",) + key, tid, S))
        if depth > 12:
            return Opaque(tid)
        if k in ("ref", "ptr"):
            cell = ("g",) + key
            S.cells[cell] = self.top_pointee(t["to"], S, key + ("*",), depth + 1)
            return Ref(cell, (), t["mut"])
        if k == "tuple":
            return Struct("tuple", [self.top(e, S, key + (i,), depth + 1) for i, e in enumerate(t["elems"])])
        if k == "array":
            n = t["len"]
            if n is not None and n <= 32:
                return Arr([self.top(t["elem"], S, key + (("i", i),), depth + 1) for i in range(n)])
            return self.top_seq("array", t["elem"], S, key, depth, fixed=n)
        if k == "adt":
            return self.top_adt(tid, S, key, depth)
        if k == "fnptr":
            return FnPtr(None, tid)
        if k == "fndef":
            return Fn({"def": t["path"], "key": t.get("key"), "args": t.get("args", [])})
        if k == "closure":
            return Struct("closure:%s@" % t["key"], [self.top(u, S, key + (i,), depth + 1) for i, u in enumerate(t["upvars"])])
        if k == "never":
            return BOT
        return Opaque(tid)

    def top_pointee(self, tid, S, key, depth):
        t = self.types[tid]
        if t["k"] == "slice":
            return self.top_seq("slice", t["elem"], S, key, depth)
        if t["k"] == "str":
            ln = self.fresh(("toplen",) + key, self.len_rng(), S, D.rng(0, self.max_len()))
            el = Scalar(self.fresh(("topel",) + key, (0, 255), S))
            return Seq("str", ln, el, (), None, frozenset())
        return self.top(tid, S, key, depth)

    def elem_size(self, tid):
        t = self.types[tid]
        if t["k"] == "int":
            return max(1, t["bits"] // 8)
        if t["k"] in ("bool",):
            return 1
        if t["k"] == "char":
            return 4
        if t["k"] == "tuple":
            return max(1, sum(self.elem_size(e) for e in t["elems"]))
        if t["k"] == "adt" and "variants" in t:
            return max(1, max([sum(self.elem_size(f["ty"]) for f in v["fields"]) for v in t["variants"]] or [1]))
        if t["k"] in ("ref", "ptr", "fnptr"):
            return self.ptr_bits // 8
        if t["k"] == "array":
            return max(1, (t["len"] or 1) * self.elem_size(t["elem"]))
        return 1

    def top_seq(self, kind, et, S, key, depth, fixed=None):
        if fixed is not None:
            ln = self.const_sym(fixed, self.len_rng(), S)
        else:
            ln = self.fresh(("toplen",) + key, self.len_rng(), S, D.rng(0, self.max_len(self.elem_size(et))))
        el = self.top(et, S, key + ("elem",), depth + 1)
        return Seq(kind, ln, el, (), None, frozenset())

    def top_adt(self, tid, S, key, depth):
        t = self.types[tid]
        p = t["path"]
        if p == "alloc::vec::Vec":
            et = [a["t"] for a in t["args"] if isinstance(a, dict) and "t" in a][0]
            return self.top_seq("vec", et, S, key, depth)
        if p == "alloc::string::String":
            ln = self.fresh(("toplen",) + key, self.len_rng(), S, D.rng(0, self.max_len()))
            return Seq("string", ln, Scalar(self.fresh(("topel",) + key, (0, 255), S)), (), None, frozenset())
        if p == "alloc::boxed::Box":
            return Opaque(tid)
        if "variants" not in t:
            return Opaque(tid)
        if t.get("adt_kind") == "enum":
            vs = {}
            for v in t["variants"]:
                vs[v["name"]] = tuple(self.top(f["ty"], S, key + (v["name"], i), depth + 1) for i, f in enumerate(v["fields"]))
            if not vs:
                return BOT
            return Enum(p, vs)
        v = t["variants"][0]
        fields = [self.top(f["ty"], S, key + (i,), depth + 1) for i, f in enumerate(v["fields"])]
        val = Struct(p, fields)
        inv = self.inv.get(p)
        if inv is not None:
            val = inv.assume(self, val, t, S, key)
        return val

    # ------------------------------------------------------------------ joins of values inside one state
    def join_vals(self, S, vals, key):
        vals = [v for v in vals if not isinstance(v, Bot)]
        if not vals:
            return BOT
        out = vals[0]
        for n, v in enumerate(vals[1:]):
            J = Joiner(S, S, ("jv", key, n))
            out = J.val(out, v, ())
            for p, a, b in J.phis:
                S.define(p, D.join(S.ivof(a), S.ivof(b)))
            # bounds both alternatives share (x <= t + c for a symbol t one of them is related to) hold for the merged value
            for p, a, b in J.phis[:8]:
                if self.st.range(p) == (0, 1):
                    continue
                cands = set()
                for f in S.facts:
                    if a in f.t or b in f.t:
                        cands.update(x for x in f.t if x not in (a, b, p) and not isinstance(x, tuple))
                for t in sorted(cands)[:6]:
                    for sign in (1, -1):
                        for c in (1, 0, -1):
                            ga = S.term(a).sub(S.term(t)).scale(sign).addc(c)
                            gb = S.term(b).sub(S.term(t)).scale(sign).addc(c)
                            if S.entails(ga, False) and S.entails(gb, False):
                                S.add_fact(Lin({p: 1}).sub(S.term(t)).scale(sign).addc(c))
                                break
        return out

    def freshen(self, v, S, key, efacts=(), _path=(), elem_of=None, prov=None, off=None, from_end=None):
        """Copy of a summary value with fresh symbols (one concrete element of a smashed sequence).
        elem_of = (len symbol of the sequence, index symbol, block): remember which element this is."""
        m = {}

        def go(x, path):
            if isinstance(x, Scalar):
                s = self.fresh(("el", key, path), self.st.range(x.sym), S, S.ivof(x.sym))
                m[path] = s
                return Scalar(s)
            if isinstance(x, Struct):
                return Struct(x.path, [go(f, path + (i,)) for i, f in enumerate(x.fields)])
            if isinstance(x, Enum):
                return Enum(x.path, {k: tuple(go(f, path + (k, i)) for i, f in enumerate(fs)) for k, fs in x.variants.items()})
            if isinstance(x, Arr):
                return Arr([go(e, path + (("i", i),)) for i, e in enumerate(x.elems)])
            return x

        out = go(v, ())
        for fpath, lin in efacts:
            s = m.get(fpath)
            if s is not None:
                S.add_fact(S.expand(lin.rename({("ELEM",): s})))
        if elem_of is not None:
            for fpath, s in m.items():
                self.elem_of[s] = elem_of + (fpath,)
                if not isinstance(elem_of[1], tuple):
                    self.elem_idx_term[s] = S.term(elem_of[1])  # the index as known when the element was read
        if prov and self.hooks:
            for h in self.hooks:
                h("elem_read", interp=self, prov=prov, off=off, value=out, state=S, index=(elem_of[1] if elem_of is not None and not isinstance(elem_of[1], tuple) else None), from_end=from_end)
        return out

    # ------------------------------------------------------------------ memory
    def read(self, S, cell, path, site):
        if cell is None:
            return Opaque()
        if isinstance(cell, tuple) and cell and cell[0] == "multi":
            return self.join_vals(S, [self.read(S, c, p + tuple(path), site + (n,)) for n, (c, p) in enumerate(cell[1])], site)
        v = S.cells.get(cell, BOT)
        return self.nav(S, v, path, site, cell)

    @staticmethod
    def memo_path(path, S=None):
        """Key of an element read: `s[0]` (index operand with the constant value 0) and the pattern / `first()` form
        (constant index 0 from the start) are the same element."""
        last = path[-1]
        if last[0] == "ci" and not last[3]:
            return path[:-1] + (("at", last[1]),)
        if last[0] == "idx" and S is not None:
            iv = S.ivof(last[1])
            if D.is_point(iv):
                return path[:-1] + (("at", D.lo(iv)),)
        return path

    def nav(self, S, v, path, site, cell=None):
        variant = None
        for n, pe in enumerate(path):
            tag = pe[0]
            if cell is not None and isinstance(v, Seq) and tag in ("idx", "ci") and v.elem is not None:
                # same element of the same sequence value read again in this straight-line state
                mk = (cell, self.memo_path(tuple(path[: n + 1]), S))
                hit = S.emem.get(mk)
                if hit is not None and hit[0] is v:
                    v = hit[1]
                    continue
                seq0 = v
            else:
                mk = None
            if isinstance(v, Opaque):
                return Opaque()
            if isinstance(v, Bot):
                return BOT
            if tag == "f":
                if isinstance(v, Enum):
                    fs = v.variants.get(variant)
                    if fs is None:
                        return BOT
                    v = fs[pe[1]] if pe[1] < len(fs) else Opaque()
                    variant = None
                elif isinstance(v, Struct):
                    v = v.fields[pe[1]] if pe[1] < len(v.fields) else Opaque()
                elif isinstance(v, BoxU):
                    pass  # `.0.pointer` of an uninit box: still the box
                elif isinstance(v, Seq) and v.kind in ("vec", "string"):
                    return Opaque()
                else:
                    return Opaque()
            elif tag == "v":
                if isinstance(v, Enum):
                    variant = pe[1]
                else:
                    return Opaque()
            elif tag == "idx":
                s = pe[1]
                if isinstance(v, Arr):
                    iv = D.meet(S.ivof(s), D.rng(0, len(v.elems) - 1))
                    ks = D.values(iv, 64)
                    if ks is None or not ks:
                        ks = range(len(v.elems)) if ks is None else []
                    if len(ks) == 1:
                        v = v.elems[ks[0]]
                    else:
                        v = self.join_vals(S, [v.elems[k] for k in ks], site + (n,))
                elif isinstance(v, Seq):
                    v = self.freshen(v.elem, S, site + (n,), v.efacts, elem_of=(v.len, s, site[1] if len(site) > 1 else None), prov=v.prov) if v.elem is not None else BOT
                    if mk is not None:
                        S.emem[mk] = (seq0, v)
                else:
                    return Opaque()
            elif tag == "ci":
                _, off, _minlen, fe = pe
                if isinstance(v, Arr):
                    k = len(v.elems) - off if fe else off
                    v = v.elems[k] if 0 <= k < len(v.elems) else BOT
                elif isinstance(v, Seq):
                    v = self.freshen(v.elem, S, site + (n,), v.efacts, elem_of=((v.len, ("ci", off), site[1] if len(site) > 1 else None) if not fe else None), prov=v.prov, off=(None if fe else off), from_end=(off if fe else None)) if v.elem is not None else BOT
                    if mk is not None:
                        S.emem[mk] = (seq0, v)
                else:
                    return Opaque()
            elif tag == "sub":
                _, a, b, fe = pe
                if isinstance(v, Arr):
                    v = Arr(v.elems[a:(len(v.elems) - b) if fe else b])
                elif isinstance(v, Seq):
                    if fe:
                        l2 = S.term(v.len).addc(-(a + b))
                    else:
                        l2 = Lin.const(b - a)
                    ns = self.fresh(("sublen", site, n), self.len_rng(), S, D.meet(S.eval(l2), D.rng(0, self.max_len())), l2)
                    v = Seq(v.kind, ns, v.elem, v.efacts, None, v.prov)
                else:
                    return Opaque()
            elif tag == "elem":
                if isinstance(v, Seq):
                    v = self.freshen(v.elem, S, site + (n,), v.efacts, prov=v.prov) if v.elem is not None else BOT
                elif isinstance(v, Arr):
                    v = self.join_vals(S, list(v.elems), site + (n,))
                else:
                    return Opaque()
            else:
                raise Unsupported("path element %r" % (pe,))
        if variant is not None and isinstance(v, Enum):
            return Enum(v.path, {variant: v.variants[variant]}) if variant in v.variants else BOT
        return v

    def write(self, S, cell, path, val, site, weak=False):
        if cell is None:
            return
        if isinstance(cell, tuple) and cell and cell[0] == "multi":
            for n, (c, p) in enumerate(cell[1]):
                self.write(S, c, p + tuple(path), val, site + (n,), weak=True)
            return
        old = S.cells.get(cell, BOT)
        S.cells[cell] = self.upd(S, old, tuple(path), val, site, weak)

    def upd(self, S, v, path, val, site, weak):
        if not path:
            if weak and not isinstance(v, Bot):
                return self.join_vals(S, [v, val], site + ("w",))
            return val
        pe = path[0]
        tag = pe[0]
        rest = path[1:]
        if isinstance(v, BoxU):
            # write into the buffer of an uninitialised box (expansion of vec![..])
            S.cells[v.cell] = val
            return v
        if tag == "f":
            if isinstance(v, Struct) and pe[1] < len(v.fields):
                fs = list(v.fields)
                fs[pe[1]] = self.upd(S, fs[pe[1]], rest, val, site, weak)
                return Struct(v.path, fs)
            return Opaque() if not isinstance(v, Bot) else BOT
        if tag == "v":
            if isinstance(v, Enum) and rest and rest[0][0] == "f":
                name = pe[1]
                fs = list(v.variants.get(name, ()))
                i = rest[0][1]
                if i < len(fs):
                    fs[i] = self.upd(S, fs[i], rest[1:], val, site, weak)
                    vs = dict(v.variants)
                    vs[name] = tuple(fs)
                    return Enum(v.path, vs, v.when)
            return Opaque()
        if tag in ("idx", "ci", "elem"):
            if isinstance(v, Arr):
                n = len(v.elems)
                if tag == "idx":
                    iv = D.meet(S.ivof(pe[1]), D.rng(0, n - 1))
                    ks = D.values(iv, 64) or []
                elif tag == "ci":
                    ks = [n - pe[1] if pe[3] else pe[1]]
                else:
                    ks = list(range(n))
                es = list(v.elems)
                strong = len(ks) == 1 and not weak
                for k in ks:
                    if 0 <= k < n:
                        es[k] = self.upd(S, es[k], rest, val, site + (k,), not strong)
                return Arr(es)
            if isinstance(v, Seq):
                el = v.elem
                new = self.upd(S, el if el is not None else BOT, rest, val, site, True)
                return Seq(v.kind, v.len, new, (), None, v.prov)
            return Opaque()
        if tag == "sub":
            return v  # writes through sub-slice views are weak on the whole (not used by tz-rs)
        raise Unsupported("write path element %r" % (pe,))

    # ------------------------------------------------------------------ places
    def resolve(self, S, frame, place, site):
        """-> (cell, path).  Follows derefs through Ref values."""
        cell = (frame, place["l"])
        path = ()
        for n, pr in enumerate(place["p"]):
            if pr == "deref":
                v = self.read(S, cell, path, site + ("d", n))
                if isinstance(v, Ref):
                    cell, path = v.cell, tuple(v.path)
                    if cell is None:
                        return None, ()
                elif isinstance(v, BoxU):
                    cell, path = ("boxu-ptr", v.cell), ()
                    if cell not in S.cells:
                        S.cells[cell] = v
                else:
                    return None, ()
            elif isinstance(pr, dict):
                if "f" in pr:
                    path = path + (("f", pr["f"]),)
                elif "dc" in pr:
                    path = path + (("v", pr["dc"]),)
                elif "idx" in pr:
                    iv = self.read(S, (frame, pr["idx"]), (), site + ("i", n))
                    if not isinstance(iv, Scalar):
                        return None, ()
                    path = path + (("idx", iv.sym),)
                elif "ci" in pr:
                    path = path + (("ci", pr["ci"][0], pr["ci"][1], pr["ci"][2]),)
                elif "sub" in pr:
                    path = path + (("sub", pr["sub"][0], pr["sub"][1], pr["sub"][2]),)
                else:
                    raise Unsupported("projection %r" % pr)
            else:
                raise Unsupported("projection %r" % (pr,))
        return cell, path

    def read_place(self, S, frame, place, site):
        cell, path = self.resolve(S, frame, place, site)
        if cell is None:
            return Opaque()
        return self.read(S, cell, path, site)

    def write_place(self, S, frame, place, val, site):
        cell, path = self.resolve(S, frame, place, site)
        if cell is None:
            return
        self.write(S, cell, path, val, site)

    def operand(self, S, frame, op, site):
        if "c" in op:
            return self.read_place(S, frame, op["c"], site)
        if "m" in op:
            return self.read_place(S, frame, op["m"], site)
        if "k" in op:
            return self.const_val(op["k"], S, ("k", self.cur_inst["id"]) + site)
        return Opaque()
