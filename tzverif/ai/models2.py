"""Model table, part 2: iterators, integers, strings, Vec, fmt, clock/filesystem."""
from . import domain as D
from .domain import Lin
from .models import CF, OPT, RES, UNIT, M, as_seq, bool_cmp, bool_top, call_callable, derived, elem_ref, len_sym, none, option, result, ret_int_rng, scalar_arg, seq_of, some, sub_seq, ty_args
from .values import BOT, Arr, Bot, BoxU, Delta, Enum, Fn, FnPtr, Iter, Opaque, Ref, Scalar, Seq, Struct, Val

# ----------------------------------------------------------------------------- iterators


def to_iter(ctx, v, tag="it"):
    """IntoIterator: iterators are themselves; references to sequences become slice iterators."""
    if isinstance(v, Iter):
        return v
    if isinstance(v, Ref):
        tgt = ctx.deref(v, tag)
        if isinstance(tgt, (Seq, Arr)):
            return Iter("slice", v)
        if isinstance(tgt, Iter):
            return tgt
        if isinstance(tgt, Ref):
            return to_iter(ctx, tgt, tag + "'")
    if isinstance(v, (Seq, Arr)):
        return Iter("slice", derived(ctx, v, "byval"))
    return Iter("opaque", None, None, None, False)


@M.reg("core::slice::<impl [T]>::iter", "core::slice::<impl [T]>::iter_mut")
def m_iter(ctx):
    return Iter("slice", ctx.args[0])


@M.reg("<I as core::iter::traits::collect::IntoIterator>::into_iter")
def m_into_iter(ctx):
    return to_iter(ctx, ctx.args[0])


@M.reg_re(r"IntoIterator for &'a (mut )?(\[T\]|\[T; N\]|alloc::vec::Vec<T, A>)>::into_iter$")
def m_into_iter_ref(ctx):
    return to_iter(ctx, ctx.args[0])


@M.reg("core::slice::<impl [T]>::chunks_exact", "core::slice::<impl [T]>::chunks_exact_mut", "core::slice::<impl [T]>::windows", "core::slice::<impl [T]>::chunks")
def m_chunks(ctx):
    S, I = ctx.S, ctx.I
    n = scalar_arg(ctx, ctx.args[1])
    ok = n is not None and D.lo(S.ivof(n)) >= 1
    ctx.pre("chunk size != 0", ok)
    name = ctx.r["def"].rsplit("::", 1)[1]
    ref = ctx.args[0]
    if name == "chunks_exact_mut" and isinstance(ref, Ref) and ref.cell is not None:
        # chunks may be permuted / written through: smash the parent array to its summary
        v = ctx.deref(ref)
        if isinstance(v, Arr) and v.elems:
            q = as_seq(ctx, v, "cm")
            I.write(S, ref.cell, ref.path, Arr([q.elem] * len(v.elems)), ctx.site + ("cmw",))
    return Iter("windows" if name == "windows" else ("chunks_var" if name == "chunks" else "chunks"), ref, None, n)


@M.reg("core::iter::traits::iterator::Iterator::zip")
def m_zip(ctx):
    a, b = to_iter(ctx, ctx.args[0], "za"), to_iter(ctx, ctx.args[1], "zb")
    return Iter("zip", a, b, None, a.finite or b.finite)


@M.reg("core::iter::traits::iterator::Iterator::chain")
def m_chain(ctx):
    a, b = to_iter(ctx, ctx.args[0], "ca"), to_iter(ctx, ctx.args[1], "cb")
    return Iter("chain", a, b, None, a.finite and b.finite)


@M.reg("core::iter::traits::iterator::Iterator::copied", "core::iter::traits::iterator::Iterator::cloned")
def m_copied(ctx):
    a = to_iter(ctx, ctx.args[0])
    return Iter("copied", a, None, None, a.finite)


@M.reg("core::iter::traits::iterator::Iterator::enumerate")
def m_enumerate(ctx):
    a = to_iter(ctx, ctx.args[0])
    return Iter("enumerate", a, None, None, a.finite)


@M.reg("core::iter::traits::iterator::Iterator::flatten")
def m_flatten(ctx):
    a = to_iter(ctx, ctx.args[0])
    return Iter("flatten", a, None, None, a.finite)


@M.reg("core::iter::traits::iterator::Iterator::rev")
def m_rev(ctx):
    a = to_iter(ctx, ctx.args[0])
    return Iter("rev", a, None, None, a.finite)


@M.reg("core::iter::traits::iterator::Iterator::take")
def m_take(ctx):
    a = to_iter(ctx, ctx.args[0])
    return Iter("take", a, None, scalar_arg(ctx, ctx.args[1]), True)


@M.reg("core::iter::sources::repeat::repeat")
def m_repeat(ctx):
    return Iter("repeat", ctx.args[0], None, None, False)


def base_seq(ctx, it):
    """(Seq/Arr, ref) of the slice an iterator ultimately walks, if it is a plain slice-based chain."""
    if isinstance(it, Iter):
        if it.kind in ("slice", "chunks", "windows", "chunks_var") and isinstance(it.a, Ref):
            v = ctx.deref(it.a, "bs")
            if isinstance(v, (Seq, Arr)):
                return v, it.a
        if it.kind in ("copied", "enumerate", "rev", "take") and isinstance(it.a, Iter):
            return base_seq(ctx, it.a)
    return None, None


def iter_item(ctx, it, tag):
    """-> (item value or None if the iterator is certainly empty, may_end: bool)."""
    I, S = ctx.I, ctx.S
    k = it.kind
    if k == "slice":
        ref = it.a
        v = ctx.deref(ref, tag) if isinstance(ref, Ref) else None
        if isinstance(v, (Seq, Arr)):
            ln = len_sym(ctx, v)
            if D.hi(S.ivof(ln)) == 0:
                return None, True
            return elem_ref(ref), True
        return Ref(None), True
    if k in ("chunks", "windows", "chunks_var"):
        ref = it.a
        v = ctx.deref(ref, tag) if isinstance(ref, Ref) else None
        q = as_seq(ctx, v, tag + "q") if isinstance(v, (Seq, Arr)) else None
        if q is None:
            return Ref(None), True
        if k == "chunks_var":
            ln = ctx.fresh(tag + "cl", I.usize_rng(), D.rng(1, max(1, D.hi(S.ivof(it.n)))) if it.n is not None else None)
        else:
            ln = it.n
        chunk = Seq("slice", ln, q.elem, q.efacts, None, q.prov)
        return derived(ctx, chunk, tag + "chunk", mut=isinstance(ref, Ref) and ref.mut), True
    if k == "chars":
        src = ctx.deref(it.a, tag + "chs") if isinstance(it.a, Ref) else None
        if isinstance(src, Seq):
            if D.hi(ctx.S.ivof(src.len)) == 0:
                return None, True  # the empty string has no characters
            at_start_nonempty = it.n is None and D.lo(ctx.S.ivof(src.len)) >= 1
            ctx.S.add_fact(Lin.const(1).sub(ctx.S.term(src.len)))  # an item exists: len >= 1 (callers work on a state copy)
            from .models3 import chars_first_item

            iv0 = chars_first_item(ctx, it)  # the first character, from the first byte (None once the iterator moved)
            if iv0 is not None:
                if not iv0:
                    ctx.S.dead = True
                    return None, True
                return Scalar(ctx.fresh(tag + "ch0", (0, 0x10FFFF), iv0)), not at_start_nonempty
        return Scalar(ctx.fresh(tag + "ch", (0, 0x10FFFF))), True
    if k == "repeat":
        return it.a, False
    if k == "copied":
        item, end = iter_item(ctx, it.a, tag + "c")
        if item is None:
            return None, end
        return (ctx.deref(item, tag + "cd") if isinstance(item, Ref) else item), end
    if k == "rev":
        return iter_item(ctx, it.a, tag + "r")
    if k == "take":
        item, end = iter_item(ctx, it.a, tag + "t")
        return item, True
    if k == "enumerate":
        item, end = iter_item(ctx, it.a, tag + "e")
        if item is None:
            return None, end
        idx = ctx.fresh(tag + "idx", I.usize_rng(), D.rng(0, I.max_len()))
        v, _ = base_seq(ctx, it.a)
        if v is not None:
            S.add_fact(Lin.var(idx).sub(S.term(len_sym(ctx, v))).addc(1))
        return Struct("tuple", [Scalar(idx), item]), end
    if k == "zip":
        a, ea = iter_item(ctx, it.a, tag + "za")
        b, eb = iter_item(ctx, it.b, tag + "zb")
        if a is None or b is None:
            return None, True
        return Struct("tuple", [a, b]), ea or eb
    if k == "chain":
        a, ea = iter_item(ctx, it.a, tag + "ca")
        b, eb = iter_item(ctx, it.b, tag + "cb")
        items = [x for x in (a, b) if x is not None]
        if not items:
            return None, True
        return I.join_vals(S, items, ctx.site + (tag, "chain")), (ea and eb)
    if k == "flatten":
        item, end = iter_item(ctx, it.a, tag + "f")
        if item is None:
            return None, True
        # items of the inner iterator are Option<T> (or references to them): yield the Some payloads
        if isinstance(item, Ref):
            tgt = ctx.deref(item, tag + "fd")
            if isinstance(tgt, Enum) and tgt.path == OPT:
                if "Some" not in tgt.variants:
                    return None, True
                return (Ref(item.cell, item.path + (("v", "Some"), ("f", 0)), item.mut) if item.cell is not None else Ref(None)), True
            return Ref(None), True
        if isinstance(item, Enum) and item.path == OPT:
            if "Some" not in item.variants:
                return None, True
            return item.variants["Some"][0], True
        return Opaque(), True
    return Opaque(), True


@M.reg_re(r"as core::iter::traits::iterator::Iterator>::next$|as core::iter::traits::double_ended::DoubleEndedIterator>::next_back$")
def m_next(ctx):
    it = ctx.deref(ctx.args[0], "self")
    if not isinstance(it, Iter):
        return ctx.top_ret()
    item, may_end = iter_item(ctx, it, "nx")
    ctx.I.iter_sites[(ctx.frame, ctx.bi)] = bool(it.finite) and it.kind != "opaque"
    for h in ctx.I.hooks:
        h("iter_next", interp=ctx.I, ctx=ctx, it=it)
    if item is None:
        return none()
    if not may_end:
        return some(item)
    return option(item)


def run_closure_over(ctx, it, f, tag, by_ref=False):
    """One (arbitrary) item of the iterator handed to the closure, *in a copy of the state*: having an item at all
    is an assumption (the iterator may be empty), so nothing learnt here may leak into the caller's state.
    Returns (state copy, item, closure result) or None if the iterator is certainly empty."""
    for h in ctx.I.hooks:
        h("iter_next", interp=ctx.I, ctx=ctx, it=it)
    if mutating_closure(ctx, f):
        ctx.pre("closure passed to an iterator consumer writes to captured state (not modelled)", False)
    T = ctx.S.copy()
    c2 = _sub_ctx(ctx, T, tag)
    item, _ = iter_item(c2, it, tag)
    if item is None or T.dead:
        return None
    arg = item
    if by_ref:
        cell = ("itref",) + ctx.site + (tag,)
        T.cells[cell] = item
        arg = Ref(cell, (), False)
    r = call_callable(c2, f, [arg], tag)
    if T.dead:
        return None
    return T, item, r


@M.reg_re(r"as core::iter::traits::iterator::Iterator>::(all|any)$")
@M.reg("core::iter::traits::iterator::Iterator::all", "core::iter::traits::iterator::Iterator::any")
def m_all(ctx):
    it = ctx.deref(ctx.args[0], "self")
    if isinstance(it, Iter):
        run_closure_over(ctx, it, ctx.args[1], "all")  # obligations of the closure body; its state is discarded
    return bool_top(ctx)


@M.reg_re(r"as core::iter::traits::iterator::Iterator>::position$|^core::iter::traits::iterator::Iterator::position$")
def m_position(ctx):
    S, I = ctx.S, ctx.I
    it = ctx.deref(ctx.args[0], "self")
    if not isinstance(it, Iter):
        return ctx.top_ret()
    run_closure_over(ctx, it, ctx.args[1], "pos")
    idx = ctx.fresh("pos", I.usize_rng(), D.rng(0, I.max_len()))
    cnt = iter_count_bounds(ctx, it)
    if cnt:
        if any(S.entails(c.scale(-1)) for c in cnt):  # some bound says: at most 0 items
            return none()
        # a found position is smaller than the number of items: pos + 1 <= count for every known bound
        return option(Scalar(idx), Delta({}, [Lin.var(idx).addc(1).add(c) for c in cnt]))
    return option(Scalar(idx))


def iter_count_bounds(ctx, it):
    """Upper bounds on the number of items of an iterator, each as a Lin `c` with the meaning: count + c <= 0,
    i.e. count <= -c (e.g. for a slice of length L: c = -L; after skip(n): also c = n - L)."""
    S = ctx.S
    if not isinstance(it, Iter):
        return []
    k = it.kind
    if k == "slice":
        v = ctx.deref(it.a, "icb") if isinstance(it.a, Ref) else None
        if isinstance(v, (Seq, Arr)):
            return [S.term(len_sym(ctx, v)).scale(-1)]
        return []
    if k in ("copied", "enumerate", "rev", "map", "filter", "filter_map"):
        return iter_count_bounds(ctx, it.a)
    if k == "skip":
        inner = iter_count_bounds(ctx, it.a)
        n = S.term(it.n) if isinstance(it.n, int) else None
        return inner + ([c.add(n) for c in inner] if n is not None else [])
    if k == "take":
        inner = iter_count_bounds(ctx, it.a)
        return inner + ([S.term(it.n).scale(-1)] if isinstance(it.n, int) else [])
    if k == "zip":
        return iter_count_bounds(ctx, it.a) + iter_count_bounds(ctx, it.b)
    return []


@M.reg_re(r"as core::iter::traits::iterator::Iterator>::find_map$|^core::iter::traits::iterator::Iterator::find_map$")
def m_find_map(ctx):
    it = ctx.deref(ctx.args[0], "self")
    if not isinstance(it, Iter):
        return ctx.top_ret()
    got = run_closure_over(ctx, it, ctx.args[1], "fm")
    cases = [(ctx.S.copy(), none())]
    if got is not None:
        T, _, r = got
        if isinstance(r, Enum) and "Some" in r.variants:
            d = r.when.get("Some")
            if d is not None:
                T.apply_delta(d)
            cases.append((T, Enum(OPT, {"Some": r.variants["Some"]})))
        elif r is not None and not isinstance(r, Enum):
            return ctx.top_ret()
    return join_cases(ctx, cases, "find_map")


# ----------------------------------------------------------------------------- integers
def int_binary(ctx, f_exact, lin_f=None):
    S = ctx.S
    a, b = scalar_arg(ctx, ctx.args[0]), scalar_arg(ctx, ctx.args[1])
    rng = None
    if a is not None:
        rng = ctx.I.st.range(a)
    return a, b, rng


@M.reg_re(r"^core::num::<impl [iu]\d+>::checked_(add|sub|mul)$|^core::num::<impl [iu]size>::checked_(add|sub|mul)$")
def m_checked(ctx):
    S = ctx.S
    op = ctx.r["def"].rsplit("_", 1)[1]
    a, b = scalar_arg(ctx, ctx.args[0]), scalar_arg(ctx, ctx.args[1])
    if a is None or b is None:
        return ctx.top_ret()
    rng = ctx.I.st.range(a)
    ia, ib = S.ivof(a), S.ivof(b)
    if op == "add":
        ex, lin = D.add(ia, ib), S.term(a).add(S.term(b))
    elif op == "sub":
        ex, lin = D.sub(ia, ib), S.term(a).sub(S.term(b))
    else:
        ex = D.mul(ia, ib)
        lin = S.term(a).scale(D.lo(ib)) if D.is_point(ib) else (S.term(b).scale(D.lo(ia)) if D.is_point(ia) else None)
    full = D.rng(*rng)
    inside = D.meet(ex, full)
    if not inside:
        return none()
    v = ctx.fresh("ck", rng, inside, lin)
    if D.subset(ex, full):
        return some(Scalar(v))
    w_some = None
    if lin is not None:
        w_some = Delta({}, [lin.addc(-rng[1]), lin.scale(-1).addc(rng[0])])
    return option(Scalar(v), w_some)


@M.reg_re(r"^core::num::<impl [iu](\d+|size)>::saturating_(add|sub)$")
def m_saturating(ctx):
    S = ctx.S
    op = ctx.r["def"].rsplit("_", 1)[1]
    a, b = scalar_arg(ctx, ctx.args[0]), scalar_arg(ctx, ctx.args[1])
    if a is None or b is None:
        return ctx.top_ret()
    rng = ctx.I.st.range(a)
    ex = D.add(S.ivof(a), S.ivof(b)) if op == "add" else D.sub(S.ivof(a), S.ivof(b))
    lin = S.term(a).add(S.term(b)) if op == "add" else S.term(a).sub(S.term(b))
    full = D.rng(*rng)
    if D.subset(ex, full):
        return Scalar(ctx.fresh("sat", rng, ex, lin))
    cl = D.join(D.meet(ex, full), D.join(D.point(rng[0]) if D.lo(ex) < rng[0] else (), D.point(rng[1]) if D.hi(ex) > rng[1] else ()))
    v = ctx.fresh("sat", rng, cl)
    # v >= min(exact, max) … keep the one-sided relations that always hold: v <= exact when exact >= min ; v >= exact when exact <= max
    if D.lo(ex) >= rng[0]:
        S.add_fact(Lin.var(v).sub(lin))  # saturation only from above: v <= exact
    if D.hi(ex) <= rng[1]:
        S.add_fact(lin.sub(Lin.var(v)))  # only from below: v >= exact
    return Scalar(v)


@M.reg_re(r"^core::num::<impl i(\d+|size)>::(saturating_abs|abs|wrapping_abs|unsigned_abs)$")
def m_abs(ctx):
    S = ctx.S
    name = ctx.r["def"].rsplit("::", 1)[1]
    a = scalar_arg(ctx, ctx.args[0])
    if a is None:
        return ctx.top_ret()
    rng = ctx.I.st.range(a)
    ia = S.ivof(a)
    if name == "abs":
        ok = not D.contains(ia, rng[0])
        ctx.pre("abs operand != MIN", ok)
        ia = D.remove_point(ia, rng[0])
        if not ia:
            S.dead = True
            return None
    ex = D.join(D.meet(ia, D.rng(0, rng[1])), D.neg(D.meet(ia, D.rng(rng[0], -1))))
    out_rng = ret_int_rng(ctx) or rng
    if name == "saturating_abs":
        ex = D.meet(ex, D.rng(0, rng[1])) if D.hi(ex) <= rng[1] else D.join(D.meet(ex, D.rng(0, rng[1])), D.point(rng[1]))
    elif name == "wrapping_abs" and D.contains(S.ivof(a), rng[0]):
        ex = D.join(D.meet(ex, D.rng(0, rng[1])), D.point(rng[0]))
    v = ctx.fresh("abs", out_rng, ex)
    if name in ("abs", "unsigned_abs") or not D.contains(S.ivof(a), rng[0]):
        # |a| in X  =>  a in X ∪ -X  (exact for abs after its precondition and for unsigned_abs, whose result holds
        # 2^(n-1) for MIN; saturating/wrapping variants only when MIN is excluded)
        S.absd[v] = a
    return Scalar(v)


@M.reg_re(r"^core::num::<impl [iu](\d+|size)>::(rem_euclid|div_euclid)$")
def m_euclid(ctx):
    S = ctx.S
    name = ctx.r["def"].rsplit("::", 1)[1]
    a, b = scalar_arg(ctx, ctx.args[0]), scalar_arg(ctx, ctx.args[1])
    if a is None or b is None:
        return ctx.top_ret()
    rng = ctx.I.st.range(a)
    ib = S.ivof(b)
    ok = not D.contains(ib, 0) and not (D.contains(ib, -1) and D.contains(S.ivof(a), rng[0]))
    ctx.pre(name + " divisor != 0 (and no MIN / -1)", ok)
    if D.lo(ib) >= 1:
        ex = D.rem_euclid(S.ivof(a), ib) if name == "rem_euclid" else D.div_euclid(S.ivof(a), ib)
        if ex is not None:
            return Scalar(ctx.fresh("eu", rng, ex))
    return Scalar(ctx.fresh("eu", rng))


@M.reg_re(r"^core::num::<impl [iu](\d+|size)>::from_(be|le|ne)_bytes$")
def m_from_bytes(ctx):
    rng = ret_int_rng(ctx)
    v = ctx.fresh("fb", rng)
    for h in ctx.I.hooks:
        h("from_bytes", interp=ctx.I, ctx=ctx, result=v, arg=ctx.args[0], endian=ctx.r["def"].rsplit("_", 2)[1])
    return Scalar(v)


@M.reg_re(r"^core::num::<impl [iu](\d+|size)>::(saturating_add_unsigned|saturating_sub_unsigned|wrapping_\w+|pow|leading_zeros|trailing_zeros|count_ones|min|max|signum|to_(be|le|ne)_bytes|swap_bytes|rotate_\w+|overflowing_\w+|checked_(div|rem|neg|abs|pow)\w*|saturating_(mul|pow|neg))$")
def m_int_total(ctx):
    return ctx.top_ret()


def three_way_args(ctx):
    a, b = scalar_arg(ctx, ctx.args[0], "ca"), scalar_arg(ctx, ctx.args[1], "cb")
    return ctx.I.three_way(ctx.S, a, b, ctx.site)


@M.reg_re(r"^core::cmp::impls::<impl core::cmp::Ord for [iu](\d+|size)>::cmp$")
def m_ord_cmp(ctx):
    return three_way_args(ctx)


@M.reg_re(r"^core::cmp::impls::<impl core::cmp::PartialOrd for [iu](\d+|size)>::partial_cmp$")
def m_partial_cmp(ctx):
    return some(three_way_args(ctx))


@M.reg_re(r"^core::cmp::impls::<impl core::cmp::PartialOrd for [iu](\d+|size)>::(lt|le|gt|ge)$|^core::cmp::impls::<impl core::cmp::PartialEq for [iu](\d+|size)>::(eq|ne)$")
def m_int_cmp_fn(ctx):
    name = ctx.r["def"].rsplit("::", 1)[1]
    a, b = scalar_arg(ctx, ctx.args[0], "ca"), scalar_arg(ctx, ctx.args[1], "cb")
    if a is None or b is None:
        return bool_top(ctx)
    return bool_cmp(ctx, name.capitalize(), ctx.S.term(a), ctx.S.term(b))


@M.reg_re(r"^core::tuple::<impl core::cmp::PartialOrd for \(U, T\)>::partial_cmp$|^core::tuple::<impl core::cmp::Ord for ")
def m_tuple_cmp(ctx):
    return ctx.top_ret()


def ascii_pred(ctx, ranges):
    S = ctx.S
    a = scalar_arg(ctx, ctx.args[0])
    if a is None:
        return bool_top(ctx)
    yes = D.norm(ranges)
    rng = ctx.I.st.range(a)
    no = D.complement(yes, D.rng(*rng))
    iv = S.ivof(a)
    if D.subset(iv, yes):
        return Scalar(ctx.fresh("ap", (0, 1), D.point(1)))
    if not D.meet(iv, yes):
        return Scalar(ctx.fresh("ap", (0, 1), D.point(0)))
    return bool_top(ctx, "ap", {1: Delta({a: D.meet(iv, yes)}), 0: Delta({a: D.meet(iv, no)})})


@M.reg("core::num::<impl u8>::is_ascii_digit", "core::char::methods::<impl char>::is_ascii_digit")
def m_is_digit(ctx):
    return ascii_pred(ctx, [(48, 57)])


@M.reg("core::num::<impl u8>::is_ascii_alphabetic", "core::char::methods::<impl char>::is_ascii_alphabetic")
def m_is_alpha(ctx):
    return ascii_pred(ctx, [(65, 90), (97, 122)])


@M.reg("core::num::<impl u8>::is_ascii_whitespace", "core::char::methods::<impl char>::is_ascii_whitespace")
def m_is_ws(ctx):
    return ascii_pred(ctx, [(9, 10), (12, 13), (32, 32)])


@M.reg_re(r"^core::(num::<impl u8>|char::methods::<impl char>)::is_ascii\w*$")
def m_is_ascii_any(ctx):
    return bool_top(ctx)


@M.reg("core::ops::range::RangeInclusive::<Idx>::contains", "core::ops::range::Range::<Idx>::contains")
def m_range_contains(ctx):
    S = ctx.S
    inclusive = "RangeInclusive" in ctx.r["def"]
    r = ctx.deref(ctx.args[0], "rng")
    x = scalar_arg(ctx, ctx.args[1], "item")
    if not isinstance(r, Struct) or x is None or len(r.fields) < 2 or not all(isinstance(f, Scalar) for f in r.fields[:2]):
        return bool_top(ctx)
    lo_, hi_ = r.fields[0].sym, r.fields[1].sym
    xl = S.term(x)
    f1 = S.term(lo_).sub(xl)  # lo <= x
    f2 = xl.sub(S.term(hi_)) if inclusive else xl.sub(S.term(hi_)).addc(1)
    if S.entails(f1) and S.entails(f2):
        return Scalar(ctx.fresh("rc", (0, 1), D.point(1)))
    w = {1: Delta({}, [f1, f2])}
    il, ih = S.ivof(lo_), S.ivof(hi_)
    if D.is_point(il) and D.is_point(ih):
        inside = D.rng(D.lo(il), D.lo(ih) if inclusive else D.lo(ih) - 1)
        iv = S.ivof(x)
        out = D.meet(iv, D.complement(inside, D.rng(*ctx.I.st.range(x))))
        if not out:
            return Scalar(ctx.fresh("rc", (0, 1), D.point(1)))
        if not D.meet(iv, inside):
            return Scalar(ctx.fresh("rc", (0, 1), D.point(0)))
        w[0] = Delta({x: out})
        w[1] = Delta({x: D.meet(iv, inside)}, [])
    return bool_top(ctx, "rc", w)


# ----------------------------------------------------------------------------- str
@M.reg("core::str::<impl str>::as_bytes", "<alloc::string::String as core::ops::deref::Deref>::deref", "alloc::string::String::as_str", "alloc::string::String::as_bytes",
       "<alloc::vec::Vec<T, A> as core::ops::deref::Deref>::deref", "alloc::vec::Vec::<T, A>::as_slice", "<alloc::vec::Vec<T, A> as core::ops::deref::DerefMut>::deref_mut", "alloc::vec::Vec::<T, A>::as_mut_slice")
def m_view(ctx):
    return ctx.args[0]


@M.reg("core::str::converts::from_utf8")
def m_from_utf8(ctx):
    S = ctx.S
    v, ref = seq_of(ctx, ctx.args[0])
    q = as_seq(ctx, v)
    if q is None:
        return ctx.top_ret()
    sv = Seq("str", q.len, q.elem, (), q.data, q.prov)
    okv = derived(ctx, sv, "utf8")
    ascii_only = q.elem is None or (isinstance(q.elem, Scalar) and D.subset(S.ivof(q.elem.sym), D.rng(0, 127)))
    if ascii_only:
        return Enum(RES, {"Ok": (okv,)})
    return result(okv, Opaque())


@M.reg("core::str::<impl str>::chars")
def m_chars(ctx):
    return Iter("chars", ctx.args[0])


@M.reg("core::str::iter::Chars::<'a>::as_str")
def m_chars_as_str(ctx):
    S, I = ctx.S, ctx.I
    it = ctx.deref(ctx.args[0], "self")
    if isinstance(it, Iter) and isinstance(it.a, Ref):
        v = ctx.deref(it.a, "src")
        if isinstance(v, Seq) and it.n is None:
            return it.a  # nothing consumed yet: the string itself
        if isinstance(v, Seq):
            ns = ctx.fresh("rest", I.len_rng(), D.rng(0, D.hi(S.ivof(v.len))))
            S.add_fact(Lin.var(ns).sub(S.term(v.len)))
            return derived(ctx, Seq("str", ns, v.elem, (), None, v.prov | frozenset([("suffix-of", it.a.cell)])), "rest")
    return ctx.top_ret()


@M.reg("core::str::<impl str>::trim_matches", "core::str::<impl str>::trim", "core::str::<impl str>::trim_start_matches", "core::str::<impl str>::trim_end_matches")
def m_trim(ctx):
    S, I = ctx.S, ctx.I
    v, ref = seq_of(ctx, ctx.args[0])
    if len(ctx.args) > 1:
        call_callable(ctx, ctx.args[1], [Scalar(ctx.fresh("tc", (0, 0x10FFFF)))], "trim")
    if isinstance(v, Seq):
        ns = ctx.fresh("trim", I.len_rng(), D.rng(0, D.hi(S.ivof(v.len))))
        S.add_fact(Lin.var(ns).sub(S.term(v.len)))
        return derived(ctx, Seq("str", ns, v.elem, (), None, v.prov | (frozenset([("substr-of", ref.cell)]) if ref is not None else frozenset())), "trimmed")
    return ctx.top_ret()


@M.reg("core::str::<impl str>::parse")
def m_parse(ctx):
    tid = ctx.ret_ty()
    t = ctx.I.types[tid]
    okt = None
    for v in t.get("variants", []):
        if v["name"] == "Ok":
            okt = v["fields"][0]["ty"]
    if okt is None:
        return ctx.top_ret()
    return result(ctx.I.top(okt, ctx.S, ("parse",) + ctx.site), Opaque())


# ----------------------------------------------------------------------------- Vec / Box / String
def vec_elem_ty(ctx):
    tid = ctx.ret_ty()
    t = ctx.I.types[tid]
    ts = [a["t"] for a in t.get("args", []) if isinstance(a, dict) and "t" in a]
    return ts[0] if ts else None


@M.reg("alloc::vec::Vec::<T>::new", "<alloc::vec::Vec<T> as core::default::Default>::default", "alloc::string::String::new")
def m_vec_new(ctx):
    ln = ctx.I.const_sym(0, ctx.I.len_rng(), ctx.S)
    return Seq("vec", ln, None, (), None, frozenset())


@M.reg("alloc::vec::Vec::<T>::with_capacity", "alloc::string::String::with_capacity")
def m_with_capacity(ctx):
    S, I = ctx.S, ctx.I
    n = scalar_arg(ctx, ctx.args[0])
    et = vec_elem_ty(ctx)
    esz = I.elem_size(et) if et is not None else 1
    ok = n is not None and D.hi(S.ivof(n)) * esz <= (1 << (I.ptr_bits - 1)) - 1
    # ALLOC (DESIGN §4.4): the requested count must already be paid for in input bytes:
    # some fact  k*count - len(I) <= c  with k >= 1 and c <= 0, I a byte sequence
    paid = None
    if n is not None:
        if D.hi(S.ivof(n)) <= 4096:
            paid = "constant bound %d" % D.hi(S.ivof(n))
        else:
            tn = S.term(n)
            for f in S.facts:
                if len(f.t) != 2 or f.c > 0:
                    continue
                ks = [(x, k) for x, k in f.t.items()]
                for (x, k), (y, ky) in (ks, ks[::-1]):
                    if k >= 1 and ky == -1 and I.st.range(y) == I.len_rng() and tn.t == {x: 1} and tn.c == 0:
                        paid = "fact %r <= 0 (count * %d <= length of an input slice)" % (f, k)
                if paid:
                    break
            if paid is None and len(tn.t) == 1 and tn.c == 0:
                (x, kx), = tn.t.items()
                for y, l in S.lin.items():
                    if I.st.range(y) == I.len_rng() and l.c == 0 and len(l.t) == 1 and x in l.t and l.t[x] >= kx >= 1:
                        paid = "s%d = %r is the length of a slice already read (count * %d bytes)" % (y, l, l.t[x] // kx)
                        break
    detail = I.site_ordinal(ctx.inst, ctx.bi, "CALL:" + ctx.r["def"])
    I.oblige("ALLOC", ctx.inst, ctx.bi, ctx.r["def"] + detail, paid is not None, S, ctx.t.get("span"), None if paid else {"count": D.fmt(S.ivof(n)) if n is not None else "?", "note": "capacity not bounded by bytes already read"})
    ctx.pre("capacity * size_of::<T>() <= isize::MAX", ok or paid is not None, None if (ok or paid) else {"count": D.fmt(S.ivof(n)) if n is not None else "?", "elem_size": esz})
    ln = I.const_sym(0, I.len_rng(), S)
    return Seq("vec", ln, None, (), None, frozenset())


@M.reg("alloc::vec::Vec::<T, A>::push")
def m_vec_push(ctx):
    S, I = ctx.S, ctx.I
    ref = ctx.args[0]
    v = ctx.deref(ref, "vec")
    if isinstance(ref, Ref) and ref.cell is not None and isinstance(v, Seq):
        nl = S.term(v.len).addc(1)
        ns = ctx.fresh("plen", I.len_rng(), D.meet(S.eval(nl), D.rng(0, I.max_len())), nl)
        el = ctx.args[1] if v.elem is None else I.join_vals(S, [v.elem, ctx.args[1]], ctx.site + ("pj",))
        I.write(S, ref.cell, ref.path, Seq(v.kind, ns, el, (), None, v.prov), ctx.site + ("pw",))
        for h in I.hooks:
            h("vec_push", interp=I, ctx=ctx, vec=v, value=ctx.args[1])
    elif isinstance(ref, Ref) and ref.cell is not None:
        I.write(S, ref.cell, ref.path, Opaque(), ctx.site + ("pw",))
    return UNIT


@M.reg("alloc::boxed::Box::<T>::new_uninit")
def m_box_new_uninit(ctx):
    cell = ("boxu",) + ctx.site
    ctx.S.cells[cell] = BOT
    return BoxU(cell)


@M.reg("alloc::boxed::box_assume_init_into_vec_unsafe")
def m_box_into_vec(ctx):
    S, I = ctx.S, ctx.I
    b = ctx.args[0]
    if isinstance(b, BoxU):
        v = S.cells.get(b.cell, BOT)
        if isinstance(v, Arr):
            ln = I.const_sym(len(v.elems), I.len_rng(), S)
            el = I.join_vals(S, list(v.elems), ctx.site + ("bv",)) if v.elems else None
            return Seq("vec", ln, el, (), None, frozenset())
    return ctx.top_ret()


@M.reg("alloc::boxed::Box::<T>::new")
def m_box_new(ctx):
    return ctx.top_ret()


@M.reg("alloc::fmt::format", "alloc::string::ToString::to_string", "<str as alloc::string::ToString>::to_string")
def m_format(ctx):
    for h in ctx.I.hooks:
        h("format", interp=ctx.I, ctx=ctx)
    return ctx.top_ret()


# ----------------------------------------------------------------------------- fmt / panics / clock / fs
@M.reg_re(r"^core::fmt::|as core::fmt::(Display|Debug)>::fmt$|^<alloc::boxed::Box<T, A> as core::fmt::")
def m_fmt(ctx):
    for h in ctx.I.hooks:
        h("fmt", interp=ctx.I, ctx=ctx)
    return ctx.top_ret()


@M.reg_re(r"^core::panicking::")
def m_panic(ctx):
    detail = ctx.I.site_ordinal(ctx.inst, ctx.bi, "CALL:" + ctx.r["def"])
    ctx.I.oblige("PANIC-CALL", ctx.inst, ctx.bi, ctx.r["def"] + detail, False, ctx.S, ctx.t.get("span"), {"note": "panic call reachable"})
    ctx.S.dead = True
    return None


@M.reg("std::time::SystemTime::now", "std::time::SystemTime::duration_since", "std::time::SystemTimeError::duration", "core::time::Duration::as_secs", "core::time::Duration::as_nanos",
       "core::time::Duration::subsec_nanos", "std::fs::read")
def m_ambient(ctx):
    return ctx.top_ret()


@M.reg_re(r"^<alloc::boxed::Box<dyn core::error::Error.*as core::convert::From<.*>>::from$|^alloc::boxed::convert::|^<alloc::boxed::Box<.*> as core::convert::From<")
def m_box_from(ctx):
    return ctx.top_ret()


# ----------------------------------------------------------------------------- Option / Result routing combinators
# Each variant of the receiver is analysed in its own copy of the state (with the receiver's conditional
# refinements for that variant applied), the closure — if any — runs there, and the case states are
# joined; the result travels through the join in a scratch cell, so it gets phi symbols and
# conditional refinements like any other merged value.
_TRANSPLANT = ("cells", "iv", "lin", "cmpd", "ovf", "notd", "absd", "discr", "when", "facts", "dead", "log", "gen")


def _sub_ctx(ctx, T, tag):
    return type(ctx)(ctx.I, T, ctx.frame, ctx.inst, ctx.bi, ctx.t, ctx.r, ctx.args, ctx.site + (tag,))


def join_cases(ctx, cases, tag):
    """cases: [(state, value)] -> value; ctx.S becomes the join of the live case states."""
    from .join import join

    cell = ("hofret",) + ctx.site + (tag,)
    live = [(T, v) for T, v in cases if not T.dead and v is not None]
    if not live:
        ctx.S.dead = True
        return None
    for T, v in live:
        T.cells[cell] = v
    J = live[0][0]
    for n, (T, _) in enumerate(live[1:]):
        J = join(J, T, ("hofj",) + ctx.site + (tag, n))
    ret = J.cells.pop(cell, None)
    for name in _TRANSPLANT:
        setattr(ctx.S, name, getattr(J, name))
    return ret


def mutating_closure(ctx, f):
    """Closures handed to std functions are analysed once per case; one that writes to captured state through
    `&mut` would need a fixpoint over its invocations, which is not modelled: fail closed."""
    if isinstance(f, Ref):
        f = ctx.deref(f, "mc")
    if isinstance(f, Struct) and f.path.startswith("closure:"):
        return any(isinstance(x, Ref) and x.mut for x in f.fields)
    return False


def _route(ctx, on_pos, on_neg, kind):
    """on_pos(ctx_T, payload) / on_neg(ctx_T, payload-or-None) -> value, each run in its own state."""
    e = ctx.args[0]
    P, N = ("Some", "None") if kind == OPT else ("Ok", "Err")
    if not isinstance(e, Enum):
        return ctx.top_ret()
    cases = []
    for var, fn in ((P, on_pos), (N, on_neg)):
        if var not in e.variants:
            continue
        T = ctx.S.copy()
        d = e.when.get(var)
        if d is not None:
            T.apply_delta(d)
        if T.dead:
            continue
        c2 = _sub_ctx(ctx, T, "case" + var)
        if d is not None and d.ef:
            # element facts known under this variant also hold for sequences held *by value* in the other arguments
            # (a closure that captured the validated vectors)
            c2.args = [_with_efacts(a, d.ef) for a in ctx.args]
        payload = e.variants[var][0] if e.variants[var] else None
        v = fn(c2, payload)
        cases.append((T, v))
    return join_cases(ctx, cases, "route")


def _with_efacts(v, ef, depth=0):
    if isinstance(v, Seq):
        t = ef.get(v.len)
        if t:
            new = tuple(x for x in t if x not in v.efacts)
            if new:
                return Seq(v.kind, v.len, v.elem, v.efacts + new, v.data, v.prov)
        return v
    if depth > 4:
        return v
    if isinstance(v, Struct):
        fs = [_with_efacts(f, ef, depth + 1) for f in v.fields]
        return v if all(a is b for a, b in zip(fs, v.fields)) else Struct(v.path, fs)
    if isinstance(v, Enum):
        nv = {k: tuple(_with_efacts(f, ef, depth + 1) for f in fs) for k, fs in v.variants.items()}
        return v if all(all(a is b for a, b in zip(nv[k], v.variants[k])) for k in nv) else Enum(v.path, nv, v.when)
    return v


def _callf(arg_index, wrap=None, with_payload=True):
    def run(c, payload):
        f = c.args[arg_index]
        # (a closure that writes to captured state is fine here: it runs at most once, in this case's own state)
        r = call_callable(c, f, [payload] if (with_payload and payload is not None) else [], "f%d" % arg_index)
        if r is None:
            return None
        return wrap(r) if wrap else r

    return run


def _keep(wrap):
    return lambda c, payload: wrap(payload)


def _arg(i):
    return lambda c, payload: c.args[i]


def _some(v):
    return Enum(OPT, {"Some": (v,)})


def _none(c=None, payload=None):
    return Enum(OPT, {"None": ()})


def _ok(v):
    return Enum(RES, {"Ok": (v,)})


def _err(v):
    return Enum(RES, {"Err": (v,)})


_ROUTES = {
    # Option
    "core::option::Option::<T>::map": (OPT, _callf(1, _some), _none),
    "core::option::Option::<T>::and_then": (OPT, _callf(1), _none),
    "core::option::Option::<T>::map_or": (OPT, _callf(2), _arg(1)),
    "core::option::Option::<T>::map_or_else": (OPT, _callf(2), _callf(1, None, False)),
    "core::option::Option::<T>::unwrap_or": (OPT, _keep(lambda p: p), _arg(1)),
    "core::option::Option::<T>::unwrap_or_else": (OPT, _keep(lambda p: p), _callf(1, None, False)),
    "core::option::Option::<T>::or_else": (OPT, _keep(_some), _callf(1, None, False)),
    "core::option::Option::<T>::or": (OPT, _keep(_some), _arg(1)),
    "core::option::Option::<T>::and": (OPT, _arg(1), _none),
    # Result
    "core::result::Result::<T, E>::map": (RES, _callf(1, _ok), _keep(_err)),
    "core::result::Result::<T, E>::and_then": (RES, _callf(1), _keep(_err)),
    "core::result::Result::<T, E>::map_or": (RES, _callf(2), _arg(1)),
    "core::result::Result::<T, E>::map_or_else": (RES, _callf(2), _callf(1)),
    "core::result::Result::<T, E>::unwrap_or": (RES, _keep(lambda p: p), _arg(1)),
    "core::result::Result::<T, E>::unwrap_or_else": (RES, _keep(lambda p: p), _callf(1)),
    "core::result::Result::<T, E>::or_else": (RES, _keep(_ok), _callf(1)),
}


def m_route(ctx):
    kind, on_pos, on_neg = _ROUTES[ctx.r["def"]]
    return _route(ctx, on_pos, on_neg, kind)


for _p in _ROUTES:
    M.exact[_p] = m_route


@M.reg("core::option::Option::<T>::filter")
def m_opt_filter(ctx):
    e = ctx.args[0]
    if not isinstance(e, Enum):
        return ctx.top_ret()

    def pos(c, payload):
        f = c.args[1]
        if mutating_closure(c, f):
            c.pre("closure passed to a std combinator writes to captured state (not modelled)", False)
        cell = ("filt",) + c.site
        c.S.cells[cell] = payload
        call_callable(c, f, [Ref(cell, (), False)], "pred")
        return Enum(OPT, {"Some": (payload,), "None": ()})

    return _route(ctx, pos, _none, OPT)


# ----------------------------------------------------------------------------- more iterator adapters / consumers
@M.reg("core::iter::traits::iterator::Iterator::map")
def m_iter_map(ctx):
    it = to_iter(ctx, ctx.args[0])
    if mutating_closure(ctx, ctx.args[1]):
        ctx.pre("closure passed to an iterator adapter writes to captured state (not modelled)", False)
    return Iter("map", it, ctx.args[1], None, it.finite)


@M.reg("core::iter::traits::iterator::Iterator::filter_map", "core::iter::traits::iterator::Iterator::filter")
def m_iter_filter(ctx):
    it = to_iter(ctx, ctx.args[0])
    if mutating_closure(ctx, ctx.args[1]):
        ctx.pre("closure passed to an iterator adapter writes to captured state (not modelled)", False)
    return Iter("filter_map" if ctx.r["def"].endswith("filter_map") else "filter", it, ctx.args[1], None, it.finite)


@M.reg("core::iter::traits::iterator::Iterator::skip")
def m_iter_skip(ctx):
    it = to_iter(ctx, ctx.args[0])
    return Iter("skip", it, None, scalar_arg(ctx, ctx.args[1]), it.finite)


_iter_item0 = iter_item


def iter_item(ctx, it, tag):  # noqa: F811  (extends the item function above with the new adapter kinds)
    k = it.kind
    if k == "map":
        item, end = iter_item(ctx, it.a, tag + "m")
        if item is None:
            return None, end
        r = call_callable(ctx, it.b, [item], tag + "mf")
        return (r if r is not None else Opaque()), end
    if k in ("filter", "filter_map"):
        item, end = iter_item(ctx, it.a, tag + "f")
        if item is None:
            return None, True
        if k == "filter":
            cell = ("fit",) + ctx.site + (tag,)
            ctx.S.cells[cell] = item
            call_callable(ctx, it.b, [Ref(cell, (), False)], tag + "ff")
            return item, True
        r = call_callable(ctx, it.b, [item], tag + "ff")
        if isinstance(r, Enum) and r.path == OPT:
            if "Some" not in r.variants:
                return None, True
            return r.variants["Some"][0], True
        return Opaque(), True
    if k == "skip":
        item, end = iter_item(ctx, it.a, tag + "s")
        return item, True
    if k == "range":
        I, S = ctx.I, ctx.S
        lo_, hi_ = it.a, it.b  # Scalars
        rng = I.st.range(lo_.sym)
        idx = ctx.fresh(tag + "ri", rng)
        S.add_fact(S.term(lo_.sym).sub(Lin.var(idx)))  # lo <= idx
        S.add_fact(Lin.var(idx).sub(S.term(hi_.sym)).addc(0 if it.n == "inclusive" else 1))  # idx < hi
        if S.dead:
            return None, True  # empty range: no item (callers evaluate items in a copy of their state)
        return Scalar(idx), True
    return _iter_item0(ctx, it, tag)


@M.reg_re(r"as core::iter::traits::iterator::Iterator>::next$|as core::iter::traits::double_ended::DoubleEndedIterator>::next_back$|^core::iter::range::<impl core::iter::traits::iterator::Iterator for core::ops::range::Range(Inclusive)?<A>>::next$")
def m_next2(ctx):
    it = ctx.deref(ctx.args[0], "self")
    if isinstance(it, Struct) and it.path in ("core::ops::range::Range", "core::ops::range::RangeInclusive"):
        it = range_iter(ctx, it)
    if not isinstance(it, Iter):
        return ctx.top_ret()
    T = ctx.S.copy()
    c2 = _sub_ctx(ctx, T, "nx")
    item, may_end = iter_item(c2, it, "nx")
    ctx.I.iter_sites[(ctx.frame, ctx.bi)] = bool(it.finite) and it.kind != "opaque"
    for h in ctx.I.hooks:
        h("iter_next", interp=ctx.I, ctx=ctx, it=it, item=item, item_state=T)
    if it.kind == "chars" and it.n is None and isinstance(ctx.args[0], Ref) and ctx.args[0].cell is not None:
        # the iterator is no longer at the start of the string (in both outcomes)
        moved = Iter("chars", it.a, it.b, "advanced", it.finite)
        for X in (T, ctx.S):
            if not X.dead:
                ctx.I.write(X, ctx.args[0].cell, ctx.args[0].path, moved, ctx.site + ("chadv",))
    cases = []
    if item is not None and not T.dead:
        cases.append((T, some(item)))
    if may_end or item is None:
        cases.append((ctx.S.copy(), none()))
    return join_cases(ctx, cases, "next")


M.patterns = [(rx, fn) for rx, fn in M.patterns if fn is not m_next]


def range_iter(ctx, r):
    if r.path == "core::ops::range::Range" and len(r.fields) == 2 and all(isinstance(x, Scalar) for x in r.fields):
        return Iter("range", r.fields[0], r.fields[1], "exclusive", True)
    if r.path == "core::ops::range::RangeInclusive" and len(r.fields) >= 2 and all(isinstance(x, Scalar) for x in r.fields[:2]):
        return Iter("range", r.fields[0], r.fields[1], "inclusive", True)
    return Iter("opaque", None, None, None, False)


_to_iter0 = to_iter


def to_iter(ctx, v, tag="it"):  # noqa: F811
    if isinstance(v, Struct) and v.path in ("core::ops::range::Range", "core::ops::range::RangeInclusive"):
        return range_iter(ctx, v)
    return _to_iter0(ctx, v, tag)


@M.reg("<I as core::iter::traits::collect::IntoIterator>::into_iter")
def m_into_iter2(ctx):
    return to_iter(ctx, ctx.args[0])


@M.reg("alloc::vec::Vec::<T, A>::extend", "<alloc::vec::Vec<T, A> as core::iter::traits::collect::Extend<T>>::extend", "<alloc::vec::Vec<T, A> as core::iter::traits::collect::Extend<&'a T>>::extend")
def m_vec_extend(ctx):
    S, I = ctx.S, ctx.I
    ref = ctx.args[0]
    v = ctx.deref(ref, "vec")
    it = to_iter(ctx, ctx.args[1])
    if not (isinstance(ref, Ref) and ref.cell is not None and isinstance(v, Seq)) or it.kind == "opaque":
        ctx.pre("Vec::extend with a finite, modelled iterator", False)
        if isinstance(ref, Ref) and ref.cell is not None:
            I.write(S, ref.cell, ref.path, Opaque(), ctx.site + ("xw",))
        return UNIT
    ctx.pre("Vec::extend with a finite iterator", bool(it.finite))
    T = S.copy()
    c2 = _sub_ctx(ctx, T, "xi")
    item, _ = iter_item(c2, it, "xt")
    # state after zero items: unchanged; after >= 1 item: one more element kind, longer
    cases = [(S.copy(), v)]
    if item is not None and not T.dead:
        ns = c2.fresh("xlen", I.len_rng(), D.rng(1, I.max_len()))
        T.add_fact(T.term(v.len).sub(Lin.var(ns)).addc(1))  # old len + 1 <= new len
        el = item if v.elem is None else I.join_vals(T, [v.elem, item], ctx.site + ("xj",))
        cases.append((T, Seq(v.kind, ns, el, (), None, v.prov)))
    out = join_cases(ctx, cases, "extend")
    if out is not None:
        I.write(ctx.S, ref.cell, ref.path, out, ctx.site + ("xw",))
    return UNIT


@M.reg("core::iter::traits::iterator::Iterator::find")
def m_iter_find(ctx):
    it = ctx.deref(ctx.args[0], "self")
    if not isinstance(it, Iter):
        return ctx.top_ret()
    if mutating_closure(ctx, ctx.args[1]):
        ctx.pre("closure passed to an iterator consumer writes to captured state (not modelled)", False)
    got = run_closure_over(ctx, it, ctx.args[1], "fd", by_ref=True)
    cases = [(ctx.S.copy(), none())]
    if got is not None:
        T, item, _ = got
        cases.append((T, some(item)))
    return join_cases(ctx, cases, "find")


# ----------------------------------------------------------------------------- Option<&T> / strings / more slices
@M.reg("core::option::Option::<&T>::copied", "core::option::Option::<&T>::cloned", "core::option::Option::<&mut T>::copied")
def m_opt_copied(ctx):
    e = ctx.args[0]
    if not isinstance(e, Enum):
        return ctx.top_ret()
    vs = {}
    for k, fs in e.variants.items():
        vs[k] = tuple((ctx.deref(x, "oc") if isinstance(x, Ref) else x) for x in fs)
    return Enum(OPT, vs, dict(e.when))


@M.reg("alloc::string::String::push", "alloc::string::String::push_str")
def m_string_push(ctx):
    S, I = ctx.S, ctx.I
    ref = ctx.args[0]
    v = ctx.deref(ref, "str")
    if isinstance(ref, Ref) and ref.cell is not None and isinstance(v, Seq):
        if ctx.r["def"].endswith("push_str"):
            q, _ = seq_of(ctx, ctx.args[1], "ps")
            add = S.term(len_sym(ctx, q)) if isinstance(q, (Seq, Arr)) else None
        else:
            add = None  # a char is 1..=4 bytes
        if add is not None:
            nl = S.term(v.len).add(add)
            ns = ctx.fresh("slen", I.len_rng(), D.meet(S.eval(nl), D.rng(0, I.max_len())), nl)
        else:
            ns = ctx.fresh("slen", I.len_rng(), D.rng(1, I.max_len()))
            S.add_fact(S.term(v.len).sub(Lin.var(ns)).addc(1))
        I.write(S, ref.cell, ref.path, Seq(v.kind, ns, v.elem, (), None, v.prov), ctx.site + ("spw",))
    elif isinstance(ref, Ref) and ref.cell is not None:
        I.write(S, ref.cell, ref.path, Opaque(), ctx.site + ("spw",))
    return UNIT


@M.reg("core::str::<impl str>::strip_prefix", "core::str::<impl str>::strip_suffix", "core::slice::<impl [T]>::strip_prefix", "core::slice::<impl [T]>::strip_suffix")
def m_strip(ctx):
    S = ctx.S
    v, ref = seq_of(ctx, ctx.args[0])
    if not isinstance(v, Seq):
        return ctx.top_ret()
    ns = ctx.fresh("strip", ctx.I.len_rng(), D.rng(0, ctx.I.max_len()))
    S.add_fact(Lin.var(ns).sub(S.term(v.len)))  # shorter or equal
    out = Seq(v.kind, ns, v.elem, (), None, v.prov | (frozenset([("suffix-of", ref.cell)]) if ref is not None and ctx.r["def"].endswith("prefix") else frozenset()))
    return option(derived(ctx, out, "stripped"))


@M.reg("core::slice::ascii::<impl [u8]>::trim_ascii", "core::slice::ascii::<impl [u8]>::trim_ascii_start", "core::slice::ascii::<impl [u8]>::trim_ascii_end", "core::str::<impl str>::trim_ascii", "core::str::<impl str>::trim_start", "core::str::<impl str>::trim_end")
def m_trim_ascii(ctx):
    S = ctx.S
    v, ref = seq_of(ctx, ctx.args[0])
    if not isinstance(v, Seq):
        return ctx.top_ret()
    ns = ctx.fresh("trimmed", ctx.I.len_rng(), D.rng(0, ctx.I.max_len()))
    S.add_fact(Lin.var(ns).sub(S.term(v.len)))
    return derived(ctx, Seq(v.kind, ns, v.elem, v.efacts, None, v.prov | (frozenset([("substr-of", ref.cell)]) if ref is not None else frozenset())), "trimmed")


@M.reg("core::slice::<impl [T]>::contains")
def m_slice_contains(ctx):
    return bool_top(ctx)


@M.reg("core::slice::<impl [T]>::last_chunk")
def m_last_chunk(ctx):
    from .models import arr_of_fresh

    S = ctx.S
    n = ctx.garg_const(0)
    v, ref = seq_of(ctx, ctx.args[0])
    ln = len_sym(ctx, v)
    d = Lin.const(n).sub(S.term(ln))
    can_some = not S.entails(d.scale(-1).addc(1))
    can_none = not S.entails(d)
    # the last n bytes: offsets are relative to the end, so no byte-offset provenance is given
    if isinstance(v, Seq):
        v = Seq(v.kind, v.len, v.elem, v.efacts, None, frozenset(t for t in v.prov if t[0] != "read"))
    head = derived(ctx, arr_of_fresh(ctx, v, n, "lc"), "h")
    vs, w = {}, {}
    if can_none:
        vs["None"] = ()
        w["None"] = Delta({}, [d.scale(-1).addc(1)])
    if can_some:
        vs["Some"] = (head,)
        w["Some"] = Delta({}, [d])
    return Enum(OPT, vs, w)


M.exact["<alloc::vec::Vec<T, A> as core::ops::index::Index<I>>::index"] = M.exact["core::slice::index::<impl core::ops::index::Index<I> for [T]>::index"]
M.exact["<alloc::vec::Vec<T, A> as core::ops::index::IndexMut<I>>::index_mut"] = M.exact["core::slice::index::<impl core::ops::index::Index<I> for [T]>::index"]


M.patterns.append((__import__("re").compile(r"as core::iter::traits::iterator::Iterator>::find$"), m_iter_find))
M.patterns.append((__import__("re").compile(r"as core::iter::traits::iterator::Iterator>::map$"), m_iter_map))
M.patterns.append((__import__("re").compile(r"as core::iter::traits::iterator::Iterator>::(filter|filter_map)$"), m_iter_filter))
M.patterns.append((__import__("re").compile(r"as core::iter::traits::iterator::Iterator>::skip$"), m_iter_skip))


@M.reg("core::array::<impl core::convert::TryFrom<&'a [T]> for &'a [T; N]>::try_from", "core::array::<impl core::convert::TryFrom<&'a mut [T]> for &'a mut [T; N]>::try_from")
def m_array_ref_try_from(ctx):
    from .models import arr_of_fresh

    S = ctx.S
    n = ctx.garg_const(0)
    v, ref = seq_of(ctx, ctx.args[0])
    ln = len_sym(ctx, v)
    r = S.decide_cmp("Eq", S.term(ln), Lin.const(n))
    arr = derived(ctx, arr_of_fresh(ctx, v, n, "rtf"), "rtf")
    if r is True:
        return Enum(RES, {"Ok": (arr,)})
    if r is False:
        return Enum(RES, {"Err": (Opaque(),)})
    return result(arr, Opaque())


@M.reg("alloc::slice::<impl [T]>::concat", "alloc::str::<impl [S]>::concat", "alloc::slice::<impl [T]>::join", "alloc::str::<impl [S]>::join")
def m_concat(ctx):
    # an owned string / vector made of the parts: nothing is tracked but that it is a sequence
    return ctx.top_ret()


# enum constructors used as functions (`.map(Some)`, `.map_err(Err)`)
@M.reg("core::option::Option::Some")
def m_ctor_some(ctx):
    return Enum(OPT, {"Some": (ctx.args[0],)})


@M.reg("core::result::Result::Ok")
def m_ctor_ok(ctx):
    return Enum(RES, {"Ok": (ctx.args[0],)})


@M.reg("core::result::Result::Err")
def m_ctor_err(ctx):
    return Enum(RES, {"Err": (ctx.args[0],)})


# the remaining ASCII class predicates of u8 / char (documented value sets)
_ASCII_CLASSES = {
    "is_ascii_alphanumeric": [(48, 57), (65, 90), (97, 122)],
    "is_ascii_uppercase": [(65, 90)],
    "is_ascii_lowercase": [(97, 122)],
    "is_ascii_hexdigit": [(48, 57), (65, 70), (97, 102)],
    "is_ascii_punctuation": [(33, 47), (58, 64), (91, 96), (123, 126)],
    "is_ascii_graphic": [(33, 126)],
    "is_ascii_control": [(0, 31), (127, 127)],
    "is_ascii": [(0, 127)],
}


def _mk_ascii(ranges):
    return lambda ctx: ascii_pred(ctx, ranges)


for _n, _r in _ASCII_CLASSES.items():
    for _p in ("core::num::<impl u8>::", "core::char::methods::<impl char>::"):
        M.exact[_p + _n] = _mk_ascii(_r)


# adapters that yield a subset of the inner iterator's items, in order
@M.reg("core::iter::traits::iterator::Iterator::step_by")
def m_iter_step_by(ctx):
    it = to_iter(ctx, ctx.args[0])
    n = scalar_arg(ctx, ctx.args[1])
    ctx.pre("step_by step != 0", n is not None and D.lo(ctx.S.ivof(n)) >= 1)
    return Iter("skip", it, None, None, it.finite)


@M.reg("core::iter::traits::iterator::Iterator::skip_while", "core::iter::traits::iterator::Iterator::take_while")
def m_iter_skip_while(ctx):
    it = to_iter(ctx, ctx.args[0])
    if mutating_closure(ctx, ctx.args[1]):
        ctx.pre("closure passed to an iterator adapter writes to captured state (not modelled)", False)
    return Iter("filter", it, ctx.args[1], None, it.finite)


@M.reg("core::str::<impl str>::split_once", "core::str::<impl str>::rsplit_once")
def m_split_once(ctx):
    S = ctx.S
    v, ref = seq_of(ctx, ctx.args[0])
    if not isinstance(v, Seq):
        return ctx.top_ret()
    parts = []
    for tag in ("so0", "so1"):
        ns = ctx.fresh(tag, ctx.I.len_rng(), D.rng(0, ctx.I.max_len()))
        S.add_fact(Lin.var(ns).sub(S.term(v.len)))
        parts.append(derived(ctx, Seq(v.kind, ns, v.elem, (), None, v.prov), tag))
    return option(Struct("tuple", parts))


@M.reg("core::cmp::Ordering::then_with", "core::cmp::Ordering::then")
def m_ordering_then(ctx):
    # Ordering::Equal => the other ordering (closure result), else self: any Ordering either way
    if ctx.r["def"].endswith("then_with"):
        f = ctx.args[1]
        if mutating_closure(ctx, f):
            ctx.pre("closure passed to a std combinator writes to captured state (not modelled)", False)
        T = ctx.S.copy()
        c2 = _sub_ctx(ctx, T, "tw")
        call_callable(c2, f, [], "tw")
        # the closure runs in a copy: it may not run at all, and its (pure) result is any Ordering
    return ctx.top_ret()


@M.reg("<alloc::vec::Vec<T, A> as core::convert::AsRef<[T]>>::as_ref", "<alloc::vec::Vec<T, A> as core::convert::AsRef<alloc::vec::Vec<T, A>>>::as_ref", "<[T] as core::convert::AsRef<[T]>>::as_ref", "<str as core::convert::AsRef<[u8]>>::as_ref", "<alloc::string::String as core::convert::AsRef<str>>::as_ref", "<alloc::string::String as core::convert::AsRef<[u8]>>::as_ref", "<str as core::convert::AsRef<str>>::as_ref")
def m_as_ref_view(ctx):
    return M.exact["core::str::<impl str>::as_bytes"](ctx)


@M.reg_re(r"^core::num::<impl i(\d+|size)>::checked_abs$")
def m_checked_abs(ctx):
    """None exactly for the minimum value; otherwise Some(|x|)."""
    S, I = ctx.S, ctx.I
    a = scalar_arg(ctx, ctx.args[0])
    if a is None:
        return ctx.top_ret()
    r = I.st.range(a)
    iv = S.ivof(a)
    lo = r[0]
    can_none = D.contains(iv, lo)
    rest = D.remove_point(iv, lo)
    vs, w = {}, {}
    if can_none:
        vs["None"] = ()
        w["None"] = Delta({a: D.point(lo)})
    if rest:
        pos = D.meet(rest, D.rng(0, r[1]))
        negs = D.meet(rest, D.rng(lo + 1, -1))
        absiv = D.join(pos, D.neg(negs)) if (pos and negs) else (pos if pos else D.neg(negs))
        out = ctx.fresh("cabs", (0, r[1]), absiv)
        S.absd[out] = a
        vs["Some"] = (Scalar(out),)
        w["Some"] = Delta({a: rest})
    return Enum(OPT, vs, w)


# (the generic "total integer function" pattern above would match first: put the precise model in front)
M.patterns.insert(0, (__import__("re").compile(r"^core::num::<impl i(\d+|size)>::checked_abs$"), m_checked_abs))


@M.reg("core::iter::sources::once::once")
def m_iter_once(ctx):
    cell = ("once",) + ctx.site
    ctx.S.cells[cell] = Arr([ctx.args[0]])
    return Iter("copied", Iter("slice", Ref(cell, (), False)), None, None, True)


# bool::then_some / bool::then, Option::flatten, is_some_and / is_ok_and
def _bool_cases(ctx, b, on_true, on_false, tag):
    S = ctx.S
    if not isinstance(b, Scalar):
        return ctx.top_ret()
    cases = []
    for v, fn in ((1, on_true), (0, on_false)):
        if not D.contains(S.bool_value(b.sym), v):
            continue
        T = S.copy()
        T.assume_sym(b.sym, D.point(v))
        if T.dead:
            continue
        c2 = _sub_ctx(ctx, T, tag + str(v))
        cases.append((T, fn(c2)))
    return join_cases(ctx, cases, tag)


@M.reg("core::bool::<impl bool>::then_some")
def m_then_some(ctx):
    return _bool_cases(ctx, ctx.args[0], lambda c: _some(c.args[1]), lambda c: _none(), "ts")


@M.reg("core::bool::<impl bool>::then")
def m_then(ctx):
    def on_true(c):
        r = call_callable(c, c.args[1], [], "then")
        return _some(r if r is not None else Opaque())

    return _bool_cases(ctx, ctx.args[0], on_true, lambda c: _none(), "th")


@M.reg("core::option::Option::<core::option::Option<T>>::flatten")
def m_opt_flatten(ctx):
    e = ctx.args[0]
    if not isinstance(e, Enum):
        return ctx.top_ret()
    return _route(ctx, lambda c, payload: payload if isinstance(payload, Enum) else c.top_ret(), _none, OPT)


@M.reg("core::option::Option::<T>::is_some_and", "core::result::Result::<T, E>::is_ok_and", "core::option::Option::<T>::is_none_or")
def m_is_some_and(ctx):
    e = ctx.args[0]
    if not isinstance(e, Enum):
        return bool_top(ctx)
    kind = OPT if e.path == OPT else RES
    neg = ctx.r["def"].endswith("is_none_or")

    def const_bool(v):
        return lambda c, payload: Scalar(c.I.const_sym(v, (0, 1), c.S))

    return _route(ctx, _callf(1), const_bool(1 if neg else 0), kind)


@M.reg_re(r"^core::cmp::Ordering::(is_eq|is_ne|is_lt|is_gt|is_le|is_ge|reverse)$")
def m_ordering_pred(ctx):
    return ctx.top_ret() if ctx.r["def"].endswith("reverse") else bool_top(ctx)


@M.reg("core::ops::range::RangeInclusive::<Idx>::new")
def m_range_inclusive_new(ctx):
    return Struct("core::ops::range::RangeInclusive", [ctx.args[0], ctx.args[1], Scalar(ctx.I.const_sym(0, (0, 1), ctx.S))])

from . import models3  # noqa: E402,F401  (exact first-character tests; registers over the coarse models)
