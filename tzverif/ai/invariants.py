"""Invariant table (DESIGN §6.1): assumed for every crate-typed input of a root, proven for every
value a root hands out.  Ranges are the ones documented on the struct fields."""
from . import domain as D
from .domain import Lin
from .values import Arr, Enum, Opaque, Ref, Scalar, Seq, Struct

H = 3600
ALPHABET = D.norm([(43, 43), (45, 45), (48, 57), (65, 90), (97, 122)])


class FieldRanges:
    def __init__(self, ranges, why):
        self.ranges = ranges  # field name -> IS
        self.why = why

    def fields(self, t):
        return {f["name"]: i for i, f in enumerate(t["variants"][0]["fields"])}

    def assume(self, I, val, t, S, key):
        idx = self.fields(t)
        for name, iv in self.ranges.items():
            i = idx.get(name)
            if i is None:
                I.note("ANCHOR-MISSING", "invariant table names field %s of %s which does not exist" % (name, t["path"]))
                continue
            f = val.fields[i]
            if isinstance(f, Scalar):
                S.refine(f.sym, iv)
        return val

    def check(self, I, val, t, S):
        bad = []
        idx = self.fields(t)
        for name, iv in self.ranges.items():
            i = idx.get(name)
            if i is None:
                bad.append("field %s missing" % name)
                continue
            f = val.fields[i]
            if not isinstance(f, Scalar) or not D.subset(S.ivof(f.sym), iv):
                bad.append("%s ∈ %s not within %s" % (name, D.fmt(S.ivof(f.sym)) if isinstance(f, Scalar) else "?", D.fmt(iv)))
        return bad


class AsciiStr:
    """TzAsciiStr { bytes: [u8; 8] }: bytes[0] in [3,7]; bytes[1..8] in {0} ∪ alphabet."""
    why = "length-prefixed designation buffer"

    def assume(self, I, val, t, S, key):
        arr = val.fields[0]
        if isinstance(arr, Arr) and len(arr.elems) == 8:
            if isinstance(arr.elems[0], Scalar):
                S.refine(arr.elems[0].sym, D.rng(3, 7))
            for e in arr.elems[1:]:
                if isinstance(e, Scalar):
                    S.refine(e.sym, D.join(D.point(0), ALPHABET))
        return val

    def check(self, I, val, t, S):
        bad = []
        arr = val.fields[0]
        if not (isinstance(arr, Arr) and len(arr.elems) == 8):
            return ["bytes is not a tracked [u8; 8]"]
        e0 = arr.elems[0]
        if not isinstance(e0, Scalar) or not D.subset(S.ivof(e0.sym), D.rng(3, 7)):
            bad.append("bytes[0] ∈ %s not within [3,7]" % (D.fmt(S.ivof(e0.sym)) if isinstance(e0, Scalar) else "?"))
        for n, e in enumerate(arr.elems[1:], 1):
            if not isinstance(e, Scalar) or not D.subset(S.ivof(e.sym), D.join(D.point(0), ALPHABET)):
                bad.append("bytes[%d] ∈ %s not within {0} ∪ [0-9A-Za-z+-]" % (n, D.fmt(S.ivof(e.sym)) if isinstance(e, Scalar) else "?"))
        return bad


class NewtypeRange:
    def __init__(self, iv, why):
        self.iv = iv
        self.why = why

    def assume(self, I, val, t, S, key):
        if isinstance(val.fields[0], Scalar):
            S.refine(val.fields[0].sym, self.iv)
        return val

    def check(self, I, val, t, S):
        f = val.fields[0]
        if isinstance(f, Scalar) and D.subset(S.ivof(f.sym), self.iv):
            return []
        return [".0 ∈ %s not within %s" % (D.fmt(S.ivof(f.sym)) if isinstance(f, Scalar) else "?", D.fmt(self.iv))]


class Zone:
    """TimeZoneRef / TimeZone: len(local_time_types) >= 1 and every transition's index < that length."""
    why = "validated by check_inputs"

    def parts(self, I, val, t, S):
        idx = {f["name"]: i for i, f in enumerate(t["variants"][0]["fields"])}
        out = {}
        for name in ("transitions", "local_time_types", "leap_seconds"):
            i = idx.get(name)
            if i is None:
                return None
            v = val.fields[i]
            loc = None
            if isinstance(v, Ref):
                loc = v
                v = I.read(S, v.cell, v.path, ("inv", name)) if v.cell is not None else None
            out[name] = (v, loc, i)
        return out

    def assume(self, I, val, t, S, key):
        p = self.parts(I, val, t, S)
        if p is None:
            I.note("ANCHOR-MISSING", "zone invariant: fields of %s not found" % t["path"])
            return val
        ltt, _, _ = p["local_time_types"]
        tr, trloc, tri = p["transitions"]
        if isinstance(ltt, Seq):
            S.refine(ltt.len, D.rng(1, D.hi(S.ivof(ltt.len))))
            if isinstance(tr, Seq) and isinstance(tr.elem, Struct):
                fi = self.index_field(I, tr.elem)
                if fi is not None:
                    ef = ((fi,), Lin({("ELEM",): 1, ltt.len: -1}, 1))
                    new = Seq(tr.kind, tr.len, tr.elem, tr.efacts + (ef,), tr.data, tr.prov)
                    if trloc is not None and trloc.cell is not None:
                        I.write(S, trloc.cell, trloc.path, new, ("inv", "w"))
                    else:
                        fs = list(val.fields)
                        fs[tri] = new
                        val = Struct(val.path, fs)
        return val

    def index_field(self, I, elem):
        adt = I.f.adt_by_path.get(elem.path)
        if adt is None:
            return None
        for i, f in enumerate(adt["variants"][0]["fields"]):
            if I.f.ty(f["ty"]).get("ptr_sized") and not I.f.ty(f["ty"])["signed"]:
                return i
        return None

    def check(self, I, val, t, S):
        p = self.parts(I, val, t, S)
        if p is None:
            return ["zone fields not found"]
        bad = []
        ltt, _, _ = p["local_time_types"]
        tr, _, _ = p["transitions"]
        if isinstance(ltt, Arr):
            n = len(ltt.elems)
            if n < 1:
                bad.append("local_time_types is empty")
            lnt = Lin.const(n)
        elif isinstance(ltt, Seq):
            if D.lo(S.ivof(ltt.len)) < 1:
                bad.append("len(local_time_types) ∈ %s not proven >= 1" % D.fmt(S.ivof(ltt.len)))
            lnt = S.term(ltt.len)
        else:
            return ["local_time_types not tracked"]
        if isinstance(tr, Arr):
            if tr.elems:
                bad.append("transitions is a non-empty literal array (not analysed)")
        elif isinstance(tr, Seq):
            if D.hi(S.ivof(tr.len)) == 0 or tr.elem is None:
                return bad
            if not isinstance(tr.elem, Struct):
                return bad + ["transition summary not tracked"]
            fi = self.index_field(I, tr.elem)
            ok = False
            if fi is not None:
                for path, lin in tr.efacts:
                    if path == (fi,):
                        # ELEM - X + 1 <= 0 with X == len(local_time_types)
                        rest = lin.sub(Lin({("ELEM",): 1}, 1))
                        g = rest.add(lnt)  # -X + len <= 0 ?
                        if S.entails(S.expand(Lin({k: v for k, v in g.t.items()}, g.c))) :
                            ok = True
                f = tr.elem.fields[fi]
                if not ok and isinstance(f, Scalar):
                    ok = S.entails(S.term(f.sym).sub(lnt).addc(1))
            if not ok:
                bad.append("∀ transition: local_time_type_index < len(local_time_types) not proven")
        else:
            bad.append("transitions not tracked")
        return bad


class BufList:
    """FoundDateTimeListRefMut: current_index <= count, current_index <= len(buf)."""
    why = "maintained by push"

    def get(self, I, val, t, S):
        idx = {f["name"]: i for i, f in enumerate(t["variants"][0]["fields"])}
        try:
            buf = val.fields[idx["buf"]]
            ci = val.fields[idx["current_index"]]
            cnt = val.fields[idx["count"]]
        except KeyError:
            return None
        b = I.read(S, buf.cell, buf.path, ("inv", "buf")) if isinstance(buf, Ref) and buf.cell is not None else None
        return b, ci, cnt

    def assume(self, I, val, t, S, key):
        g = self.get(I, val, t, S)
        if g is None:
            I.note("ANCHOR-MISSING", "buffer-list invariant: fields not found")
            return val
        b, ci, cnt = g
        if isinstance(ci, Scalar) and isinstance(cnt, Scalar):
            S.add_fact(Lin({ci.sym: 1, cnt.sym: -1}))
            if isinstance(b, Seq):
                S.add_fact(S.expand(Lin({ci.sym: 1}).sub(S.term(b.len))))
        return val

    def check(self, I, val, t, S):
        g = self.get(I, val, t, S)
        if g is None:
            return ["fields not found"]
        b, ci, cnt = g
        bad = []
        if not (isinstance(ci, Scalar) and isinstance(cnt, Scalar)):
            return ["counters not tracked"]
        if not S.entails(S.term(ci.sym).sub(S.term(cnt.sym))):
            bad.append("current_index <= count not proven")
        if isinstance(b, Seq):
            if not S.entails(S.term(ci.sym).sub(S.term(b.len))):
                bad.append("current_index <= len(buf) not proven")
        elif isinstance(b, Arr):
            if not S.entails(S.term(ci.sym).addc(-len(b.elems))):
                bad.append("current_index <= len(buf) not proven")
        return bad


DT = {"month": D.rng(1, 12), "month_day": D.rng(1, 31), "hour": D.rng(0, 23), "minute": D.rng(0, 59), "second": D.rng(0, 60)}
I32 = D.rng(-(1 << 31) + 1, (1 << 31) - 1)

INVARIANTS = {
    "tz::datetime::UtcDateTime": FieldRanges(DT, "check_date_time_inputs / from_timespec"),
    "tz::datetime::DateTime": FieldRanges(DT, "check_date_time_inputs / from_timespec"),
    "tz::timezone::LocalTimeType": FieldRanges({"ut_offset": I32}, "new / with_ut_offset / utc refuse i32::MIN"),
    "tz::timezone::TzAsciiStr": AsciiStr(),
    "tz::timezone::rule::Julian1WithoutLeap": NewtypeRange(D.rng(1, 365), "new"),
    "tz::timezone::rule::Julian0WithLeap": NewtypeRange(D.rng(0, 365), "new"),
    "tz::timezone::rule::MonthWeekDay": FieldRanges({"month": D.rng(1, 12), "week": D.rng(1, 5), "week_day": D.rng(0, 6)}, "new"),
    "tz::timezone::rule::AlternateTime": FieldRanges({"dst_start_time": D.rng(-604799, 604799), "dst_end_time": D.rng(-604799, 604799)}, "new"),
    "tz::timezone::TimeZoneRef": Zone(),
    "tz::timezone::TimeZone": Zone(),
    "tz::datetime::find::FoundDateTimeListRefMut": BufList(),
}

# AlternateTime additionally bounds the offsets of its two local time types.
ALT_OFFSETS = D.rng(-25 * H + 1, 26 * H - 1)


class Alternate(FieldRanges):
    def assume(self, I, val, t, S, key):
        val = super().assume(I, val, t, S, key)
        idx = self.fields(t)
        for name in ("std", "dst"):
            i = idx.get(name)
            if i is not None and isinstance(val.fields[i], Struct):
                off = val.fields[i].fields[0]
                if isinstance(off, Scalar):
                    S.refine(off.sym, ALT_OFFSETS)
        return val

    def check(self, I, val, t, S):
        bad = super().check(I, val, t, S)
        idx = self.fields(t)
        for name in ("std", "dst"):
            i = idx.get(name)
            ok = False
            if i is not None and isinstance(val.fields[i], Struct):
                off = val.fields[i].fields[0]
                ok = isinstance(off, Scalar) and D.subset(S.ivof(off.sym), ALT_OFFSETS)
            if not ok:
                bad.append("%s.ut_offset not within (-25h, 26h)" % name)
        return bad


INVARIANTS["tz::timezone::rule::AlternateTime"] = Alternate({"dst_start_time": D.rng(-604799, 604799), "dst_end_time": D.rng(-604799, 604799)}, "new")


def bind(invariants, facts):
    """The table keyed by the ADT paths of this fact file.  A private type that was moved to another (private) module
    keeps its invariant: a key that names no ADT is re-keyed to the one crate ADT with the same final name, if there is
    exactly one."""
    by_path = getattr(facts, "adt_by_path", None)
    if not invariants or by_path is None:
        return invariants or {}
    out = {}
    for key, inv in invariants.items():
        if key in by_path:
            out[key] = inv
            continue
        last = key.rsplit("::", 1)[-1]
        crate = key.split("::", 1)[0] + "::"
        cands = [p_ for p_ in by_path if p_.startswith(crate) and p_.rsplit("::", 1)[-1] == last]
        out[cands[0] if len(cands) == 1 else key] = inv
    return out
