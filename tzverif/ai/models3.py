"""Exact models for the first-character tests of strings (used by the C20 PREFIX box theorems).

`s.starts_with(c)`, `s.strip_prefix(c)`, `s.chars().next()`, `s.contains(c)`, `s.ends_with(c)` for an ASCII
character (or one-byte string) constant c are decided from *element 0* of the string (read through the
element memo, so that every test of the same string value in one straight-line state sees the same byte),
instead of returning an unconstrained boolean.  Results that stay unknown although the model is exact (a
`contains` whose first byte differs: the rest of the string is unconstrained) are produced with
`exact=True` so that observers do not count them as imprecision of the interpreter."""
from . import domain as D
from .domain import Lin
from .models import M, bool_top, derived, len_sym, none, option, seq_of, some
from .models2 import _sub_ctx, join_cases
from .values import Delta, Enum, Iter, Ref, Scalar, Seq

FIRST = (("ci", 0, 1, False),)


def ascii_const(ctx, pat):
    """The byte value if the pattern argument is an ASCII `char` constant or a one-byte string constant."""
    S = ctx.S
    if isinstance(pat, Scalar):
        iv = S.ivof(pat.sym)
        if D.is_point(iv) and 0 <= D.lo(iv) < 0x80:
            tid = ctx.garg_ty(0)
            if tid is not None and ctx.I.types[tid]["k"] == "char":
                return D.lo(iv)
        return None
    v = pat
    for n in range(3):
        if isinstance(v, Ref) and v.cell is not None:
            v = ctx.deref(v, "pat%d" % n)
    if isinstance(v, Seq) and v.data is not None and len(v.data) == 1 and v.data[0] < 0x80:
        return v.data[0]
    return None


def first_byte(ctx, ref, S=None):
    """Scalar for element 0 of the string behind `ref` (memoised per string value), or None."""
    S = S if S is not None else ctx.S
    if not isinstance(ref, Ref) or ref.cell is None:
        return None
    b = ctx.I.read(S, ref.cell, tuple(ref.path) + FIRST, ctx.site + ("b0",))
    return b if isinstance(b, Scalar) else None


def const_bool(ctx, val):
    return Scalar(ctx.I.const_sym(1 if val else 0, (0, 1), ctx.S))


def first_is(ctx, v, ref, c, on_true, on_false, tag):
    """Three-way case split on `len >= 1 and s[0] == c`; on_true(ctx_T) / on_false(ctx_T) build the result in
    each case state; the cases are joined, so the result keeps `result == true => s[0] == c` as a refinement."""
    S = ctx.S
    ln = S.term(len_sym(ctx, v))
    cases = []
    # len >= 1 and s[0] == c
    T = S.copy()
    T.add_fact(Lin.const(1).sub(ln))
    if not T.dead:
        b = first_byte(ctx, ref, T)
        if b is None:
            return None
        T.assume_sym(b.sym, D.point(c))
        if not T.dead:
            cases.append((T, on_true(_sub_ctx(ctx, T, tag + "t"))))
    # len == 0
    T = S.copy()
    T.add_fact(ln)
    if not T.dead:
        cases.append((T, on_false(_sub_ctx(ctx, T, tag + "e"))))
    # len >= 1 and s[0] != c
    T = S.copy()
    T.add_fact(Lin.const(1).sub(ln))
    if not T.dead:
        b = first_byte(ctx, ref, T)
        if b is None:
            return None
        T.assume_sym(b.sym, D.remove_point(T.ivof(b.sym), c))
        if not T.dead:
            cases.append((T, on_false(_sub_ctx(ctx, T, tag + "f"))))
    return join_cases(ctx, cases, tag)


_prev_sw = M.exact.get("core::str::<impl str>::starts_with")


@M.reg("core::str::<impl str>::starts_with")
def m_str_starts_with(ctx):
    c = ascii_const(ctx, ctx.args[1]) if len(ctx.args) == 2 else None
    v, ref = seq_of(ctx, ctx.args[0])
    if c is None or not isinstance(v, Seq) or ref is None or v.data is not None:
        return _prev_sw(ctx)
    r = first_is(ctx, v, ref, c, lambda cx: const_bool(cx, True), lambda cx: const_bool(cx, False), "sw")
    return r if r is not None or ctx.S.dead else _prev_sw(ctx)


_prev_ct = M.exact.get("core::str::<impl str>::contains")


@M.reg("core::str::<impl str>::contains")
def m_str_contains(ctx):
    c = ascii_const(ctx, ctx.args[1]) if len(ctx.args) == 2 else None
    v, ref = seq_of(ctx, ctx.args[0])
    if c is None or not isinstance(v, Seq) or ref is None or v.data is not None:
        return _prev_ct(ctx)
    # first byte is c => true; otherwise the rest of the string decides: unknown, and exactly so
    r = first_is(ctx, v, ref, c, lambda cx: const_bool(cx, True), lambda cx: (const_bool(cx, False) if D.hi(cx.S.ivof(len_sym(cx, v))) <= 1 else bool_top(cx, exact=True)), "ct")
    return r if r is not None or ctx.S.dead else _prev_ct(ctx)


_prev_ew = M.exact.get("core::str::<impl str>::ends_with")


@M.reg("core::str::<impl str>::ends_with")
def m_str_ends_with(ctx):
    c = ascii_const(ctx, ctx.args[1]) if len(ctx.args) == 2 else None
    v, ref = seq_of(ctx, ctx.args[0])
    if c is None or not isinstance(v, Seq) or v.data is not None:
        return _prev_ew(ctx)
    S = ctx.S
    if D.hi(S.ivof(len_sym(ctx, v))) == 0:
        return const_bool(ctx, False)
    # the last byte is not tracked: unknown, exactly so (true implies a non-empty string)
    return bool_top(ctx, when={1: Delta({}, [Lin.const(1).sub(S.term(len_sym(ctx, v)))])}, exact=True)


_prev_strip = M.exact.get("core::str::<impl str>::strip_prefix")


@M.reg("core::str::<impl str>::strip_prefix")
def m_str_strip_prefix(ctx):
    c = ascii_const(ctx, ctx.args[1]) if len(ctx.args) == 2 else None
    v, ref = seq_of(ctx, ctx.args[0])
    if c is None or not isinstance(v, Seq) or ref is None or v.data is not None:
        return _prev_strip(ctx)

    def rest(cx):
        ns = cx.fresh("strip1", cx.I.len_rng(), D.rng(0, cx.I.max_len()))
        cx.S.lin[ns] = cx.S.term(v.len).addc(-1)
        out = Seq(v.kind, ns, v.elem, (), None, v.prov | frozenset([("suffix-of", ref.cell)]))
        return some(derived(cx, out, "stripped1"))

    r = first_is(ctx, v, ref, c, rest, lambda cx: none(), "sp")
    return r if r is not None or ctx.S.dead else _prev_strip(ctx)


def chars_first_item(ctx, it):
    """Interval of the first `char` of a string from its first byte: an ASCII byte is the character itself, a lead
    byte >= 0x80 starts a character >= 0x80."""
    S = ctx.S
    if not (isinstance(it, Iter) and it.kind == "chars" and it.n is None and isinstance(it.a, Ref)):
        return None
    b = first_byte(ctx, it.a)
    if b is None:
        return None
    iv = S.ivof(b.sym)
    lo_part = D.meet(iv, D.rng(0, 0x7F))
    out = lo_part
    if D.meet(iv, D.rng(0x80, 0xFF)):
        out = D.join(out, D.rng(0x80, 0x10FFFF)) if out else D.rng(0x80, 0x10FFFF)
    return out


_prev_split_once = M.exact.get("core::str::<impl str>::split_once")


@M.reg("core::str::<impl str>::split_once")
def m_str_split_once(ctx):
    """`s.split_once(c)`: the head is empty exactly when the first byte is c; otherwise (if a c occurs at all) the head
    is non-empty."""
    from .values import Struct

    c = ascii_const(ctx, ctx.args[1]) if len(ctx.args) == 2 else None
    v, ref = seq_of(ctx, ctx.args[0])
    if c is None or not isinstance(v, Seq) or ref is None or v.data is not None:
        return _prev_split_once(ctx)

    def parts(cx, head_empty):
        S = cx.S
        if head_empty:
            h = cx.I.const_sym(0, cx.I.len_rng(), S)
            t = cx.fresh("sot", cx.I.len_rng(), D.rng(0, cx.I.max_len()))
            S.lin[t] = S.term(v.len).addc(-1)
        else:
            h = cx.fresh("soh", cx.I.len_rng(), D.rng(1, cx.I.max_len()))
            t = cx.fresh("sot", cx.I.len_rng(), D.rng(0, cx.I.max_len()))
            S.add_fact(Lin.var(h).add(Lin.var(t)).addc(1).sub(S.term(v.len)))  # head + 1 + tail <= len
        head = Seq(v.kind, h, v.elem, (), None, v.prov | frozenset([("substr-of", ref.cell)]))
        tail = Seq(v.kind, t, v.elem, (), None, v.prov | frozenset([("suffix-of", ref.cell)]))
        return Struct("tuple", [derived(cx, head, "soh"), derived(cx, tail, "sot")])

    def later(cx):
        # the first byte is not c (or the string is empty): a c further on, or none at all — open, exactly so
        if D.hi(cx.S.ivof(len_sym(cx, v))) <= 1:
            return none()
        return option(parts(cx, False))

    r = first_is(ctx, v, ref, c, lambda cx: some(parts(cx, True)), later, "so")
    return r if r is not None or ctx.S.dead else _prev_split_once(ctx)


_prev_tostring = M.exact.get("<str as alloc::string::ToString>::to_string")


@M.reg("<str as alloc::string::ToString>::to_string", "alloc::str::<impl alloc::borrow::ToOwned for str>::to_owned", "<alloc::string::String as core::convert::From<&str>>::from")
def m_str_to_string(ctx):
    """An owned copy of a string: same length, same bytes, same provenance."""
    v, ref = seq_of(ctx, ctx.args[0])
    if isinstance(v, Seq) and v.kind == "str":
        return Seq("string", v.len, v.elem, v.efacts, v.data, v.prov)
    return ctx.top_ret()


# Functions whose model is exact as far as the *first byte* and the *identity* (whole / part) of a string are
# concerned.  The C20 PREFIX rule reports a refutation only if every foreign function that was given (a part of)
# the TZ value on the way is in this list and none of them answered imprecisely; otherwise it is inconclusive.
EXACT_ON_FIRST_BYTE = (
    "core::str::<impl str>::is_empty",
    "core::str::<impl str>::len",
    "core::str::<impl str>::as_bytes",
    "core::str::<impl str>::starts_with",
    "core::str::<impl str>::ends_with",
    "core::str::<impl str>::contains",
    "core::str::<impl str>::strip_prefix",
    "core::str::<impl str>::split_once",
    "core::str::<impl str>::chars",
    "core::str::<impl str>::trim_matches",
    "core::str::<impl str>::trim",
    "core::str::<impl str>::trim_ascii",
    "core::str::iter::Chars::<'a>::as_str",
    "<core::str::iter::Chars<'a> as core::iter::traits::iterator::Iterator>::next",
    "core::cmp::impls::<impl core::cmp::PartialEq<&B> for &A>::eq",
    "core::cmp::impls::<impl core::cmp::PartialEq<&B> for &A>::ne",
    "core::str::traits::<impl core::cmp::PartialEq for str>::eq",
    "core::str::traits::<impl core::cmp::PartialEq for str>::ne",
    "<core::option::Option<T> as core::cmp::PartialEq>::eq",
    "core::slice::<impl [T]>::first",
    "core::slice::<impl [T]>::is_empty",
    "core::slice::<impl [T]>::len",
    "core::fmt::rt::Argument::<'_>::new_display",
    "<str as alloc::string::ToString>::to_string",
    "alloc::str::<impl alloc::borrow::ToOwned for str>::to_owned",
    "<alloc::string::String as core::convert::From<&str>>::from",
    "<alloc::string::String as core::ops::deref::Deref>::deref",
    "alloc::string::String::as_str",
)
