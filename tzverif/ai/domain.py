"""Numeric domain of the abstract interpreter: finite unions of integer intervals, and linear terms.

An `IS` (interval set) is a sorted tuple of disjoint, non-adjacent closed intervals (lo, hi) over
Python ints.  () is bottom.  All scalars of tz-rs are bounded machine integers, so no infinities.
"""

MAX_PIECES = 24


def norm(pieces):
    ps = sorted(p for p in pieces if p[0] <= p[1])
    out = []
    for lo, hi in ps:
        if out and lo <= out[-1][1] + 1:
            if hi > out[-1][1]:
                out[-1] = (out[-1][0], hi)
        else:
            out.append((lo, hi))
    while len(out) > MAX_PIECES:
        # merge the closest pair
        best = min(range(len(out) - 1), key=lambda i: out[i + 1][0] - out[i][1])
        out[best:best + 2] = [(out[best][0], out[best + 1][1])]
    return tuple(out)


def rng(lo, hi):
    return ((lo, hi),) if lo <= hi else ()


def point(v):
    return ((v, v),)


def is_bottom(a):
    return len(a) == 0


def lo(a):
    return a[0][0]


def hi(a):
    return a[-1][1]


def join(a, b):
    if a == b:
        return a
    return norm(a + b)


def meet(a, b):
    if a == b:
        return a
    out = []
    i = j = 0
    while i < len(a) and j < len(b):
        l = max(a[i][0], b[j][0])
        h = min(a[i][1], b[j][1])
        if l <= h:
            out.append((l, h))
        if a[i][1] < b[j][1]:
            i += 1
        else:
            j += 1
    return tuple(out)


def subset(a, b):
    return meet(a, b) == a


def remove_point(a, v):
    out = []
    for l, h in a:
        if l <= v <= h:
            if l <= v - 1:
                out.append((l, v - 1))
            if v + 1 <= h:
                out.append((v + 1, h))
        else:
            out.append((l, h))
    return tuple(out)


def complement(a, universe):
    out = []
    cur = lo(universe)
    for l, h in a:
        if cur <= l - 1:
            out.append((cur, l - 1))
        cur = h + 1
    if cur <= hi(universe):
        out.append((cur, hi(universe)))
    return meet(tuple(out), universe)


def size(a):
    return sum(h - l + 1 for l, h in a)


def is_point(a):
    return len(a) == 1 and a[0][0] == a[0][1]


def contains(a, v):
    return any(l <= v <= h for l, h in a)


def values(a, limit=64):
    """Explicit values if there are at most `limit`, else None."""
    if size(a) > limit:
        return None
    out = []
    for l, h in a:
        out.extend(range(l, h + 1))
    return out


def _pairwise(a, b, f):
    if len(a) * len(b) <= 16:
        return norm([f(x, y) for x in a for y in b])
    return norm([f((lo(a), hi(a)), (lo(b), hi(b)))])


def add(a, b):
    if not a or not b:
        return ()
    return _pairwise(a, b, lambda x, y: (x[0] + y[0], x[1] + y[1]))


def sub(a, b):
    if not a or not b:
        return ()
    return _pairwise(a, b, lambda x, y: (x[0] - y[1], x[1] - y[0]))


def neg(a):
    return norm([(-h, -l) for l, h in a])


def mul(a, b):
    if not a or not b:
        return ()

    def f(x, y):
        c = [x[0] * y[0], x[0] * y[1], x[1] * y[0], x[1] * y[1]]
        return (min(c), max(c))

    return _pairwise(a, b, f)


def scale(a, k):
    if k >= 0:
        return norm([(l * k, h * k) for l, h in a])
    return norm([(h * k, l * k) for l, h in a])


def _tdiv(x, y):
    """Rust `/` (truncating)."""
    q = abs(x) // abs(y)
    return q if (x >= 0) == (y >= 0) else -q


def _trem(x, y):
    return x - _tdiv(x, y) * y


def div_trunc(a, b):
    """a / b with b not containing 0."""
    if not a or not b:
        return ()

    def f(x, y):
        c = [_tdiv(x[0], y[0]), _tdiv(x[0], y[1]), _tdiv(x[1], y[0]), _tdiv(x[1], y[1])]
        # truncation is monotone on each sign region; crossing zero in x adds 0
        if x[0] < 0 < x[1]:
            c.append(0)
        return (min(c), max(c))

    bs = []
    for l, h in b:
        if l <= 0 <= h:
            if l <= -1:
                bs.append((l, -1))
            if 1 <= h:
                bs.append((1, h))
        else:
            bs.append((l, h))
    return _pairwise(a, tuple(bs), f) if bs else ()


def rem_trunc(a, b):
    """a % b (sign follows the dividend); b must not contain 0."""
    if not a or not b:
        return ()
    m = max(abs(lo(b)), abs(hi(b)))
    d = abs(lo(b)) if is_point(b) else None
    pieces = []
    for l, h in a:
        if d is not None and l >= 0 and h - l < d and (l // d) == (h // d):
            pieces.append((l % d, h % d))
        elif d is not None and h <= 0 and h - l < d and ((-l) // d) == ((-h) // d):
            pieces.append((-((-l) % d), -((-h) % d)))
        elif l >= 0:
            pieces.append((0, min(h, m - 1)))
        elif h <= 0:
            pieces.append((max(l, -(m - 1)), 0))
        else:
            pieces.append((max(l, -(m - 1)), min(h, m - 1)))
    return norm(pieces)


def div_euclid(a, b):
    """Euclidean division by a positive divisor set."""
    if not a or not b:
        return ()
    out = []
    for l, h in a:
        for bl, bh in b:
            if bl <= 0:
                return None
            c = [l // bl, l // bh, h // bl, h // bh]
            out.append((min(c), max(c)))
    return norm(out)


def rem_euclid(a, b):
    if not a or not b:
        return ()
    if lo(b) <= 0:
        return None
    m = hi(b)
    out = []
    for l, h in a:
        if is_point(b) and h - l < m and (l // m) == (h // m):
            out.append((l % m, h % m))
        else:
            out.append((0, m - 1))
    return norm(out)


def widen(old, new, thresholds):
    """Widen `old` towards `new`: unstable bounds jump to the next threshold."""
    if not old:
        return new
    if not new:
        return old
    l, h = lo(old), hi(old)
    nl, nh = lo(new), hi(new)
    if nl < l:
        cands = [t for t in thresholds if t <= nl]
        nl = max(cands) if cands else nl
    else:
        nl = l
    if nh > h:
        cands = [t for t in thresholds if t >= nh]
        nh = min(cands) if cands else nh
    else:
        nh = h
    if nl == l and nh == h:
        # bounds stable: keep the holes both agree on
        return join(old, new)
    return rng(nl, nh)


def fmt(a):
    if not a:
        return "⊥"
    return "∪".join(("{%d}" % l) if l == h else "[%d,%d]" % (l, h) for l, h in a)


# ---------------------------------------------------------------------------
# Linear terms: (frozenset-free) dict sym -> coef plus constant, kept as (tuple(sorted items), const)


class Lin:
    __slots__ = ("t", "c", "_h")

    def __init__(self, t=None, c=0):
        self.t = {k: v for k, v in (t or {}).items() if v != 0}
        self.c = c
        self._h = None

    @staticmethod
    def const(c):
        return Lin({}, c)

    @staticmethod
    def var(s):
        return Lin({s: 1}, 0)

    def add(self, o):
        t = dict(self.t)
        for k, v in o.t.items():
            t[k] = t.get(k, 0) + v
        return Lin(t, self.c + o.c)

    def sub(self, o):
        t = dict(self.t)
        for k, v in o.t.items():
            t[k] = t.get(k, 0) - v
        return Lin(t, self.c - o.c)

    def scale(self, k):
        return Lin({s: v * k for s, v in self.t.items()}, self.c * k)

    def addc(self, c):
        return Lin(self.t, self.c + c)

    def is_const(self):
        return not self.t

    def single(self):
        """(sym, coef) if exactly one symbol."""
        if len(self.t) == 1:
            return next(iter(self.t.items()))
        return None

    def syms(self):
        return self.t.keys()

    def key(self):
        return (tuple(sorted(self.t.items(), key=lambda kv: repr(kv[0]))), self.c)

    def __eq__(self, o):
        return isinstance(o, Lin) and self.t == o.t and self.c == o.c

    def __hash__(self):
        h = self._h
        if h is None:
            h = self._h = hash((frozenset(self.t.items()), self.c))
        return h

    def subst(self, m):
        """Substitute syms by Lin terms (dict sym -> Lin)."""
        out = Lin({}, self.c)
        for s, k in self.t.items():
            if s in m:
                out = out.add(m[s].scale(k))
            else:
                out = out.add(Lin({s: k}, 0))
        return out

    def rename(self, m):
        t = {}
        for s, k in self.t.items():
            s2 = m.get(s, s)
            t[s2] = t.get(s2, 0) + k
        return Lin(t, self.c)

    def __repr__(self):
        parts = []
        for s, k in sorted(self.t.items(), key=lambda kv: repr(kv[0])):
            parts.append(("%s" % (s,)) if k == 1 else ("-%s" % (s,)) if k == -1 else "%d*%s" % (k, s))
        if self.c or not parts:
            parts.append(str(self.c))
        return " + ".join(parts).replace("+ -", "- ")
