"""Model table for extern (core / alloc / std) callees — DESIGN §3.5, §6.2.

Each model is `fn(ctx) -> abstract return value`; it may record precondition obligations with
`ctx.pre(name, ok)`.  A callee without a model is reported as UNMODELLED (fail closed)."""
import re

from . import domain as D
from .domain import Lin
from .values import BOT, Arr, Bot, BoxU, Delta, Enum, Fn, FnPtr, Iter, Opaque, Ref, Scalar, Seq, Struct, Val

OPT = "core::option::Option"
RES = "core::result::Result"
CF = "core::ops::control_flow::ControlFlow"
UNIT = Struct("tuple", [])


class Models:
    def __init__(self):
        self.exact = {}
        self.patterns = []

    def reg(self, *paths):
        def deco(fn):
            for p in paths:
                self.exact[p] = fn
            return fn
        return deco

    def reg_re(self, pattern):
        def deco(fn):
            self.patterns.append((re.compile(pattern), fn))
            return fn
        return deco

    def lookup(self, path, r):
        m = self.exact.get(path)
        if m is not None:
            return m
        for rx, fn in self.patterns:
            if rx.search(path):
                return fn
        return None


M = Models()


# ----------------------------------------------------------------------------- helpers
def some(v, when=None):
    return Enum(OPT, {"Some": (v,)}, when)


def none():
    return Enum(OPT, {"None": ()})


def option(v, when_some=None, when_none=None):
    w = {}
    if when_some is not None:
        w["Some"] = when_some
    if when_none is not None:
        w["None"] = when_none
    return Enum(OPT, {"None": (), "Some": (v,)}, w)


def result(ok, err, when_ok=None, when_err=None):
    w = {}
    if when_ok is not None:
        w["Ok"] = when_ok
    if when_err is not None:
        w["Err"] = when_err
    return Enum(RES, {"Ok": (ok,), "Err": (err,)}, w)


def seq_of(ctx, v, tag="s"):
    """The Seq/Arr behind a slice-like argument (a reference or the value itself) + its location."""
    if isinstance(v, Ref):
        tgt = ctx.deref(v, tag)
        if isinstance(tgt, Ref):  # &&[T]
            return seq_of(ctx, tgt, tag + "'")
        return tgt, v
    return v, None


def as_seq(ctx, v, tag="q"):
    """Seq view of an Arr/Seq value (summary for arrays)."""
    I, S = ctx.I, ctx.S
    if isinstance(v, Seq):
        return v
    if isinstance(v, Arr):
        ln = I.const_sym(len(v.elems), I.len_rng(), S)
        return Seq("array", ln, I.join_vals(S, list(v.elems), ctx.site + (tag,)) if v.elems else None, (), None, frozenset())
    return None


def len_sym(ctx, v):
    I, S = ctx.I, ctx.S
    if isinstance(v, Seq):
        return v.len
    if isinstance(v, Arr):
        return I.const_sym(len(v.elems), I.len_rng(), S)
    return ctx.fresh("len?", I.len_rng(), D.rng(0, I.max_len()))


def elem_ref(ref, tag=("elem",)):
    if ref is None or ref.cell is None:
        return Ref(None)
    return Ref(ref.cell, ref.path + (tag,), ref.mut)


def derived(ctx, val, tag, mut=False):
    """Reference to a freshly derived value (sub-slice etc.)."""
    cell = ("d",) + ctx.site + (tag,)
    ctx.S.cells[cell] = val
    return Ref(cell, (), mut)


def bool_cmp(ctx, op, a, b, tag="b"):
    S = ctx.S
    s = ctx.fresh(tag, (0, 1))
    S.cmpd[s] = (op, a, b)
    r = S.decide_cmp(op, a, b)
    if r is not None:
        S.iv[s] = D.point(1 if r else 0)
    return Scalar(s)


def bool_top(ctx, tag="b", when=None, exact=False):
    """An unknown boolean.  exact=True: the model is exact and the outcome is genuinely open (observers that count
    imprecise steps of the interpreter are not told)."""
    s = ctx.fresh(tag, (0, 1))
    if when:
        ctx.S.when[s] = when
    if not exact:
        ctx.inexact = "unknown boolean"
    return Scalar(s)


def scalar_arg(ctx, v, tag="sa"):
    v = ctx.deref(v, tag) if isinstance(v, Ref) else v
    return v.sym if isinstance(v, Scalar) else None


def int_rng_of(ctx, tid):
    return ctx.I.int_range(ctx.I.types[tid]) if tid is not None else None


def ret_int_rng(ctx):
    tid = ctx.ret_ty()
    return int_rng_of(ctx, tid)


def call_callable(ctx, f, args, tag):
    """Invoke a closure / fn item / fn pointer value with positional args."""
    I, S = ctx.I, ctx.S
    site = ctx.site + ("hof", tag)
    if isinstance(f, Ref):
        f = ctx.deref(f, "callee")
    if isinstance(f, Struct) and f.path.startswith("closure:"):
        return I.call_closure(S, ctx.frame, ctx.inst, ctx.bi, ctx.t, f, [f, Struct("tuple", args)], site, False)
    if isinstance(f, Fn):
        return I.call_fn_item(S, ctx.frame, ctx.inst, ctx.bi, ctx.t, f, args, site)
    if isinstance(f, FnPtr):
        return I.call_value(S, ctx.frame, ctx.inst, ctx.bi, ctx.t, f, args, site)
    I.note("UNMODELLED", "higher-order call with unknown callable %r" % (f,), ctx.t.get("span"))
    return Opaque()


def ty_args(ctx):
    return [a["t"] for a in ctx.r.get("args", []) if isinstance(a, dict) and "t" in a]


# ----------------------------------------------------------------------------- slices
@M.reg("core::slice::<impl [T]>::len", "core::str::<impl str>::len", "alloc::vec::Vec::<T, A>::len", "alloc::string::String::len")
def m_len(ctx):
    v, _ = seq_of(ctx, ctx.args[0])
    return Scalar(len_sym(ctx, v))


@M.reg("core::slice::<impl [T]>::is_empty", "core::str::<impl str>::is_empty", "alloc::vec::Vec::<T, A>::is_empty")
def m_is_empty(ctx):
    v, _ = seq_of(ctx, ctx.args[0])
    return bool_cmp(ctx, "Eq", ctx.S.term(len_sym(ctx, v)), Lin.const(0))


def first_last(ctx, from_end):
    S = ctx.S
    v, ref = seq_of(ctx, ctx.args[0])
    ln = len_sym(ctx, v)
    lt = S.term(ln)
    if isinstance(v, Arr):
        if not v.elems:
            return none()
        return some(Ref(ref.cell, ref.path + (("ci", 1 if from_end else 0, 1, from_end),), ref.mut) if ref is not None and ref.cell is not None else Ref(None))
    er = elem_ref(ref)
    if not from_end and isinstance(v, Seq) and ref is not None and ref.cell is not None and not ref.mut:
        # `first()` is element 0, not just "some element": read through the element memo like `s[0]` / `[x, ..]`
        er = Ref(ref.cell, tuple(ref.path) + (("ci", 0, 1, False),), False)
    iv = S.ivof(ln)
    if D.hi(iv) == 0:
        return none()
    if D.lo(iv) >= 1:
        return some(er)
    return option(er, Delta({}, [lt.scale(-1).addc(1)]), Delta({}, [lt]))


@M.reg("core::slice::<impl [T]>::first")
def m_first(ctx):
    return first_last(ctx, False)


@M.reg("core::slice::<impl [T]>::last")
def m_last(ctx):
    return first_last(ctx, True)


@M.reg("core::slice::<impl [T]>::get_mut", "core::slice::<impl [T]>::get")
def m_get(ctx):
    S = ctx.S
    v, ref = seq_of(ctx, ctx.args[0])
    a1 = ctx.args[1]
    if isinstance(a1, Struct) and a1.path.startswith("core::ops::range::"):
        return get_range(ctx, v, a1)
    idx = scalar_arg(ctx, a1)
    if idx is None:
        return ctx.top_ret()
    for h in ctx.I.hooks:
        h("seq_get", interp=ctx.I, ctx=ctx, seq=v, index=idx)
    ln = len_sym(ctx, v)
    d = S.term(idx).sub(S.term(ln))
    r = Ref(ref.cell, ref.path + (("idx", idx),), ref.mut) if ref is not None and ref.cell is not None else Ref(None)
    if S.entails(d.addc(1)):
        return some(r)
    if S.entails(d.scale(-1)):
        return none()
    return option(r, Delta({}, [d.addc(1)]), Delta({}, [d.scale(-1)]))


def get_range(ctx, v, rng):
    """`slice.get(range)`: Some(sub-slice) exactly when the range is in bounds, else None."""
    S = ctx.S
    ln = S.term(len_sym(ctx, v))
    f = rng.fields
    p = rng.path

    def sym(x):
        return S.term(x.sym) if isinstance(x, Scalar) else None

    zero = Lin.const(0)
    if p == "core::ops::range::RangeFrom":
        st, en = sym(f[0]), ln
    elif p == "core::ops::range::RangeTo":
        st, en = zero, sym(f[0])
    elif p == "core::ops::range::Range":
        st, en = sym(f[0]), sym(f[1])
    elif p == "core::ops::range::RangeFull":
        st, en = zero, ln
    else:
        return ctx.top_ret()
    if st is None or en is None:
        return ctx.top_ret()
    conds = [st.sub(en), en.sub(ln)]  # start <= end, end <= len
    if all(S.entails(c) for c in conds):
        can_none, can_some = False, True
    elif any(S.entails(c.scale(-1).addc(1)) for c in conds):
        can_none, can_some = True, False
    else:
        can_none = can_some = True
    out = sub_seq(ctx, v, en.sub(st), "gr")
    if not st.t and st.c == 0 and p != "core::ops::range::RangeFull":
        out = with_tags(out, notify_read(ctx, v, en, None, out, None))
    elif p == "core::ops::range::RangeFrom":
        notify_rest(ctx, v, out)
    vs, w = {}, {}
    if can_none:
        vs["None"] = ()
    if can_some:
        vs["Some"] = (derived(ctx, out, "gs"),)
        w["Some"] = Delta({}, conds)
    return Enum(OPT, vs, w)


@M.reg("core::slice::<impl [T]>::split_at")
def m_split_at(ctx):
    S = ctx.S
    v, ref = seq_of(ctx, ctx.args[0])
    n = scalar_arg(ctx, ctx.args[1])
    ln = len_sym(ctx, v)
    if n is None:
        ctx.pre("split_at mid <= len", False)
        return ctx.top_ret()
    d = S.term(n).sub(S.term(ln))
    ctx.pre("split_at mid <= len", S.entails(d))
    S.add_fact(d)
    head = sub_seq(ctx, v, S.term(n), "head")
    tail = sub_seq(ctx, v, S.term(ln).sub(S.term(n)), "tail")
    tn = S.term(n)
    if not tn.t and isinstance(tail, Seq):  # constant split point: the rest starts that many bytes into a tagged chunk
        tail = Seq(tail.kind, tail.len, tail.elem, tail.efacts, tail.data, bump_skip(tail.prov, tn.c))
    head = with_tags(head, notify_read(ctx, v, S.term(n), None, head, tail))
    return Struct("tuple", [derived(ctx, head, "h"), derived(ctx, tail, "t")])


def sub_seq(ctx, v, new_len_lin, tag):
    """Sequence with the same element summary and a new length term."""
    S, I = ctx.S, ctx.I
    q = as_seq(ctx, v, tag + "q")
    if q is None:
        q = Seq("slice", len_sym(ctx, v), Opaque(), (), None, frozenset())
    iv = D.meet(S.eval(new_len_lin), D.rng(0, I.max_len()))
    ns = ctx.fresh(tag, I.len_rng(), iv, new_len_lin)
    return Seq(q.kind if q.kind in ("slice", "str") else "slice", ns, q.elem, q.efacts, None, q.prov)


@M.reg("core::slice::<impl [T]>::split_at_checked")
def m_split_at_checked(ctx):
    S = ctx.S
    v, ref = seq_of(ctx, ctx.args[0])
    n = scalar_arg(ctx, ctx.args[1])
    ln = len_sym(ctx, v)
    if n is None:
        return ctx.top_ret()
    d = S.term(n).sub(S.term(ln))  # n - len <= 0  <=> Some
    can_some = not S.entails(d.scale(-1).addc(1))
    can_none = not S.entails(d)
    T = S  # build the Some payload under the assumption n <= len (lengths stay non-negative)
    head = sub_seq(ctx, v, S.term(n), "head")
    tail = sub_seq(ctx, v, S.term(ln).sub(S.term(n)), "tail")
    head = with_tags(head, notify_read(ctx, v, S.term(n), None, head, tail))
    pair = Struct("tuple", [derived(ctx, head, "h"), derived(ctx, tail, "t")])
    vs, w = {}, {}
    if can_none:
        vs["None"] = ()
        w["None"] = Delta({}, [d.scale(-1).addc(1)])
    if can_some:
        vs["Some"] = (pair,)
        w["Some"] = Delta({}, [d])
    return Enum(OPT, vs, w)


def notify_read(ctx, v, count_lin, const_count, head, tail):
    """Tell observers that a prefix of `v` (count bytes) is split off / viewed; they may return provenance tags."""
    return [h("cursor_read", interp=ctx.I, ctx=ctx, source=v, count_lin=count_lin, const_count=const_count, head=head, tail=tail) for h in ctx.I.hooks]


def notify_rest(ctx, v, rest):
    for h in ctx.I.hooks:
        h("cursor_rest", interp=ctx.I, ctx=ctx, source=v, rest=rest)


def with_tags(v, tags):
    """Sequence value with the provenance tags returned by observers added."""
    tags = [t for t in tags if t is not None]
    if not tags or not isinstance(v, Seq):
        return v
    return Seq(v.kind, v.len, v.elem, v.efacts, v.data, v.prov | frozenset(tags))


def bump_skip(prov, n):
    """Provenance of the rest of a tagged chunk after its first n bytes."""
    if not any(isinstance(t, tuple) and t and t[0] == "read" for t in prov):
        return prov
    old = [t for t in prov if isinstance(t, tuple) and t and t[0] == "skip"]
    k = sum(t[1] for t in old) + n
    return (prov - frozenset(old)) | frozenset([("skip", k)])


def arr_of_fresh(ctx, v, n, tag):
    """[T; n] made of n independent elements of the sequence."""
    I, S = ctx.I, ctx.S
    if isinstance(v, Arr):
        return Arr(list(v.elems[:n]) + [Opaque()] * max(0, n - len(v.elems)))
    if isinstance(v, Seq) and v.elem is not None:
        return Arr([I.freshen(v.elem, S, ctx.site + (tag, i), v.efacts, prov=v.prov, off=i) for i in range(n)])
    return Arr([Opaque()] * n)


@M.reg("core::slice::<impl [T]>::split_first_chunk")
def m_split_first_chunk(ctx):
    S = ctx.S
    n = ctx.garg_const(0)
    v, ref = seq_of(ctx, ctx.args[0])
    ln = len_sym(ctx, v)
    d = Lin.const(n).sub(S.term(ln))  # n - len <= 0 <=> Some
    can_some = not S.entails(d.scale(-1).addc(1))
    can_none = not S.entails(d)
    tail = sub_seq(ctx, v, S.term(ln).addc(-n), "tail")
    if isinstance(tail, Seq):
        tail = Seq(tail.kind, tail.len, tail.elem, tail.efacts, tail.data, bump_skip(tail.prov, n))
    tagged = with_tags(v, notify_read(ctx, v, Lin.const(n), n, None, tail))
    head = arr_of_fresh(ctx, tagged, n, "fc")
    pair = Struct("tuple", [derived(ctx, head, "h"), derived(ctx, tail, "t")])
    vs, w = {}, {}
    if can_none:
        vs["None"] = ()
        w["None"] = Delta({}, [d.scale(-1).addc(1)])
    if can_some:
        vs["Some"] = (pair,)
        w["Some"] = Delta({}, [d])
    return Enum(OPT, vs, w)


@M.reg("core::slice::<impl [T]>::first_chunk")
def m_first_chunk(ctx):
    S = ctx.S
    n = ctx.garg_const(0)
    v, ref = seq_of(ctx, ctx.args[0])
    ln = len_sym(ctx, v)
    d = Lin.const(n).sub(S.term(ln))
    can_some = not S.entails(d.scale(-1).addc(1))
    can_none = not S.entails(d)
    tagged = with_tags(v, notify_read(ctx, v, Lin.const(n), n, None, None)) if isinstance(v, Seq) else v
    head = derived(ctx, arr_of_fresh(ctx, tagged, n, "fc"), "h")
    vs, w = {}, {}
    if can_none:
        vs["None"] = ()
        w["None"] = Delta({}, [d.scale(-1).addc(1)])
    if can_some:
        vs["Some"] = (head,)
        w["Some"] = Delta({}, [d])
    return Enum(OPT, vs, w)


@M.reg("core::array::<impl core::convert::TryFrom<&[T]> for [T; N]>::try_from")
def m_array_try_from(ctx):
    S = ctx.S
    n = ctx.garg_const(0)
    v, ref = seq_of(ctx, ctx.args[0])
    ln = len_sym(ctx, v)
    r = S.decide_cmp("Eq", S.term(ln), Lin.const(n))
    arr = arr_of_fresh(ctx, v, n, "tf")
    if r is True:
        return Enum(RES, {"Ok": (arr,)})
    if r is False:
        return Enum(RES, {"Err": (Opaque(),)})
    return result(arr, Opaque())


@M.reg("core::slice::<impl [T]>::starts_with", "core::str::<impl str>::starts_with", "core::str::<impl str>::ends_with", "core::str::<impl str>::contains")
def m_starts_with(ctx):
    return bool_top(ctx)


@M.reg("core::slice::<impl [T]>::swap")
def m_swap(ctx):
    S, I = ctx.S, ctx.I
    v, ref = seq_of(ctx, ctx.args[0])
    ln = len_sym(ctx, v)
    for n, a in enumerate(ctx.args[1:3]):
        s = scalar_arg(ctx, a)
        ok = s is not None and S.entails(S.term(s).sub(S.term(ln)).addc(1))
        ctx.pre("swap index %d < len" % n, ok)
    # effect: any permutation of two elements — smash
    if ref is not None and ref.cell is not None:
        q = as_seq(ctx, v, "sw")
        if isinstance(v, Arr):
            I.write(S, ref.cell, ref.path, Arr([q.elem] * len(v.elems)), ctx.site + ("swapw",))
    return UNIT


def range_index(ctx, v, rng_val, what):
    """Slice `v[range]`: precondition + resulting sequence."""
    S, I = ctx.S, ctx.I
    ln = S.term(len_sym(ctx, v))
    p = rng_val.path if isinstance(rng_val, Struct) else ""
    f = rng_val.fields if isinstance(rng_val, Struct) else ()

    def sym(x):
        return S.term(x.sym) if isinstance(x, Scalar) else None

    if p == "core::ops::range::RangeFrom":
        st = sym(f[0])
        ok = st is not None and S.entails(st.sub(ln))
        ctx.pre(what + " start <= len", ok)
        if st is None:
            return None
        S.add_fact(st.sub(ln))
        out = sub_seq(ctx, v, ln.sub(st), "rf")
        if not st.t and isinstance(out, Seq):
            out = Seq(out.kind, out.len, out.elem, out.efacts, out.data, bump_skip(out.prov, st.c))
        notify_rest(ctx, v, out)
        return out
    if p == "core::ops::range::Range":
        st, en = sym(f[0]), sym(f[1])
        ok = st is not None and en is not None and S.entails(st.sub(en)) and S.entails(en.sub(ln))
        ctx.pre(what + " start <= end <= len", ok, None if ok else {"start": repr(st), "end": repr(en), "len": repr(ln), "facts": [repr(x) for x in list(S.facts)[:10]]})
        if st is None or en is None:
            return None
        S.add_fact(st.sub(en))
        S.add_fact(en.sub(ln))
        out = sub_seq(ctx, v, en.sub(st), "rr")
        if not st.t and st.c == 0:
            out = with_tags(out, notify_read(ctx, v, en, None, out, None))
        return out
    if p == "core::ops::range::RangeTo":
        en = sym(f[0])
        ok = en is not None and S.entails(en.sub(ln))
        ctx.pre(what + " end <= len", ok)
        if en is None:
            return None
        S.add_fact(en.sub(ln))
        out = sub_seq(ctx, v, en, "rt")
        return with_tags(out, notify_read(ctx, v, en, None, out, None))
    if p == "core::ops::range::RangeFull":
        return as_seq(ctx, v)
    ctx.pre(what + " (unsupported index type %s)" % p, False)
    return None


@M.reg("core::slice::index::<impl core::ops::index::Index<I> for [T]>::index", "core::array::<impl core::ops::index::Index<I> for [T; N]>::index", "core::str::traits::<impl core::ops::index::Index<I> for str>::index")
def m_index_range(ctx):
    v, ref = seq_of(ctx, ctx.args[0])
    idx = ctx.args[1]
    if isinstance(idx, Scalar):
        ln = ctx.S.term(len_sym(ctx, v))
        ok = ctx.S.entails(ctx.S.term(idx.sym).sub(ln).addc(1))
        ctx.pre("index < len", ok)
        return Ref(ref.cell, ref.path + (("idx", idx.sym),), False) if ref is not None and ref.cell is not None else Ref(None)
    out = range_index(ctx, v, idx, "range index")
    if out is None:
        return Ref(None)
    return derived(ctx, out, "ix")


@M.reg_re(r"^core::array::equality::|^core::slice::cmp::|^alloc::vec::partial_eq::|<impl core::cmp::PartialEq<&B> for &A>::(eq|ne)$|<impl core::cmp::PartialEq<&mut B> for &mut A>::(eq|ne)$|^core::tuple::<impl core::cmp::PartialEq for |^<core::option::Option<T> as core::cmp::PartialEq>::eq$|^core::str::traits::<impl core::cmp::PartialEq")
def m_opaque_eq(ctx):
    """Equality of compound values is not tracked, except through the lengths of two sequences:
    different lengths => not equal; both empty => equal; equal => same length (conditional)."""
    S = ctx.S
    ne = ctx.r["def"].endswith("::ne")
    if len(ctx.args) == 2:
        def through(v, tag):
            for n in range(5):
                if isinstance(v, Ref) and v.cell is not None:
                    v = ctx.deref(v, tag + str(n))
                else:
                    break
            return v

        qa, qb = through(ctx.args[0], "eqa"), through(ctx.args[1], "eqb")
        if isinstance(qa, Enum) and isinstance(qb, Enum) and qa.path == qb.path:
            # equal enum values are the same variant: comparing with a definite variant tells which one the other is
            for x, y in ((qa, qb), (qb, qa)):
                if len(y.variants) == 1:
                    (vname,) = y.variants
                    if vname not in x.variants:
                        return Scalar(ctx.I.const_sym(1 if ne else 0, (0, 1), S))
                    d = x.when.get(vname)
                    # one scalar payload on both sides: equal values have equal payloads
                    px, py = x.variants[vname], y.variants[vname]
                    def summary(v_):
                        # does the payload stand for *any* element of a sequence (then it must not be refined)?
                        for n_ in range(5):
                            if isinstance(v_, Ref) and v_.cell is not None:
                                if any(pe and pe[0] == "elem" for pe in v_.path):
                                    return True
                                v_ = ctx.deref(v_, "eqs%d" % n_)
                            else:
                                break
                        return False

                    if len(px) == 1 and len(py) == 1 and not summary(px[0]):
                        sx_, sy_ = through(px[0], "eqpx"), through(py[0], "eqpy")
                        if isinstance(sx_, Scalar) and isinstance(sy_, Scalar):
                            ivy = S.ivof(sy_.sym)
                            if D.is_point(ivy):
                                T = S.copy()
                                if d is not None:
                                    T.apply_delta(d)
                                if not T.dead and not D.contains(T.ivof(sx_.sym), D.lo(ivy)):
                                    return Scalar(ctx.I.const_sym(1 if ne else 0, (0, 1), S))
                                if len(x.variants) == 1 and T.ivof(sx_.sym) == ivy:
                                    return Scalar(ctx.I.const_sym(0 if ne else 1, (0, 1), S))
                                iv_ = dict(d.iv) if d is not None else {}
                                iv_[sx_.sym] = ivy
                                dd = Delta(iv_, d.facts if d is not None else (), d.gen if d is not None else None)
                                return bool_top(ctx, when={(0 if ne else 1): dd}, exact=True)
                    if d is not None:
                        return bool_top(ctx, when={(0 if ne else 1): d})
                    break
        if isinstance(qa, (Seq, Arr)) and isinstance(qb, (Seq, Arr)):
            la, lb = S.term(len_sym(ctx, qa)), S.term(len_sym(ctx, qb))
            r = S.decide_cmp("Eq", la, lb)
            if r is False:
                return Scalar(ctx.I.const_sym(1 if ne else 0, (0, 1), S))
            if r is True and S.eval(la) == D.point(0):
                return Scalar(ctx.I.const_sym(0 if ne else 1, (0, 1), S))
            # a constant against a string whose first byte is known to differ from the constant's first byte
            for (x, xr), y in (((qa, ctx.args[0]), qb), ((qb, ctx.args[1]), qa)):
                if isinstance(y, Seq) and y.data and isinstance(x, Seq) and x.data is None:
                    r0 = xr
                    for n_ in range(5):
                        nx = ctx.deref(r0, "eqr%d" % n_) if isinstance(r0, Ref) and r0.cell is not None else None
                        if isinstance(nx, Ref):
                            r0 = nx
                        else:
                            break
                    if isinstance(r0, Ref) and r0.cell is not None and D.lo(S.ivof(len_sym(ctx, x))) >= 1:
                        hit = S.emem.get((r0.cell, ctx.I.memo_path(tuple(r0.path) + (("ci", 0, 1, False),))))
                        if hit is not None and hit[0] is x and isinstance(hit[1], Scalar) and not D.contains(S.ivof(hit[1].sym), y.data[0]):
                            return Scalar(ctx.I.const_sym(1 if ne else 0, (0, 1), S))
            d = la.sub(lb)
            if any(isinstance(q_, Seq) and q_.data is not None for q_ in (qa, qb)):
                same = Delta({}, [d, d.scale(-1)])
                return bool_top(ctx, when={(0 if ne else 1): same}, exact=True)  # comparison with a literal: open, exactly so
            same = Delta({}, [d, d.scale(-1)])
            return bool_top(ctx, when={(0 if ne else 1): same})
    return bool_top(ctx)


# ----------------------------------------------------------------------------- Option / Result
def only(e, name):
    return isinstance(e, Enum) and set(e.variants) == {name}


@M.reg("core::option::Option::<T>::unwrap", "core::option::Option::<T>::expect")
def m_opt_unwrap(ctx):
    e = ctx.args[0]
    ok = only(e, "Some")
    ctx.pre("unwrap on Some", ok, None if ok else {"value": repr(e)})
    if isinstance(e, Enum) and "Some" in e.variants:
        if "Some" in e.when:
            ctx.S.apply_delta(e.when["Some"])
        return e.variants["Some"][0]
    if isinstance(e, Enum):
        ctx.S.dead = True
        return None
    return ctx.top_ret()


@M.reg("core::result::Result::<T, E>::unwrap", "core::result::Result::<T, E>::expect")
def m_res_unwrap(ctx):
    e = ctx.args[0]
    ok = only(e, "Ok")
    ctx.pre("unwrap on Ok", ok, None if ok else {"value": repr(e)})
    if isinstance(e, Enum) and "Ok" in e.variants:
        if "Ok" in e.when:
            ctx.S.apply_delta(e.when["Ok"])
        return e.variants["Ok"][0]
    if isinstance(e, Enum):
        ctx.S.dead = True
        return None
    return ctx.top_ret()


@M.reg("core::option::Option::<T>::unwrap_or")
def m_unwrap_or(ctx):
    e, d = ctx.args
    if isinstance(e, Enum):
        vals = []
        if "Some" in e.variants:
            vals.append(e.variants["Some"][0])
        if "None" in e.variants:
            vals.append(d)
        # position().unwrap_or(len): keep the relational knowledge of both cases when they agree
        return ctx.I.join_vals(ctx.S, vals, ctx.site + ("uo",))
    return ctx.top_ret()


@M.reg("core::option::Option::<T>::is_none", "core::option::Option::<T>::is_some", "core::result::Result::<T, E>::is_ok", "core::result::Result::<T, E>::is_err")
def m_is_variant(ctx):
    name = ctx.r["def"].rsplit("::", 1)[1]
    pos = {"is_none": "None", "is_some": "Some", "is_ok": "Ok", "is_err": "Err"}[name]
    e = ctx.deref(ctx.args[0])
    if not isinstance(e, Enum):
        return bool_top(ctx)
    if set(e.variants) == {pos}:
        s = ctx.fresh("b", (0, 1), D.point(1))
        return Scalar(s)
    if pos not in e.variants:
        return Scalar(ctx.fresh("b", (0, 1), D.point(0)))
    other = [k for k in e.variants if k != pos]
    w = {}
    if pos in e.when:
        w[1] = e.when[pos]
    if len(other) == 1 and other[0] in e.when:
        w[0] = e.when[other[0]]
    return bool_top(ctx, when=w)


@M.reg("core::option::Option::<T>::and_then", "core::option::Option::<T>::map")
def m_and_then(ctx):
    e, f = ctx.args
    is_map = ctx.r["def"].endswith("::map")
    outs = []
    if isinstance(e, Enum):
        if "Some" in e.variants:
            T = ctx.S
            r = call_callable(ctx, f, [e.variants["Some"][0]], "at")
            if r is not None:
                outs.append(some(r) if is_map else r)
        if "None" in e.variants:
            outs.append(none())
        return ctx.I.join_vals(ctx.S, outs, ctx.site + ("atj",)) if outs else BOT
    return ctx.top_ret()


@M.reg("core::option::Option::<T>::ok_or_else", "core::option::Option::<T>::ok_or")
def m_ok_or_else(ctx):
    e, f = ctx.args
    if not isinstance(e, Enum):
        return ctx.top_ret()
    vs = {}
    if "Some" in e.variants:
        vs["Ok"] = (e.variants["Some"][0],)
    if "None" in e.variants:
        err = call_callable(ctx, f, [], "ooe") if ctx.r["def"].endswith("ok_or_else") else f
        vs["Err"] = (err if err is not None else Opaque(),)
    w = {}
    if "Some" in e.when:
        w["Ok"] = e.when["Some"]
    if "None" in e.when:
        w["Err"] = e.when["None"]
    return Enum(RES, vs, w)


@M.reg("core::result::Result::<T, E>::map_err")
def m_map_err(ctx):
    e, f = ctx.args
    if not isinstance(e, Enum):
        return ctx.top_ret()
    vs = {}
    if "Ok" in e.variants:
        vs["Ok"] = e.variants["Ok"]
    if "Err" in e.variants:
        r = call_callable(ctx, f, [e.variants["Err"][0]], "me")
        vs["Err"] = (r if r is not None else Opaque(),)
    return Enum(RES, vs, dict(e.when))


@M.reg("core::result::Result::<T, E>::ok")
def m_res_ok(ctx):
    e = ctx.args[0]
    if not isinstance(e, Enum):
        return ctx.top_ret()
    vs, w = {}, {}
    if "Ok" in e.variants:
        vs["Some"] = e.variants["Ok"]
        if "Ok" in e.when:
            w["Some"] = e.when["Ok"]
    if "Err" in e.variants:
        vs["None"] = ()
        if "Err" in e.when:
            w["None"] = e.when["Err"]
    return Enum(OPT, vs, w)


@M.reg("core::option::Option::<core::result::Result<T, E>>::transpose")
def m_opt_transpose(ctx):
    e = ctx.args[0]  # Option<Result<T,E>> -> Result<Option<T>,E>
    if not isinstance(e, Enum):
        return ctx.top_ret()
    vs = {}
    oks = []
    if "None" in e.variants:
        oks.append(none())
    if "Some" in e.variants:
        inner = e.variants["Some"][0]
        if isinstance(inner, Enum):
            if "Ok" in inner.variants:
                oks.append(some(inner.variants["Ok"][0]))
            if "Err" in inner.variants:
                vs["Err"] = inner.variants["Err"]
        else:
            return ctx.top_ret()
    if oks:
        vs["Ok"] = (ctx.I.join_vals(ctx.S, oks, ctx.site + ("tr",)),)
    return Enum(RES, vs)


@M.reg("core::result::Result::<core::option::Option<T>, E>::transpose")
def m_res_transpose(ctx):
    e = ctx.args[0]  # Result<Option<T>,E> -> Option<Result<T,E>>
    if not isinstance(e, Enum):
        return ctx.top_ret()
    vs = {}
    somes = []
    if "Err" in e.variants:
        somes.append(Enum(RES, {"Err": e.variants["Err"]}))
    if "Ok" in e.variants:
        inner = e.variants["Ok"][0]
        if isinstance(inner, Enum):
            if "Some" in inner.variants:
                somes.append(Enum(RES, {"Ok": inner.variants["Some"]}))
            if "None" in inner.variants:
                vs["None"] = ()
        else:
            return ctx.top_ret()
    if somes:
        vs["Some"] = (ctx.I.join_vals(ctx.S, somes, ctx.site + ("tr",)),)
    return Enum(OPT, vs)


@M.reg("<core::result::Result<T, E> as core::ops::try_trait::Try>::branch")
def m_res_branch(ctx):
    e = ctx.args[0]
    if not isinstance(e, Enum):
        return ctx.top_ret()
    vs, w = {}, {}
    if "Ok" in e.variants:
        vs["Continue"] = e.variants["Ok"]
        if "Ok" in e.when:
            w["Continue"] = e.when["Ok"]
    if "Err" in e.variants:
        vs["Break"] = (Enum(RES, {"Err": e.variants["Err"]}),)
        if "Err" in e.when:
            w["Break"] = e.when["Err"]
    return Enum(CF, vs, w)


@M.reg("<core::option::Option<T> as core::ops::try_trait::Try>::branch")
def m_opt_branch(ctx):
    e = ctx.args[0]
    if not isinstance(e, Enum):
        return ctx.top_ret()
    vs, w = {}, {}
    if "Some" in e.variants:
        vs["Continue"] = e.variants["Some"]
        if "Some" in e.when:
            w["Continue"] = e.when["Some"]
    if "None" in e.variants:
        vs["Break"] = (none(),)
        if "None" in e.when:
            w["Break"] = e.when["None"]
    return Enum(CF, vs, w)


def convert(ctx, v, from_tid, to_tid, tag):
    """`<To as From<From>>::from(v)` — identity, a crate impl (analysed), or opaque."""
    I = ctx.I
    if from_tid is None or to_tid is None:
        return Opaque(to_tid)
    a, b = I.f.ty_canon(from_tid), I.f.ty_canon(to_tid)
    if a == b:
        return v
    fa, fb = I.f.ty_s(from_tid), I.f.ty_s(to_tid)
    cands = []
    for inst in I.f.instances:
        p = inst["path"]
        if p == "<%s as core::convert::From<%s>>::from" % (fb, fa):
            cands.append(inst)
        elif p.startswith("<%s as core::convert::From<" % fb) and inst["args"] and [x.get("t") for x in inst["args"] if isinstance(x, dict)] == [from_tid]:
            cands.append(inst)
    if cands:
        return I.call_inst(ctx.S, cands[0], [v], ctx.site + ("conv", tag), ctx.t)
    tb = I.types[to_tid]
    if tb["k"] == "int" and isinstance(v, Scalar):
        rng = I.int_range(tb)
        iv = ctx.S.ivof(v.sym)
        if D.subset(iv, D.rng(*rng)):
            return Scalar(ctx.fresh("conv" + tag, rng, iv, ctx.S.term(v.sym)))
    return I.top(to_tid, ctx.S, ("conv",) + ctx.site + (tag,))


@M.reg("<core::result::Result<T, F> as core::ops::try_trait::FromResidual<core::result::Result<core::convert::Infallible, E>>>::from_residual")
def m_res_from_residual(ctx):
    e = ctx.args[0]
    ts = ty_args(ctx)  # T, F, E
    if isinstance(e, Enum) and "Err" in e.variants and len(ts) >= 3:
        v = convert(ctx, e.variants["Err"][0], ts[2], ts[1], "fr")
        if v is None:
            return None
        return Enum(RES, {"Err": (v,)})
    return ctx.top_ret()


@M.reg("<core::option::Option<T> as core::ops::try_trait::FromResidual<core::option::Option<core::convert::Infallible>>>::from_residual")
def m_opt_from_residual(ctx):
    return none()


@M.reg("core::convert::From::from")
def m_from_trait(ctx):
    ts = ty_args(ctx)  # Self, T
    if len(ts) >= 2:
        return convert(ctx, ctx.args[0], ts[1], ts[0], "from")
    return ctx.top_ret()


@M.reg("<T as core::convert::Into<U>>::into", "<T as core::convert::From<T>>::from")
def m_into(ctx):
    ts = ty_args(ctx)
    if ctx.r["def"].endswith("::from"):
        return ctx.args[0]
    if len(ts) >= 2:
        return convert(ctx, ctx.args[0], ts[0], ts[1], "into")
    return ctx.top_ret()


@M.reg_re(r"^core::convert::num::<impl core::convert::From<\w+> for \w+>::from$")
def m_num_from(ctx):
    s = scalar_arg(ctx, ctx.args[0])
    rng = ret_int_rng(ctx)
    if s is None or rng is None:
        return ctx.top_ret()
    return Scalar(ctx.fresh("nf", rng, ctx.S.ivof(s), ctx.S.term(s)))


@M.reg("<core::option::Option<T> as core::clone::Clone>::clone", "<alloc::vec::Vec<T, A> as core::clone::Clone>::clone", "<alloc::string::String as core::clone::Clone>::clone")
def m_clone(ctx):
    return ctx.deref(ctx.args[0])


@M.reg("core::hint::must_use")
def m_must_use(ctx):
    return ctx.args[0]
