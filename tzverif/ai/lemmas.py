"""Lemma table (DESIGN §6.3) and the one trusted crate-internal contract (DESIGN §3.7).

A lemma row covers at most `max_n` sites of one kind in one named function; a site covered by a
lemma is reported as `by_lemma`, never as `discharged`.  If the named function no longer exists
the row raises ANCHOR-MISSING.  Rows are justified by mathematics the abstract domain (intervals,
finite value sets, linear facts with unit multipliers) cannot express."""
from . import domain as D
from .domain import Lin
from .values import Arr, Delta, Enum, Ref, Scalar, Seq

LEMMAS = [
    {
        "id": "L1-two-month-week-days-unreachable",
        "function": "tz::timezone::rule::check_two_month_week_days",
        # if the private function is renamed or moved: the one crate function taking two month/week/day rule days and
        # two day times and answering with a boolean
        "signature": {"params": {"MonthWeekDay": 2, "i64": 2}, "ret": "bool"},
        "kind": "PANIC-CALL",
        "max_n": 1,
        "cannot": "needs `(m2 - m1) rem_euclid 12 == 0  <=>  months equal` and the case split on (week_before, week_after); modular arithmetic is outside the domain",
        "holds": "when the months are equal the sort step puts the smaller week first, so (week_before, week_after) is never (5, 1..=4); the remaining patterns (5,5), (1..=4,1..=4), (1..=4,5) are exhaustive for weeks in [1,5] (MonthWeekDay invariant)",
    },
    {
        "id": "L2-buffer-list-count",
        # the buffer list's implementation of its (crate-private) list trait's push, whatever trait and method are called
        "function": "<tz::datetime::find::FoundDateTimeListRefMut<'_> as tz::datetime::find::DateTimeList>::push",
        "function_re": r"<tz::[\w:]*FoundDateTimeListRefMut<'_> as tz::[\w:]+>::\w+",
        "kind": "ASSERT:overflow:Add",
        "max_n": 1,
        "cannot": "counting argument over the whole search (number of pushes per call), not a per-site fact",
        "holds": "one search pushes at most len(transitions) + 7 results (one per table transition, at most 7 for the rule section) and len(transitions) <= isize::MAX / 16, and the list is created with count = 0 by find_n for every search (the type has no other mutator)",
    },
]

LEMMAS.append(
    {
        "id": "L3-from-timespec-month-day",
        "function": "tz::datetime::UtcDateTime::from_timespec",
        "kind": "NARROW",
        "max_n": 1,
        "cannot": "needs the Euclidean remainder cascade: remaining_days - min(remaining_days / D, k) * D lies in [0, D] for D = 36524, 1461, 365, and the month loop leaves remaining_days < days_in_month; intervals lose the relation at the first subtraction",
        "holds": "after the 400/100/4/1-year decomposition remaining_days is in [0, 365]; the month loop subtracts whole months of the leap-year-from-March table (sum 366), so it exits with remaining_days < 31 and month_day = 1 + remaining_days is in [1, 31] — the numeric content of C01",
        "consequence": {"cast_result": [1, 31]},
    }
)

CONTRACTS = {
    # value half of the binary-search contract: Err(i) => i == 0 or slice[i-1] < x.
    # Used only to exclude Err(0) when the first element of a *constant* table is <= x.
    "prefix": "tz::utils::const_fns::binary_search_",
    "text": "binary search on a sorted slice: Err(i) implies i == 0 or slice[i-1] < x (value half of the contract; the numeric content of C03). Body panic-freedom and Ok(i) => i < len, Err(i) => i <= len are proven from the body.",
}


def apply_contract(I, S, callee, args, ret):
    """Post-call hook for the binary searches.  Returns (ret, used: bool)."""
    if not callee["path"].startswith(CONTRACTS["prefix"]) or callee.get("closure"):
        return ret, False
    if not isinstance(ret, Enum) or "Err" not in ret.variants or len(args) < 2:
        return ret, False
    sl = args[0]
    tgt = I.read(S, sl.cell, sl.path, ("contract",)) if isinstance(sl, Ref) and sl.cell is not None else None
    x = args[1]
    if not isinstance(tgt, Arr) or not tgt.elems or not isinstance(x, Scalar):
        return ret, False
    e0 = tgt.elems[0]
    if not isinstance(e0, Scalar) or not D.is_point(S.ivof(e0.sym)):
        return ret, False
    c0 = D.lo(S.ivof(e0.sym))
    # first element <= x  =>  Err(0) impossible
    if not S.entails(Lin.const(c0).sub(S.term(x.sym))):
        return ret, False
    i = ret.variants["Err"][0]
    if not isinstance(i, Scalar):
        return ret, False
    when = dict(ret.when)
    old = when.get("Err")
    rng = I.st.range(i.sym)
    iv = dict(old.iv) if old is not None else {}
    cur = iv.get(i.sym, S.ivof(i.sym))
    iv[i.sym] = D.meet(cur, D.rng(1, rng[1]))
    when["Err"] = Delta(iv, old.facts if old is not None else (), old.gen if old is not None else None)
    return Enum(ret.path, ret.variants, when), True


def by_signature(facts, spec):
    """Names of the crate functions (not closures) whose parameter and return types fit `spec`."""
    out = []
    for inst in facts.instances:
        if inst.get("closure"):
            continue
        body = inst["body"]
        ins = [facts.ty_canon(body["locals"][i + 1]["ty"]) for i in range(body["arg_count"])]
        ret = facts.ty_canon(body["locals"][0]["ty"])
        if ret != spec["ret"] or len(ins) != sum(spec["params"].values()):
            continue
        cnt = {}
        for t in ins:
            k = t.lstrip("&").rsplit("::", 1)[-1]
            cnt[k] = cnt.get(k, 0) + 1
        if cnt == spec["params"]:
            out.append(inst["name"])
    return out


def classify(obligations, instance_paths, facts=None):
    """Split failing obligations into lemma-covered and genuine. Returns (by_lemma, remaining, anchor_errors)."""
    import re

    alias = {}
    if facts is not None:
        for row in LEMMAS:
            if "signature" in row and row["function"] not in instance_paths:
                c = by_signature(facts, row["signature"])
                if len(c) == 1:
                    alias[row["id"]] = c[0]

    def matches(row, name):
        if "function_re" in row:
            return re.fullmatch(row["function_re"], name) is not None
        return name == alias.get(row["id"], row["function"])

    anchors = []
    for row in LEMMAS:
        if not any(matches(row, n) for n in instance_paths):
            anchors.append("lemma %s names %s which no longer exists" % (row["id"], row["function"]))
    used = {row["id"]: 0 for row in LEMMAS}
    by_lemma, remaining = [], []
    for o in obligations:
        row = None
        for r in LEMMAS:
            if matches(r, o["inst"]) and o["kind"] == r["kind"] and used[r["id"]] < r["max_n"]:
                row = r
                break
        if row is not None:
            used[row["id"]] += 1
            by_lemma.append((o, row))
        else:
            remaining.append(o)
    return by_lemma, remaining, anchors
