"""Abstract state of E-AI: cells -> values, symbols -> interval sets, definitions and linear facts."""
from . import domain as D
from .domain import Lin
from .values import BOT, Arr, Bot, BoxU, Delta, Enum, Fn, FnPtr, Iter, Opaque, Ref, Scalar, Seq, Struct, Val, val_syms

MAX_FACTS = 600
import os
NO_GEN = not os.environ.get('USE_GEN')


class SymTab:
    """Global (per analysis) table of symbols: deterministic key -> small int, with type range."""

    def __init__(self):
        self.ids = {}
        self.rng = []
        self.keys = []

    def get(self, key, rng):
        i = self.ids.get(key)
        if i is None:
            i = len(self.keys)
            self.ids[key] = i
            self.keys.append(key)
            self.rng.append(rng)
        return i

    def range(self, s):
        return self.rng[s]


class State:
    __slots__ = ("st", "cells", "iv", "lin", "cmpd", "ovf", "notd", "absd", "discr", "when", "facts", "dead", "log", "gen", "emem")

    def __init__(self, st):
        self.st = st
        self.cells = {}
        self.iv = {}
        self.lin = {}
        self.cmpd = {}
        self.ovf = {}
        self.notd = {}
        self.absd = {}
        self.discr = {}
        self.when = {}
        self.facts = set()
        self.dead = False
        self.gen = {}
        self.log = ()  # read/write logs (tuple, append-only per path)
        # element reads of this straight-line state: (cell, path) -> (sequence object, value). Reading the same
        # place of the same (immutable) sequence value twice yields the same element; dropped at every join.
        self.emem = {}

    def copy(self):
        n = State(self.st)
        n.cells = dict(self.cells)
        n.iv = dict(self.iv)
        n.lin = dict(self.lin)
        n.cmpd = dict(self.cmpd)
        n.ovf = dict(self.ovf)
        n.notd = dict(self.notd)
        n.absd = dict(self.absd)
        n.discr = dict(self.discr)
        n.when = dict(self.when)
        n.facts = set(self.facts)
        n.dead = self.dead
        n.gen = dict(self.gen)
        n.log = self.log
        n.emem = dict(self.emem)
        return n

    # ----- symbols -------------------------------------------------------
    def ivof(self, s):
        v = self.iv.get(s)
        if v is None:
            r = self.st.range(s)
            v = D.rng(r[0], r[1])
        l = self.lin.get(s)
        if l is not None and l.t:
            h = self.hull(l)
            if h is not None and (h[0] > v[0][0] or h[1] < v[-1][1]):
                v = D.meet(v, D.rng(h[0], h[1]))
        return v

    def tight_iv(self, s):
        """Interval of s sharpened by one linear fact each way (t <= f + hull(t - f))."""
        iv = self.ivof(s)
        if not iv or not self.facts:
            return iv
        t = self.term(s)
        if not t.t:
            return iv
        ts = set(t.t)
        lo_, hi_ = iv[0][0], iv[-1][1]
        nt = t.scale(-1)
        for f in self.facts:
            if not (ts & set(f.t)):
                continue
            h = self.hull(t.sub(f))
            if h is not None and h[1] < hi_:
                hi_ = h[1]
            h = self.hull(nt.sub(f))
            if h is not None and -h[1] > lo_:
                lo_ = -h[1]
        if lo_ > hi_:
            return iv
        return D.meet(iv, D.rng(lo_, hi_))

    def term(self, s):
        l = self.lin.get(s)
        if l is not None:
            return l
        iv = self.iv.get(s)
        if iv is not None and len(iv) == 1 and iv[0][0] == iv[0][1]:
            return Lin.const(iv[0][0])
        return Lin.var(s)

    def kill(self, s):
        """Forget everything known about symbol s (it is about to be redefined)."""
        if s not in self.iv and s not in self.lin:
            return
        self.iv.pop(s, None)
        self.lin.pop(s, None)
        self.cmpd.pop(s, None)
        self.ovf.pop(s, None)
        self.notd.pop(s, None)
        self.absd.pop(s, None)
        self.discr.pop(s, None)
        self.when.pop(s, None)
        if self.facts:
            self.facts = {f for f in self.facts if s not in f.t}
        for k in [k for k, l in self.lin.items() if s in l.t]:
            del self.lin[k]
        for k in [k for k, (_, a, b) in self.cmpd.items() if s in a.t or s in b.t]:
            del self.cmpd[k]
        for k in [k for k, (v, l, _) in self.ovf.items() if v == s or (l is not None and s in l.t)]:
            del self.ovf[k]
        for k in [k for k, v in self.notd.items() if v == s]:
            del self.notd[k]
        for k in [k for k, v in self.absd.items() if v == s]:
            del self.absd[k]

    def define(self, s, iv, lin=None):
        self.kill(s)
        self.gen[s] = self.gen.get(s, 0) + 1
        r = self.st.range(s)
        iv = D.meet(iv, D.rng(r[0], r[1]))
        self.iv[s] = iv
        if lin is not None and not (len(lin.t) == 1 and lin.c == 0 and lin.t.get(s) == 1):
            if s not in lin.t:
                self.lin[s] = lin
        if not iv:
            self.dead = True
        return s

    def eval(self, l):
        """Interval set of a linear term."""
        acc = D.point(l.c)
        for s, k in l.t.items():
            acc = D.add(acc, D.scale(self.ivof(s), k))
            if not acc:
                return acc
        return acc

    def hull(self, l):
        lo = hi = l.c
        for s, k in l.t.items():
            iv = self.ivof(s)
            if not iv:
                return None
            a, b = D.lo(iv), D.hi(iv)
            if k >= 0:
                lo += k * a
                hi += k * b
            else:
                lo += k * b
                hi += k * a
        return lo, hi

    def entails(self, g, deep=True):
        """Does the state entail g <= 0 ?  (sound, incomplete; deep=False skips the two-fact search)"""
        h = self.hull(g)
        if h is None:
            return True  # unreachable state
        if h[1] <= 0:
            return True
        if not g.t:
            return False
        gs = set(g.t)
        cands = [f for f in self.facts if gs & set(f.t)]
        for f in cands:
            h2 = self.hull(g.sub(f))
            if h2 is not None and h2[1] <= 0:
                return True
        # scaled single fact: match the coefficient of a shared symbol
        for f in cands:
            for s in gs & set(f.t):
                kf, kg = f.t[s], g.t[s]
                if kf != 0 and kg % kf == 0 and kg // kf > 1:
                    h2 = self.hull(g.sub(f.scale(kg // kf)))
                    if h2 is not None and h2[1] <= 0:
                        return True
        n = len(cands)
        if deep and n <= 22:
            for i in range(n):
                gi = g.sub(cands[i])
                for j in range(i + 1, n):
                    h2 = self.hull(gi.sub(cands[j]))
                    if h2 is not None and h2[1] <= 0:
                        return True
        return False

    def refine(self, s, iv):
        """Meet the interval of s with iv; propagate through a single-symbol definition."""
        old = self.ivof(s)
        new = D.meet(old, iv)
        if new == old:
            return
        self.iv[s] = new
        if not new:
            self.dead = True
            return
        l = self.lin.get(s)
        if l is not None:
            sg = l.single()
            if sg is not None:
                b, k = sg
                # s = k*b + c  =>  b in (new - c)/k
                sh = D.add(new, D.point(-l.c))
                if k == 1:
                    self.refine(b, sh)
                elif k == -1:
                    self.refine(b, D.neg(sh))
                elif k > 1:
                    lo_, hi_ = D.lo(sh), D.hi(sh)
                    self.refine(b, D.rng(-((-lo_) // k), hi_ // k))
        n = self.notd.get(s)
        if n is not None and D.is_point(new):
            self.refine(n, D.point(1 - D.lo(new)))
        a = self.absd.get(s)
        if a is not None:
            self.refine(a, D.join(new, D.neg(new)))

    def add_fact(self, f):
        """Record f <= 0 (f a Lin over symbols, expanded through definitions)."""
        if self.dead:
            return
        if not f.t:
            if f.c > 0:
                self.dead = True
            return
        h = self.hull(f)
        if h is None:
            return
        if h[0] > 0:
            self.dead = True
            return
        # tighten intervals of each symbol from the others
        for s, k in list(f.t.items()):
            rest = Lin({x: c for x, c in f.t.items() if x != s}, f.c)
            hr = self.hull(rest)
            if hr is None:
                continue
            # k*s + rest <= 0  => k*s <= -rest.lo
            bound = -hr[0]
            iv = self.ivof(s)
            if k > 0:
                self.refine(s, D.rng(D.lo(iv), bound // k))
            else:
                kk = -k
                self.refine(s, D.rng(-(bound // kk), D.hi(iv)))
            if self.dead:
                return
        if len(f.t) == 1:
            return  # a one-symbol fact is exactly its interval refinement
        h = self.hull(f)
        if h is None or h[1] <= 0:
            return  # implied by intervals
        if f in self.facts:
            return
        if len(self.facts) < MAX_FACTS:
            self.facts.add(f)

    def expand(self, l):
        """Expand a Lin through definitions (definitions are stored already expanded)."""
        if not any(s in self.lin for s in l.t):
            return l
        return l.subst({s: self.lin[s] for s in l.t if s in self.lin})

    def apply_delta(self, d):
        """Apply conditional knowledge; parts about symbols that were redefined since the delta was
        recorded (loop-carried phi symbols, re-executed statements) are stale and skipped."""
        g = d.gen if not NO_GEN else None
        cur = self.gen
        for s, iv in d.iv.items():
            if g is not None and cur.get(s, 0) != g.get(s, 0):
                continue
            self.refine(s, iv)
            if self.dead:
                return
        for f in d.facts:
            if g is not None and any(cur.get(s, 0) != g.get(s, 0) for s in f.t):
                continue
            self.add_fact(f)
        for ln, templates in d.ef.items():
            self.attach_efacts(ln, templates)

    def attach_efacts(self, ln, templates):
        """Add element-fact templates to every sequence whose length symbol is `ln`."""
        from .values import Seq as _Seq, Struct as _Struct, Enum as _Enum

        changed = [False]

        def walk(v, depth=0):
            if isinstance(v, _Seq):
                if v.len == ln:
                    new = tuple(t for t in templates if t not in v.efacts)
                    if new:
                        changed[0] = True
                        return _Seq(v.kind, v.len, v.elem, v.efacts + new, v.data, v.prov)
                return v
            if depth > 5:
                return v
            if isinstance(v, _Struct):
                fs = [walk(f, depth + 1) for f in v.fields]
                return v if all(a is b for a, b in zip(fs, v.fields)) else _Struct(v.path, fs)
            if isinstance(v, _Enum):
                nv = {k: tuple(walk(f, depth + 1) for f in fs) for k, fs in v.variants.items()}
                return v if all(all(a is b for a, b in zip(nv[k], v.variants[k])) for k in nv) else _Enum(v.path, nv, v.when)
            return v

        for c, v in list(self.cells.items()):
            nv = walk(v)
            if nv is not v:
                self.cells[c] = nv
        return changed[0]

    # ----- relational assume ---------------------------------------------
    def assume_cmp(self, op, a, b, truth):
        """Assume (a op b) == truth, a and b expanded Lin terms."""
        if not truth:
            op = {"Lt": "Ge", "Le": "Gt", "Gt": "Le", "Ge": "Lt", "Eq": "Ne", "Ne": "Eq"}[op]
        d = a.sub(b)
        if op == "Lt":
            self.add_fact(d.addc(1))
        elif op == "Le":
            self.add_fact(d)
        elif op == "Gt":
            self.add_fact(d.scale(-1).addc(1))
        elif op == "Ge":
            self.add_fact(d.scale(-1))
        elif op == "Eq":
            self.add_fact(d)
            if not self.dead:
                self.add_fact(d.scale(-1))
        elif op == "Ne":
            sg = d.single()
            if sg is not None and abs(sg[1]) == 1:
                s, k = sg
                # k*s + c != 0  => s != -c/k
                v = -d.c * k
                self.refine(s, D.remove_point(self.ivof(s), v))
            elif not d.t and d.c == 0:
                self.dead = True
            else:
                h = self.hull(d)
                if h is not None and h == (0, 0):
                    self.dead = True
                # a != b together with a <= b gives a < b (loops written `if i == n { break }`)
                elif self.entails(d):
                    self.add_fact(d.addc(1))
                elif self.entails(d.scale(-1)):
                    self.add_fact(d.scale(-1).addc(1))

    def decide_cmp(self, op, a, b):
        """Returns True / False when the comparison is decided, else None."""
        d = a.sub(b)
        if op in ("Lt", "Ge"):
            if self.entails(d.addc(1)):
                return op == "Lt"
            if self.entails(d.scale(-1)):
                return op == "Ge"
        elif op in ("Le", "Gt"):
            if self.entails(d):
                return op == "Le"
            if self.entails(d.scale(-1).addc(1)):
                return op == "Gt"
        else:
            iv = self.eval(d)
            if not iv:
                return None
            if iv == D.point(0) or (self.entails(d) and self.entails(d.scale(-1))):
                return op == "Eq"
            if not D.contains(iv, 0) or self.entails(d.addc(1)) or self.entails(d.scale(-1).addc(1)):
                return op == "Ne"
        return None

    def bool_value(self, s):
        """Possible values of a boolean symbol as a subset of {0,1}, using definitions."""
        iv = D.meet(self.ivof(s), D.rng(0, 1))
        if D.is_point(iv) or not iv:
            return iv
        c = self.cmpd.get(s)
        if c is not None:
            r = self.decide_cmp(c[0], c[1], c[2])
            if r is not None:
                return D.point(1 if r else 0)
        n = self.notd.get(s)
        if n is not None:
            v = self.bool_value(n)
            if D.is_point(v):
                return D.point(1 - D.lo(v))
        return iv

    def assume_sym(self, s, value_set):
        """Assume symbol s takes a value in value_set (an IS); applies definitions and conditionals."""
        self.refine(s, value_set)
        if self.dead:
            return
        iv = self.ivof(s)
        if D.is_point(iv):
            v = D.lo(iv)
            c = self.cmpd.get(s)
            if c is not None and v in (0, 1):
                self.assume_cmp(c[0], c[1], c[2], v == 1)
                if self.dead:
                    return
            o = self.ovf.get(s)
            if o is not None and v == 0:
                vs, l, exact = o
                self.refine(vs, exact)
                if l is not None and vs not in l.t and vs not in self.lin:
                    self.lin[vs] = l
                if self.dead:
                    return
            n = self.notd.get(s)
            if n is not None and v in (0, 1):
                self.assume_sym(n, D.point(1 - v))
                if self.dead:
                    return
        w = self.when.get(s)
        if w:
            vals = D.values(iv, 4)
            if vals is not None and len(vals) == 1 and vals[0] in w:
                self.apply_delta(w[vals[0]])
            elif vals is not None and all(v in w for v in vals) and len(vals) > 1:
                # several cases possible: apply the join of their deltas
                ds = [w[v] for v in vals]
                common = set(ds[0].iv)
                for d in ds[1:]:
                    common &= set(d.iv)
                for x in common:
                    if any(d.gen is not None and self.gen.get(x, 0) != d.gen.get(x, 0) for d in ds):
                        continue
                    j = ds[0].iv[x]
                    for d in ds[1:]:
                        j = D.join(j, d.iv[x])
                    self.refine(x, j)

    # ----- garbage collection -------------------------------------------
    def live_syms(self):
        out = set()
        for v in self.cells.values():
            val_syms(v, out)
        # elements already read in this state can be read again (element-read memo): their symbols are live
        for _, ev in self.emem.values():
            val_syms(ev, out)
        # close over definitions / conditionals
        work = list(out)
        while work:
            s = work.pop()
            for coll in (self.lin,):
                l = coll.get(s)
                if l is not None:
                    for x in l.t:
                        if x not in out:
                            out.add(x)
                            work.append(x)
            c = self.cmpd.get(s)
            if c is not None:
                for x in list(c[1].t) + list(c[2].t):
                    if x not in out:
                        out.add(x)
                        work.append(x)
            o = self.ovf.get(s)
            if o is not None:
                for x in [o[0]] + (list(o[1].t) if o[1] is not None else []):
                    if x not in out:
                        out.add(x)
                        work.append(x)
            n = self.notd.get(s)
            if n is not None and n not in out:
                out.add(n)
                work.append(n)
            n = self.absd.get(s)
            if n is not None and n not in out:
                out.add(n)
                work.append(n)
            w = self.when.get(s)
            if w:
                for d in w.values():
                    for x in list(d.iv) + [y for f in d.facts for y in f.t]:
                        if x not in out:
                            out.add(x)
                            work.append(x)
        return out

    def gc(self):
        live = self.live_syms()
        # symbols connected to live ones through facts stay
        changed = True
        while changed:
            changed = False
            for f in self.facts:
                ss = set(f.t)
                if ss & live and not ss <= live:
                    # keep only facts entirely over live syms; others are dropped below
                    pass
        kept = set()
        projected = []
        for f in self.facts:
            dead = [x for x in f.t if x not in live]
            if not dead:
                kept.add(f)
                continue
            # a fact that mentions dead symbols is weakened to one over live symbols only, by replacing every dead
            # symbol by the bound that makes the inequality weakest (sum a_i*x_i + c <= 0): e.g. `pos + 1 + i - n <= 0`
            # with pos >= 0 dead leaves `i + 1 - n <= 0`
            if len(dead) > 2 or len(f.t) - len(dead) < 2:
                continue
            t = dict(f.t)
            c = f.c
            ok = True
            for x in dead:
                a = t.pop(x)
                iv = self.iv.get(x)
                if iv is None:
                    r = self.st.range(x)
                    lo_, hi_ = r[0], r[1]
                else:
                    lo_, hi_ = D.lo(iv), D.hi(iv)
                b = lo_ if a > 0 else hi_
                if abs(b) >= (1 << 62):
                    ok = False
                    break
                c += a * b
            if ok:
                projected.append(Lin(t, c))
        self.facts = kept
        for coll in (self.iv, self.lin, self.cmpd, self.ovf, self.notd, self.absd, self.discr, self.when):
            for k in [k for k in coll if k not in live]:
                del coll[k]
        for f in projected:
            if f not in self.facts and len(self.facts) < MAX_FACTS:
                self.facts.add(f)
