"""Driver: analyse every root of a configuration (in parallel) and collect obligations."""
import multiprocessing as mp
import os
import time
import traceback

from . import models2  # noqa: F401  (registers models)
from .exec import Exec
from .interp import Unsupported
from .models import M


def roots_of(facts):
    return [inst for inst in facts.instances if not inst.get("closure") and inst.get("reachable")]


def analyse_all(facts, invariants=None, roots=None, hooks=None, verbose=False, make_args=None, after_root=None):
    """Sequential analysis. after_root(I, inst, R, frame, args) may inspect the final state."""
    I = Exec(facts, M, invariants, trace=os.environ.get('TRACE') or False)
    if hooks:
        I.hooks.extend(hooks)
    errors = []
    results = {}
    t0 = time.time()
    for inst in (roots if roots is not None else roots_of(facts)):
        t1 = time.time()
        try:
            R, frame, args = I.analyse_root(inst, make_args)
            results[inst["name"]] = (R, frame, args)
            if after_root is not None:
                after_root(I, inst, R, frame, args)
        except Unsupported as e:
            errors.append((inst["name"], "unsupported: %s" % e))
        except RecursionError:
            errors.append((inst["name"], "recursion limit"))
        except Exception:
            errors.append((inst["name"], traceback.format_exc()[-1500:]))
        if verbose:
            print("  %-70s %.2fs" % (inst["name"][:70], time.time() - t1), flush=True)
    I.wall = time.time() - t0
    return I, results, errors


_G = {}


def _worker(names):
    facts, invariants, extra = _G["facts"], _G["inv"], _G["extra"]
    roots = [i for i in facts.instances if i["name"] in names]
    collected = []
    after = None
    if extra is not None:
        after = lambda I, inst, R, frame, args: collected.extend(extra(I, inst, R, frame, args) or [])
    I, res, errs = analyse_all(facts, invariants, roots, after_root=after)
    obls = [(o.key, o.kind, o.inst, o.where, o.detail, o.ok, o.fail, o.contexts) for o in I.obls.values()]
    side = {"analysed": sorted(set(n for _, n in I.call_log) | set(names)), "loops": I.loop_reports, "forall": I.forall_established, "contracts": I.contract_uses, "lemma_uses": I.lemma_uses}
    return obls, I.notes, errs, collected, len(I.call_log), side


def analyse_parallel(facts, invariants=None, roots=None, extra=None, jobs=None):
    """Returns (obligations dict key -> merged record, notes, errors, collected, stats)."""
    roots = roots if roots is not None else roots_of(facts)
    jobs = jobs or min(16, os.cpu_count() or 4)
    _G.update(facts=facts, inv=invariants, extra=extra)
    names = [r["name"] for r in roots]
    # heavy roots first, one root per task
    chunks = [[n] for n in names]
    t0 = time.time()
    ctx = mp.get_context("fork")
    with ctx.Pool(jobs) as pool:
        outs = pool.map(_worker, chunks, chunksize=1)
    merged = {}
    notes, errs, collected = [], [], []
    calls = 0
    side = {"loops": {}, "forall": [], "contracts": {}, "lemma_uses": {}, "analysed": set()}
    for obls, ns, es, col, nc, sd in outs:
        calls += nc
        side["analysed"].update(sd["analysed"])
        for k, v in sd["loops"].items():
            prev = side["loops"].get(k)
            if prev is None or (prev[0] and not v[0]):
                side["loops"][k] = v
        for x in sd["forall"]:
            if x not in side["forall"]:
                side["forall"].append(x)
        for name in ("contracts", "lemma_uses"):
            for k, v in sd[name].items():
                side[name][k] = side[name].get(k, 0) + v
        notes.extend(ns)
        errs.extend(es)
        collected.extend(col)
        for key, kind, inst, where, detail, ok, fail, contexts in obls:
            m = merged.get(key)
            if m is None:
                merged[key] = {"key": key, "kind": kind, "inst": inst, "where": where, "detail": detail, "ok": ok, "fail": list(fail), "contexts": contexts}
            else:
                m["ok"] += ok
                m["fail"].extend(fail)
                m["contexts"] += contexts
    return merged, notes, errs, collected, {"roots": len(names), "activations": calls, "wall_s": round(time.time() - t0, 1), "side": side}


# ---------------------------------------------------------------------------------------------
# INV: guarantee side of the invariant table, checked on everything a root hands out


def adt_type_entries(facts):
    m = {}
    for t in facts.types:
        if t.get("k") == "adt" and "variants" in t and t["path"] not in m:
            m[t["path"]] = t
    return m


def check_invariants(I, inst, R, frame, args, invariants, tmap):
    """Walk the returned value and every cell reachable through the root's reference arguments;
    every crate value of an invariant-table type must satisfy its invariant. Returns findings."""
    from .values import Arr, Enum, Ref, Scalar, Seq, Struct

    out = []
    if R is None:
        return out
    invariants = I.inv  # the table bound to this fact file (moved private types keep their invariant)
    seen = set()
    counted = [0]
    by_type = {}

    def walk(v, where, depth=0, S=R):
        if depth > 10 or S.dead:
            return
        if isinstance(v, Struct):
            inv = invariants.get(v.path)
            if inv is not None and v.path in tmap:
                counted[0] += 1
                by_type[v.path] = by_type.get(v.path, 0) + 1
                bad = inv.check(I, v, tmap[v.path], S)
                for b in bad:
                    out.append({"root": inst["name"], "type": v.path, "where": where, "problem": b})
            for i, f in enumerate(v.fields):
                walk(f, where + "." + str(i), depth + 1, S)
        elif isinstance(v, Enum):
            for k, fs in v.variants.items():
                Sk = S
                d = v.when.get(k)
                if d is not None and (d.iv or d.facts or d.ef):
                    Sk = S.copy()
                    Sk.apply_delta(d)
                for i, f in enumerate(fs):
                    walk(f, where + "::" + k + "." + str(i), depth + 1, Sk)
        elif isinstance(v, Arr):
            for i, e in enumerate(v.elems):
                walk(e, where + "[%d]" % i, depth + 1, S)
        elif isinstance(v, Seq):
            if v.elem is not None:
                walk(v.elem, where + "[*]", depth + 1, S)
        elif isinstance(v, Ref):
            if v.cell is not None and not (isinstance(v.cell, tuple) and v.cell and v.cell[0] == "multi"):
                key = (v.cell, v.path, id(S))
                if key not in seen:
                    seen.add(key)
                    walk(I.read(S, v.cell, v.path, ("invchk",)), where + "*", depth + 1, S)

    walk(R.cells.get((frame, 0)), "return")
    for i, a in enumerate(args):
        if isinstance(a, Ref) and a.mut:
            walk(a, "arg%d" % i)
    return [dict(x, checked=counted[0], types=dict(by_type)) for x in out] if out else [{"root": inst["name"], "ok": True, "checked": counted[0], "types": dict(by_type)}]
