"""E-FLOW: interprocedural origin ("derived only from") analysis on monomorphic MIR.

For every local of a function the engine computes the set of *origins* its value can be derived
from — flow-insensitive and field-insensitive inside a function (so always an over-approximation),
context-sensitive across calls through per-function summaries with symbolic parameters.

Tokens
  ("param", i)        i-th MIR argument of the function being summarised (1-based)
  ("const", text)     a string / byte-string / char constant (text decoded); scalars: ("int", v)
  ("read", site)      the result of a call through a function pointer (site = "fn@span")
  ("sink", name, site) the result of a call to a function registered as a sink (not descended)
  ("call", def)       the result of a call to a function that is neither local, nor transparent
  ("op", kind)        the result of arithmetic / comparison on values (BinaryOp, UnaryOp, Len, ...)

Calls
  * local function with a body: its summary is instantiated (parameters replaced by the origins
    of the arguments; a closure called directly gets its tupled arguments spread);
  * call through a function pointer: event PTRCALL with the origins of each argument;
  * sink (predicate supplied by the client): event SINK, not descended;
  * non-local callee in TRANSPARENT: result derives from all arguments (carriers such as `ok`,
    `map_err`, `Deref::deref`, `Try::branch`, the `format!` machinery, `str::chars`);
  * any other non-local callee: result is ("call", def); event USE with the origins consumed;
  * closures passed to a non-local callee are invoked with every parameter bound to the union of
    the other arguments' origins; their events are kept and their result joins the callee's.
"""

TRANSPARENT = {
    # carriers of Result / Option
    "core::result::Result::<T, E>::map_err",
    "core::result::Result::<T, E>::ok",
    "core::option::Option::<T>::ok_or_else",
    "core::option::Option::<T>::ok_or",
    "<core::result::Result<T, E> as core::ops::try_trait::Try>::branch",
    "<core::result::Result<T, F> as core::ops::try_trait::FromResidual<core::result::Result<core::convert::Infallible, E>>>::from_residual",
    "<core::option::Option<T> as core::ops::try_trait::Try>::branch",
    "<T as core::convert::Into<U>>::into",
    "<T as core::convert::From<T>>::from",
    # owned buffer -> slice views
    "<alloc::vec::Vec<T, A> as core::ops::deref::Deref>::deref",
    "<alloc::string::String as core::ops::deref::Deref>::deref",
    "alloc::vec::Vec::<T, A>::as_slice",
    "<alloc::vec::Vec<T, A> as core::convert::AsRef<[T]>>::as_ref",
    "<[T] as core::convert::AsRef<[T]>>::as_ref",
    "alloc::string::String::as_str",
    "core::str::<impl str>::as_bytes",
    # the string itself and its suffixes
    "core::str::<impl str>::chars",
    "core::str::iter::Chars::<'a>::as_str",
    "<core::str::iter::Chars<'a> as core::iter::traits::iterator::Iterator>::next",
    # format!("{a}/{b}")
    "core::fmt::rt::Argument::<'_>::new_display",
    "core::fmt::Arguments::<'a>::new",
    "alloc::fmt::format",
    "core::hint::must_use",
    # routing combinators: hand their receiver's payload (or nothing) to at most one closure, once
    "core::result::Result::<T, E>::and_then",
    "core::result::Result::<T, E>::map",
    "core::result::Result::<T, E>::map_or_else",
    "core::result::Result::<T, E>::map_or",
    "core::result::Result::<T, E>::or_else",
    "core::result::Result::<T, E>::unwrap_or_else",
    "core::option::Option::<T>::and_then",
    "core::option::Option::<T>::map",
    "core::option::Option::<T>::map_or_else",
    "core::option::Option::<T>::map_or",
    "core::option::Option::<T>::or_else",
    "core::option::Option::<T>::unwrap_or_else",
    "core::option::Option::<T>::unwrap_or",
    "core::result::Result::<T, E>::unwrap_or",
    # prefixes / suffixes / sub-slices of the same string
    "core::slice::index::<impl core::ops::index::Index<I> for [T]>::index",
    "core::slice::<impl [T]>::get",
    "core::bool::<impl bool>::then_some",
    "core::bool::<impl bool>::then",
    "core::option::Option::<core::option::Option<T>>::flatten",
    "core::option::Option::<T>::is_some_and",
    "core::str::<impl str>::split_once",
    "core::str::<impl str>::strip_prefix",
    "core::str::traits::<impl core::ops::index::Index<I> for str>::index",
    "core::str::<impl str>::get",
    "core::str::<impl str>::split_at",
    # forward iteration, lazily mapped
    "core::slice::iter::<impl core::iter::traits::collect::IntoIterator for &'a [T]>::into_iter",
    "<I as core::iter::traits::collect::IntoIterator>::into_iter",
    "core::iter::traits::iterator::Iterator::map",
    "<core::iter::adapters::map::Map<I, F> as core::iter::traits::iterator::Iterator>::find_map",
    "<core::iter::adapters::map::Map<I, F> as core::iter::traits::iterator::Iterator>::next",
    "core::iter::traits::iterator::Iterator::find_map",
    "alloc::str::<impl [S]>::concat",
    "alloc::slice::<impl [T]>::concat",
    # other ways to build the same string
    "alloc::string::String::new",
    "alloc::string::String::push_str",
    "alloc::string::String::push",
    "<alloc::string::String as core::convert::From<&str>>::from",
    "alloc::str::<impl alloc::borrow::ToOwned for str>::to_owned",
    "<T as alloc::string::ToString>::to_string",
    "<str as alloc::string::SpecToString>::spec_to_string",
    "alloc::slice::<impl [T]>::concat",
    "alloc::slice::<impl [T]>::join",
    # forward iteration over a slice, first hit
    "core::slice::<impl [T]>::iter",
    "<core::slice::iter::Iter<'a, T> as core::iter::traits::iterator::Iterator>::find_map",
    "<core::slice::iter::Iter<'a, T> as core::iter::traits::iterator::Iterator>::next",
}

# sub-slicing: the result derives from the receiver only (the other arguments are positions)
INDEXERS = {
    "core::slice::index::<impl core::ops::index::Index<I> for [T]>::index",
    "core::slice::<impl [T]>::get",
    "core::str::<impl str>::split_once",
    "core::str::<impl str>::strip_prefix",
    "core::str::traits::<impl core::ops::index::Index<I> for str>::index",
    "core::str::<impl str>::get",
    "core::str::<impl str>::split_at",
}

# which closure argument of a routing combinator runs on the failure / absent case
FAILURE_ARG = {
    "core::result::Result::<T, E>::map_or_else": 1,
    "core::result::Result::<T, E>::or_else": 1,
    "core::result::Result::<T, E>::unwrap_or_else": 1,
    "core::option::Option::<T>::map_or_else": 1,
    "core::option::Option::<T>::or_else": 1,
    "core::option::Option::<T>::unwrap_or_else": 1,
    "core::option::Option::<T>::ok_or_else": 1,
}
ROUTERS = {d for d in TRANSPARENT if d.startswith("core::result::Result::<T, E>::") or d.startswith("core::option::Option::<T>::")}

# carriers that store (something derived from) their other arguments behind their first `&mut`
BUILDERS = {"alloc::string::String::push_str", "alloc::string::String::push"}

# results that are plain verdicts about a value (bool / Option<char>): consuming them says nothing
# about where a *path* comes from; they are still non-transparent (USE events are recorded).


def decode_const(v):
    """Exporter constant -> token or None."""
    if v is None:
        return None
    if isinstance(v, dict):
        if "fn" in v:
            return ("fn", v["fn"])
        if "str" in v:
            return ("const", v["str"])
        if "int" in v:
            return ("int", v["int"])
        if "bool" in v:
            return ("int", 1 if v["bool"] else 0)
        if "char" in v:
            return ("const", v["char"])
        if "ref" in v:
            return decode_const(v["ref"])
        if "arr" in v:
            try:
                return ("bytes", tuple(e["int"] for e in v["arr"]))
            except Exception:
                return ("const?", "array")
        if "bytes" in v:
            return ("bytes", tuple(v["bytes"]))
    return ("const?", str(v)[:40])


class Summary:
    __slots__ = ("ret", "events", "param_out")

    def __init__(self):
        self.ret = frozenset()
        self.events = []
        self.param_out = []


class OFlow:
    def __init__(self, facts, is_sink=lambda inst: None, transparent=TRANSPARENT):
        self.f = facts
        self.is_sink = is_sink
        self.transparent = transparent
        self.memo = {}
        self.stack = []
        self.by_key = {}
        for i in facts.instances:
            self.by_key.setdefault(i["key"], []).append(i)
        self.visited = set()
        self.unknown_consts = []

    # ---------------------------------------------------------------- helpers
    def closure_insts(self, ty_id):
        t = self.f.ty(ty_id)
        while t["k"] == "ref":
            t = self.f.ty(t["to"])
        if t["k"] == "closure":
            return self.by_key.get(t["key"], [])
        return []

    def operand_origins(self, op, org):
        if "c" in op or "m" in op:
            pl = op.get("c") or op.get("m")
            return set(org.get(pl["l"], ()))
        k = op.get("k")
        if isinstance(k, dict):
            tok = decode_const(k.get("v"))
            if tok is None:
                return set()
            return {tok}
        return set()

    # ---------------------------------------------------------------- summaries
    def summary(self, inst):
        iid = inst["id"]
        if iid in self.memo:
            return self.memo[iid]
        if iid in self.stack:
            s = Summary()  # recursion: none in this crate; sound fallback = opaque result
            s.ret = frozenset({("call", "recursive:" + inst["name"])})
            return s
        self.stack.append(iid)
        self.visited.add(iid)
        body = inst["body"]
        n = body["arg_count"]
        org = {i: {("param", i)} for i in range(1, n + 1)}
        events = {}
        alias = {}  # local holding a &mut -> locals it may point into
        changed = True
        rounds = 0

        def add(l, toks):
            nonlocal changed
            cur = org.setdefault(l, set())
            if not toks <= cur:
                cur |= toks
                changed = True

        def place_origins(pl):
            return set(org.get(pl["l"], ()))

        while changed and rounds < 50:
            changed = False
            rounds += 1
            events = {}
            for bi, b in enumerate(body["blocks"]):
                if b.get("cleanup"):
                    continue
                for si, st in enumerate(b["stmts"]):
                    if st["k"] != "assign":
                        continue
                    rv = st["rv"]
                    k = rv["k"]
                    toks = set()
                    if k == "use":
                        toks = self.operand_origins(rv["op"], org)
                        pl0 = rv["op"].get("c") or rv["op"].get("m")
                        if pl0 is not None and not pl0["p"] and pl0["l"] in alias and not st["place"]["p"]:
                            cur = alias.setdefault(st["place"]["l"], set())
                            if not alias[pl0["l"]] <= cur:
                                cur |= alias[pl0["l"]]
                                changed = True
                    elif k in ("ref", "addr_of", "discr", "copy_for_deref"):
                        toks = place_origins(rv["place"])
                        if k in ("ref", "addr_of") and rv.get("bk") != "shared" and not st["place"]["p"]:
                            src = rv["place"]
                            tg = {src["l"]}
                            if src["p"] and src["p"][0] == "deref":
                                tg |= alias.get(src["l"], set())
                            cur = alias.setdefault(st["place"]["l"], set())
                            if not tg <= cur:
                                cur |= tg
                                changed = True
                    elif k == "aggregate":
                        for o in rv["ops"]:
                            toks |= self.operand_origins(o, org)
                    elif k in ("cast", "repeat", "shallow_init_box"):
                        toks = self.operand_origins(rv["op"], org) if "op" in rv else set()
                    else:
                        ins = set()
                        for key in ("a", "b", "op", "l", "r"):
                            if isinstance(rv.get(key), dict):
                                ins |= self.operand_origins(rv[key], org)
                        if "place" in rv:
                            ins |= place_origins(rv["place"])
                        toks = {("op", k)}
                        events[(bi, si)] = ("USE", "<%s>" % k, st.get("span"), [frozenset(ins)])
                    add(st["place"]["l"], toks)
                t = b["term"]
                if t["k"] != "call":
                    continue
                argo = [self.operand_origins(a, org) for a in t["args"]]
                mut_targets = []
                for a in t["args"]:
                    pl = a.get("c") or a.get("m")
                    mut_targets.append(alias.get(pl["l"], set()) if pl is not None and not pl["p"] else set())

                def write_back(ai, toks):
                    for tl in mut_targets[ai]:
                        add(tl, toks)

                site = t.get("span")
                fdesc = t["f"]
                dest = t["dest"]["l"]
                if fdesc["k"] != "item":
                    events[(bi, "t")] = ("PTRCALL", fdesc.get("ty"), site, [frozenset(a) for a in argo], bi)
                    add(dest, {("read", site)})
                    for ai in range(len(argo)):
                        write_back(ai, {("read", site)})
                    continue
                r = fdesc["resolved"] or fdesc["declared"]
                callee = self.f.instances[r["inst"]] if r.get("local") and "inst" in r else None
                if callee is not None and callee.get("body") is not None:
                    sk = self.is_sink(callee)
                    if sk is not None:
                        events[(bi, "t")] = ("SINK", sk, site, [frozenset(a) for a in argo], bi)
                        add(dest, {("sink", sk, site)})
                        continue
                    cargs = argo
                    if callee.get("closure") and len(argo) == 2 and callee["body"]["arg_count"] != 2:
                        cargs = [argo[0]] + [argo[1]] * (callee["body"]["arg_count"] - 1)
                    elif callee.get("closure") and len(argo) == 2:
                        cargs = argo
                    s = self.summary(callee)
                    sub = self._subst(s, cargs)
                    events[(bi, "t")] = ("LOCAL", callee["id"], site, sub[1], bi, [frozenset(a) for a in argo])
                    add(dest, sub[0])
                    if len(cargs) == len(argo):
                        for ai, po in enumerate(s.param_out):
                            if po and ai < len(argo):
                                write_back(ai, self._subst_toks(po, cargs))
                    continue
                # non-local callee
                d = r["def"]
                clos_ret = set()
                sub_events = []
                others = set()
                clos = []
                for ai, a in enumerate(t["args"]):
                    pl = a.get("c") or a.get("m")
                    insts = self.closure_insts(body["locals"][pl["l"]]["ty"]) if pl is not None and not pl["p"] else []
                    fnitem = None
                    if pl is None and isinstance(a.get("k"), dict) and isinstance(a["k"].get("v"), dict) and "fn" in a["k"]["v"]:
                        # a crate function passed by name (`.and_then(Self::helper)`)
                        fnitem = [i for i in self.by_key.get(a["k"]["v"].get("key"), []) if i.get("body") is not None]
                    if insts:
                        clos.append((ai, insts, True))
                    elif fnitem:
                        clos.append((ai, fnitem, False))
                    else:
                        others |= argo[ai]
                per_closure = []
                for ai, insts, has_env in clos:
                    for ci in insts:
                        sk = self.is_sink(ci)
                        if sk is not None:
                            ev = ("SINK", sk, site, [frozenset(others)] * ci["body"]["arg_count"], bi)
                            clos_ret |= {("sink", sk, site)}
                            sub_events.append(ev)
                            per_closure.append((ai, ci["id"], [ev]))
                            continue
                        s = self.summary(ci)
                        n_par = ci["body"]["arg_count"]
                        cargs = ([argo[ai]] + [others] * (n_par - 1)) if has_env else ([others] * n_par)
                        sub = self._subst(s, cargs)
                        clos_ret |= sub[0]
                        sub_events.extend(sub[1])
                        per_closure.append((ai, ci["id"], sub[1]))
                for ai in range(len(argo)):
                    if mut_targets[ai]:
                        rest = set()
                        for aj in range(len(argo)):
                            if aj != ai:
                                rest |= argo[aj]
                        if d in BUILDERS:
                            write_back(ai, rest | clos_ret)
                        elif d not in self.transparent:
                            write_back(ai, {("call", d)})
                        # other carriers (iterator advance) leave what is behind a &mut as it is
                if d in INDEXERS:
                    add(dest, (argo[0] if argo else set()) | clos_ret)
                elif d in self.transparent:
                    add(dest, others | clos_ret)
                    if sub_events:
                        events[(bi, "t")] = ("LOCAL", None, site, sub_events, bi, [frozenset(a) for a in argo], d, per_closure)
                    # &mut arguments of carriers keep their origins
                else:
                    add(dest, {("call", d)})
                    events[(bi, "t")] = ("USE", d, site, [frozenset(a) for a in argo], bi, sub_events, per_closure)
        s = Summary()
        s.ret = frozenset(org.get(0, ()))
        s.param_out = [frozenset(org.get(i, set()) - {("param", i)}) for i in range(1, n + 1)]
        s.events = [events[k] for k in sorted(events, key=lambda x: (x[0], str(x[1])))]
        self.stack.pop()
        self.memo[iid] = s
        self.memo[("org", iid)] = org
        return s

    def _subst_toks(self, toks, cargs):
        out = set()
        for t in toks:
            if t[0] == "param":
                i = t[1] - 1
                out |= cargs[i] if i < len(cargs) else {("call", "missing-arg")}
            else:
                out.add(t)
        return out

    def _subst(self, s, cargs):
        def sub(toks):
            out = set()
            for t in toks:
                if t[0] == "param":
                    i = t[1] - 1
                    out |= cargs[i] if i < len(cargs) else {("call", "missing-arg")}
                else:
                    out.add(t)
            return out

        def sub_event(e):
            # events are nested tuples/lists; every frozenset in them is a set of origin tokens
            if isinstance(e, frozenset):
                return frozenset(sub(e))
            if isinstance(e, tuple):
                return tuple(sub_event(x) for x in e)
            if isinstance(e, list):
                return [sub_event(x) for x in e]
            return e

        return sub(s.ret), [sub_event(e) for e in s.events]

    def origins(self, inst):
        self.summary(inst)
        return self.memo[("org", inst["id"])]


def flatten(events, depth=0):
    """All leaf events (PTRCALL / SINK / USE), including those inside local callees and closures."""
    for e in events:
        if e[0] == "LOCAL":
            yield from flatten(e[3], depth + 1)
        else:
            yield e
            if e[0] == "USE" and len(e) >= 6:
                yield from flatten(e[5], depth + 1)


def decode_fmt_template(bs):
    """Pieces of a `format_args!` template in the compact encoding of this toolchain: a byte >= 0x80
    is an argument placeholder, a byte 1..0x7f is the length of a literal that follows, 0 ends.
    Returns a list of ('arg',) / ('lit', text) or None if the bytes do not parse that way."""
    out, i = [], 0
    bs = list(bs)
    while i < len(bs):
        b = bs[i]
        if b == 0:
            return out if i == len(bs) - 1 else None
        if b >= 0x80:
            out.append(("arg",))
            i += 1
        else:
            lit = bs[i + 1 : i + 1 + b]
            if len(lit) != b:
                return None
            out.append(("lit", bytes(lit).decode("utf-8", "replace")))
            i += 1 + b
    return None
