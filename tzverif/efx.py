"""E-FX / E-TY: effects, ambient authority and type facts (C15; also used by C07, C20)."""
import re

from .facts import walk_json

# core / alloc module prefixes that are NOT pure: shared-mutable or thread-unsafe state.
CORE_DENY = [
    ("core::cell", "interior mutability"),
    ("core::sync::atomic", "atomics (shared mutable state)"),
    ("core::sync::", "shared-state primitive"),
    ("core::ptr::read_volatile", "volatile access"),
    ("core::ptr::write_volatile", "volatile access"),
    ("core::intrinsics::atomic", "atomic intrinsic"),
    ("core::intrinsics::volatile", "volatile intrinsic"),
    ("alloc::rc", "thread-unsafe sharing (Rc)"),
    ("alloc::task", "wakers"),
]

# std APIs that read or write process-global / environment state: the RUSTSEC-2020-0071/0159 hazard.
STD_ENV = [
    "std::env",
    "std::process",
    "std::thread",
    "std::sync",
    "std::io::stdio",
    "std::io::stdin",
    "std::io::stdout",
    "std::io::stderr",
    "std::net",
    "std::os",
    "std::panic",
    "std::alloc",
    "std::sys",
    "std::collections::hash::map::RandomState",
    "std::hash::random",
]

# Ambient table (DESIGN §6.4): std API -> the only crate function allowed to call it.
AMBIENT = {
    "std::time::SystemTime::now": ("tz::utils::system_time::current_duration_since_epoch", "documented clock read of now()/find_current_local_time_type()"),
    "std::time::SystemTime::duration_since": ("tz::utils::system_time::current_duration_since_epoch", "pure arithmetic on the clock value"),
    "std::time::SystemTimeError::duration": ("tz::utils::system_time::current_duration_since_epoch", "accessor of the clock error"),
    "std::fs::read": ("tz::timezone::TimeZoneSettings::<'_>::DEFAULT_READ_FILE_FN", "documented default file reader (injectable callback)"),
}

# The clock may be read by any crate function, whatever it is called and wherever it lives, as long as the only public
# functions from which it can be reached are the documented "current time" entry points (public API, so stable names).
CLOCK_APIS = ("std::time::SystemTime::now", "std::time::SystemTime::duration_since", "std::time::SystemTimeError::duration")
CLOCK_ENTRY = ("tz::datetime::UtcDateTime::now", "tz::datetime::DateTime::now", "tz::timezone::TimeZone::find_current_local_time_type")


def public_callers(facts, own):
    """Public crate functions from which `own` is reachable through direct calls or function values (closures count
    as their enclosing function)."""
    crate = facts.d["config"]["crate"]
    rev = {}
    for owner, b, t in iter_calls(facts):
        f = t["f"]
        if f["k"] != "item":
            continue
        r = f.get("resolved") or f["declared"]
        if r.get("local"):
            rev.setdefault(norm_name(strip_closure(r["def"])), set()).add(norm_name(strip_closure(owner)))
    for owner, path, how in fn_mentions(facts):
        if crate_of_path(path) == crate:
            rev.setdefault(norm_name(strip_closure(path)), set()).add(norm_name(strip_closure(owner)))
    public = {norm_name(i["name"]) for i in facts.instances if i.get("reachable") and not i.get("closure")}
    seen, work, roots = {own}, [own], set()
    while work:
        x = work.pop()
        if x in public:
            roots.add(x)
        for c in rev.get(x, ()):
            if c not in seen:
                seen.add(c)
                work.append(c)
    return roots


# std items that are plain value plumbing (no ambient state).
STD_PURE_PREFIX = [
    "std::error::",  # Error trait plumbing, kept for older layouts where it lived in std
    "<std::io::error::Error as ",  # Display/Debug/Error impls of io::Error values
    "std::io::error::",  # io::Error constructors / conversions (values only)
    "<alloc::boxed::Box<dyn core::error::Error",
]

CAPABILITY_TRAITS = {"core::error::Error", "core::fmt::Display", "core::fmt::Debug", "core::marker::Send", "core::marker::Sync"}


def norm_name(s):
    """Remove lifetime arguments so that `Foo::<'a>::f` and `Foo::<'_>::f` compare equal."""
    s = re.sub(r"'\w+\s*,\s*", "", s)
    s = re.sub(r"::<'\w+>", "", s)
    s = re.sub(r"<'\w+>", "", s)
    s = re.sub(r"&'\w+ ", "&", s)
    return s


def strip_closure(path):
    """`a::b::{closure#0}::{closure#1}` -> `a::b`."""
    while True:
        i = path.rfind("::{closure#")
        if i < 0:
            return path
        path = path[:i]


def iter_calls(facts, mono=True, poly=True):
    """Yield (owner_path, block, term, span) for every call terminator in non-cleanup blocks."""
    if poly:
        for owner, body in facts.all_bodies():
            for b in body["blocks"]:
                t = b["term"]
                if t["k"] == "call":
                    yield owner, b, t
    if mono:
        for inst in facts.instances:
            for b in inst["body"]["blocks"]:
                t = b["term"]
                if t["k"] == "call":
                    yield inst["name"], b, t


def fn_mentions(facts):
    """Yield (owner, def path, crate?, how) for every function *value* mentioned in any body
    (called or not): constants of FnDef type and reified pointers."""
    seen = set()

    def scan(owner, body):
        def visit(x):
            if "fn" in x and isinstance(x.get("fn"), str):
                k = (owner, x["fn"])
                if k not in seen:
                    seen.add(k)
                    out.append((owner, x["fn"], "fn item value"))
            if "fnptr" in x and isinstance(x.get("fnptr"), str):
                k = (owner, x["fnptr"])
                if k not in seen:
                    seen.add(k)
                    out.append((owner, x["fnptr"], "fn pointer constant"))
            if x.get("k") == "cast" and isinstance(x.get("target"), dict):
                d = x["target"]["def"]
                k = (owner, d)
                if k not in seen:
                    seen.add(k)
                    out.append((owner, d, "reified to fn pointer"))

        walk_json(body, visit)

    out = []
    for owner, body in facts.all_bodies():
        scan(owner, body)
    for inst in facts.instances:
        scan(inst["name"], inst["body"])
    return out


def classify_extern(path, crate):
    """Returns (class, reason): 'pure' | 'deny' | 'env' | 'ambient' | 'std-pure' | 'unknown-std' | 'foreign'."""
    if crate in ("core", "alloc"):
        for pre, why in CORE_DENY:
            if pre in path:
                return "deny", why
        return "pure", ""
    if crate == "std":
        for pre in STD_ENV:
            if path.startswith(pre) or ("<" + pre) in path or (" " + pre) in path:
                return "env", pre
        if path in AMBIENT:
            return "ambient", AMBIENT[path][1]
        for pre in STD_PURE_PREFIX:
            if path.startswith(pre):
                return "std-pure", ""
        return "unknown-std", ""
    return "foreign", crate


def crate_of_path(path):
    p = path.lstrip("<")
    return p.split("::", 1)[0]


def check_effects(run, facts, cfgname, allow_ambient=True):
    """FX-EXTERN, FX-ENV, FX-CALLBACK over every body of one configuration."""
    n_calls = 0
    n_extern = 0
    n_fnptr = 0
    n_virtual = 0
    ambient_seen = {}
    clock_roots = {}
    # capability fn-pointer types: fn-pointer-typed fields of crate ADTs that are reachable from outside
    cap_fnptr = set()
    for a in facts.adts:
        if not a["reachable"]:
            continue
        for v in a["variants"]:
            for f in v["fields"]:
                if facts.ty(f["ty"])["k"] == "fnptr":
                    cap_fnptr.add(facts.ty_canon(f["ty"]))
    # crate-internal dispatch types: a fn-pointer type that occurs in no signature or field nameable from outside
    # and whose every value is made, somewhere in the crate, by coercing a crate function or closure — calling
    # through it is calling one of those crate functions (`let f = if ext { parse_a } else { parse_b }`)
    def mentions(tid, ts, seen=None):
        seen = seen if seen is not None else set()
        if tid in seen or not isinstance(tid, int):
            return False
        seen.add(tid)
        t_ = facts.ty(tid)
        if t_["k"] == "fnptr" and facts.ty_canon(tid) == ts:
            return True
        for key in ("to", "elem", "output"):
            if isinstance(t_.get(key), int) and mentions(t_[key], ts, seen):
                return True
        for key in ("elems", "inputs", "upvars"):
            for x in t_.get(key) or []:
                if isinstance(x, int) and mentions(x, ts, seen):
                    return True
        for a_ in t_.get("args") or []:
            if isinstance(a_, dict) and "t" in a_ and mentions(a_["t"], ts, seen):
                return True
        return False

    internal_cache = {}
    local_keys = {b_["key"] for b_ in facts.bodies} | {i_["key"] for i_ in facts.instances}

    def internal_dispatch(ts):
        if ts in internal_cache:
            return internal_cache[ts]
        ok_ = True
        for it in facts.d["items"]:
            if it.get("reachable") and (any(mentions(x, ts) for x in it.get("inputs") or []) or mentions(it.get("output"), ts)):
                ok_ = False
        for a_ in facts.adts:
            if a_["reachable"]:
                for v_ in a_["variants"]:
                    for f_ in v_["fields"]:
                        if mentions(f_["ty"], ts):
                            ok_ = False
        n_src = 0
        if ok_:
            for inst_ in facts.instances:
                for b_ in inst_["body"]["blocks"]:
                    for st_ in b_["stmts"]:
                        if st_["k"] == "assign" and st_["rv"]["k"] == "cast" and "FnPointer" in str(st_["rv"].get("ck", "")) and isinstance(st_["rv"].get("to"), int) and facts.ty_canon(st_["rv"]["to"]) == ts:
                            op_ = st_["rv"]["op"]
                            tgt_ = st_["rv"].get("target")
                            src_local = isinstance(tgt_, dict) and bool(tgt_.get("local"))
                            pl_ = op_.get("c") or op_.get("m")
                            src_closure = "ClosureFnPointer" in str(st_["rv"].get("ck", "")) and pl_ is not None and facts.ty(inst_["body"]["locals"][pl_["l"]]["ty"])["k"] == "closure"
                            if src_local or src_closure:
                                n_src += 1
                            else:
                                ok_ = False
        internal_cache[ts] = ok_ and n_src >= 1
        return internal_cache[ts]

    seen_keys = set()
    for owner, blk, t in iter_calls(facts):
        n_calls += 1
        f = t["f"]
        where = t.get("span")
        if f["k"] == "ptr":
            n_fnptr += 1
            ts = facts.ty_canon(f["ty"])
            ok = ts in cap_fnptr or internal_dispatch(ts)
            run.obligation(ok)
            key = "%s|fnptr-call|%s|%s" % (cfgname, norm_name(strip_closure(owner)), ts)
            if not ok and key not in seen_keys:
                seen_keys.add(key)
                run.finding("FX-CALLBACK", key, "call through a function pointer that is not a user-capability type (expected one of %s)" % sorted(cap_fnptr), where)
            continue
        if f["k"] != "item":
            run.finding("FX-CALLBACK", "%s|opaque-call|%s" % (cfgname, strip_closure(owner)), "call through a value that is neither a function item nor a function pointer", where)
            run.obligation(False)
            continue
        r = f["resolved"] or f["declared"]
        if r.get("kind") == "Virtual":
            n_virtual += 1
            tr = r.get("trait_item", r["def"])
            trait = tr.rsplit("::", 1)[0]
            ok = trait in CAPABILITY_TRAITS
            run.obligation(ok)
            key = "%s|virtual-call|%s|%s" % (cfgname, norm_name(strip_closure(owner)), tr)
            if not ok and key not in seen_keys:
                seen_keys.add(key)
                run.finding("FX-CALLBACK", key, "dynamic dispatch through a trait object that is not a listed capability", where)
            continue
        if r["local"]:
            continue
        n_extern += 1
        path = r["def"]
        cls, why = classify_extern(path, r["crate"])
        own = norm_name(strip_closure(owner))
        key = "%s|%s|%s" % (cfgname, own, path)
        if cls in ("pure", "std-pure"):
            ok = True
        elif cls == "ambient":
            allowed = norm_name(AMBIENT[path][0])
            ambient_seen.setdefault(path, set()).add(own)
            if path in CLOCK_APIS:
                if own not in clock_roots:
                    clock_roots[own] = public_callers(facts, own)
                extra = sorted(clock_roots[own] - {norm_name(x) for x in CLOCK_ENTRY})
                ok = allow_ambient and not extra
                if not ok and key not in seen_keys:
                    run.finding("FX-EXTERN", key, "the clock (%s) is read in %s, which can be reached from public function(s) %s; only %s are documented to read the clock" % (path, own, extra or "(ambient access not allowed in this configuration)", ", ".join(CLOCK_ENTRY)), where)
            else:
                ok = allow_ambient and own == allowed
                if not ok and key not in seen_keys:
                    run.finding("FX-EXTERN", key, "ambient std API %s called from %s; only %s may call it" % (path, own, allowed), where)
        elif cls == "deny":
            ok = False
            if key not in seen_keys:
                run.finding("FX-EXTERN", key, "call to %s (%s)" % (path, why), where)
        elif cls == "env":
            ok = False
            if key not in seen_keys:
                run.finding("FX-ENV", key, "call into process-global state API %s (%s*)" % (path, why), where)
        elif cls == "unknown-std":
            ok = False
            if key not in seen_keys:
                run.finding("FX-EXTERN", key, "std API %s is not in the ambient table (std is ambient by default)" % path, where)
        else:
            ok = False
            if key not in seen_keys:
                run.finding("FX-EXTERN", key, "call into unanalysed dependency crate %s: %s" % (why, path), where)
        seen_keys.add(key)
        run.obligation(ok)
    # function values that are mentioned but possibly never called directly
    n_mentions = 0
    for owner, path, how in fn_mentions(facts):
        crate = crate_of_path(path)
        if crate == facts.d["config"]["crate"]:
            continue
        n_mentions += 1
        cls, why = classify_extern(path, crate if crate in ("core", "alloc", "std") else crate)
        if cls in ("pure", "std-pure"):
            run.obligation(True)
            continue
        own = norm_name(strip_closure(owner))
        key = "%s|%s|%s" % (cfgname, own, path)
        if cls == "ambient" and allow_ambient and own == norm_name(AMBIENT[path][0]):
            run.obligation(True)
            continue
        if cls == "ambient" and allow_ambient and path in CLOCK_APIS and not (public_callers(facts, own) - {norm_name(x) for x in CLOCK_ENTRY}):
            run.obligation(True)
            continue
        if key in seen_keys:
            continue
        seen_keys.add(key)
        run.obligation(False)
        rule = "FX-ENV" if cls == "env" else "FX-EXTERN"
        run.finding(rule, key, "function %s used as a value (%s): class %s %s" % (path, how, cls, why))
    run.rule("FX-EXTERN[%s]" % cfgname, n_extern + n_mentions)
    run.rule("FX-CALLBACK[%s]" % cfgname, n_fnptr + n_virtual)
    return {"calls": n_calls, "extern_calls": n_extern, "fnptr_calls": n_fnptr, "virtual_calls": n_virtual, "fn_values": n_mentions, "ambient_seen": {k: sorted(v) for k, v in ambient_seen.items()}, "capability_fnptr_types": sorted(cap_fnptr)}


def check_statics(run, facts, cfgname):
    """FX-STATIC: no mutable / interior-mutable static, no thread-local, no reference to one."""
    n = 0
    for s in facts.d["statics"]:
        n += 1
        bad = []
        if s["mutable"]:
            bad.append("static mut")
        if s["thread_local"]:
            bad.append("#[thread_local]")
        if s["deep_cell"]:
            bad.append("interior mutability: " + s["deep_cell"])
        elif not s["freeze"]:
            bad.append("type is not Freeze")
        run.obligation(not bad)
        if bad:
            run.finding("FX-STATIC", "%s|static|%s" % (cfgname, s["path"]), "static %s: %s" % (s["path"], "; ".join(bad)), s.get("span"))
    # references from bodies
    refs = []

    def scan(owner, body):
        def visit(x):
            if x.get("k") == "thread_local_ref":
                refs.append((owner, "thread-local access " + x.get("def", "?")))
            if "static" in x and isinstance(x.get("static"), str):
                if x.get("mutable"):
                    refs.append((owner, "reference to mutable static " + x["static"]))

        walk_json(body, visit)

    nb = 0
    for owner, body in facts.all_bodies():
        nb += 1
        scan(owner, body)
    for inst in facts.instances:
        nb += 1
        scan(inst["name"], inst["body"])
    seen = set()
    for owner, what in refs:
        k = (strip_closure(owner), what)
        if k in seen:
            continue
        seen.add(k)
        run.obligation(False)
        run.finding("FX-STATIC", "%s|ref|%s|%s" % (cfgname, strip_closure(owner), what), what + " in " + owner)
    run.obligation(True, n=1)  # "no thread-local / mutable-static reference in nb bodies" as one discharged obligation when none found
    run.rule("FX-STATIC[%s]" % cfgname, n + nb)
    return {"statics": n, "bodies_scanned": nb}


def check_unsafe(run, facts, cfgname):
    lvl = facts.d["crate"]["unsafe_code_level"]
    ok = lvl == "forbid"
    run.obligation(ok)
    if not ok:
        run.finding("FX-UNSAFE", "%s|lint-level" % cfgname, "lint level of unsafe_code at the crate root is %r, expected forbid" % lvl)
    sites = [s for s in facts.d["crate"]["unsafe_sites"] if "(derive)" not in s["what"]]
    for s in sites:
        run.obligation(False)
        run.finding("FX-UNSAFE", "%s|%s|%s" % (cfgname, s["what"], s.get("key", s.get("span", "?").rsplit(":", 2)[0])), "user-written %s" % s["what"], s.get("span"))
    derived = len(facts.d["crate"]["unsafe_sites"]) - len(sites)
    run.rule("FX-UNSAFE[%s]" % cfgname, 1 + len(sites))
    return {"unsafe_code_level": lvl, "user_unsafe_sites": len(sites), "derive_generated_unsafe_impls_ignored": derived}


def check_types(run, facts, cfgname):
    """TY-CELL (deep UnsafeCell walk, done by the exporter over instantiated field types) and TY-AUTO."""
    n_cell = 0
    n_auto = 0
    caps = []
    for a in facts.adts:
        n_cell += 1
        ok = a["deep_cell"] is None
        run.obligation(ok)
        if not ok:
            run.finding("TY-CELL", "%s|%s" % (cfgname, a["path"]), "interior mutability reachable from %s: %s" % (a["path"], a["deep_cell"]), a.get("span"))
        if a["reachable"]:
            n_auto += 1
            for tr in ("send", "sync"):
                ok = a[tr] is True
                run.obligation(ok)
                if not ok:
                    run.finding("TY-AUTO", "%s|%s|%s" % (cfgname, a["path"], tr), "exported type %s is not %s" % (a["path"], tr.capitalize()), a.get("span"))
        for v in a["variants"]:
            for f in v["fields"]:
                k = facts.ty(f["ty"])["k"]
                if k in ("fnptr", "dyn") or "dyn " in f["ty_s"]:
                    caps.append("%s.%s: %s" % (a["path"], f["name"], f["ty_s"]))
    run.rule("TY-CELL[%s]" % cfgname, n_cell)
    run.rule("TY-AUTO[%s]" % cfgname, n_auto)
    # user impls of auto traits / negative impls would be unsafe impls (FX-UNSAFE); still list any impl of Send/Sync
    for imp in facts.d["impls"]:
        if imp.get("trait") in ("core::marker::Send", "core::marker::Sync"):
            run.obligation(False)
            run.finding("TY-AUTO", "%s|manual-impl|%s|%s" % (cfgname, imp["trait"], imp["self_s"]), "hand-written impl of %s for %s" % (imp["trait"], imp["self_s"]), imp.get("span"))
    return {"adts": n_cell, "exported_adts": n_auto, "capability_fields": sorted(set(caps))}
