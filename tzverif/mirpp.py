"""Pretty-printer for exported MIR bodies (debugging aid and evidence samples)."""


def pp_place(p):
    s = "_%d" % p["l"]
    for pr in p["p"]:
        if pr == "deref":
            s = "(*%s)" % s
        elif isinstance(pr, dict) and "f" in pr:
            s = "%s.%s" % (s, pr.get("n", pr["f"]))
        elif isinstance(pr, dict) and "idx" in pr:
            s = "%s[_%d]" % (s, pr["idx"])
        elif isinstance(pr, dict) and "ci" in pr:
            o, m, fe = pr["ci"]
            s = "%s[%s%d of %d]" % (s, "-" if fe else "", o, m)
        elif isinstance(pr, dict) and "sub" in pr:
            a, b, fe = pr["sub"]
            s = "%s[%d..%s%d]" % (s, a, "-" if fe else "", b)
        elif isinstance(pr, dict) and "dc" in pr:
            s = "(%s as %s)" % (s, pr["dc"])
        else:
            s = "%s.<%s>" % (s, pr)
    return s


def pp_val(v):
    if "int" in v:
        return str(v["int"])
    if "fn" in v:
        return "fn " + v["fn"]
    if "ref" in v:
        return "&" + pp_val(v["ref"])
    if "arr" in v:
        return "[" + ", ".join(pp_val(x) for x in v["arr"][:14]) + ("…" if len(v["arr"]) > 14 else "") + "]"
    if "str" in v:
        return repr(v["str"])
    if "tup" in v:
        return "(" + ", ".join(pp_val(x) for x in v["tup"]) + ")"
    if "adt" in v:
        return "%s::%s{%s}" % (v["adt"].rsplit("::", 1)[-1], v["variant"], ", ".join(pp_val(x) for x in v["fields"]))
    return str(v)[:60]


def pp_op(o):
    if "c" in o:
        return "copy " + pp_place(o["c"])
    if "m" in o:
        return "move " + pp_place(o["m"])
    if "k" in o:
        return "const " + pp_val(o["k"]["v"])
    return str(o)


def pp_rv(facts, rv):
    k = rv["k"]
    if k == "use":
        return pp_op(rv["op"])
    if k == "ref":
        return "&%s%s" % ("mut " if rv["bk"] == "mut" else "", pp_place(rv["place"]))
    if k == "binop":
        return "%s(%s, %s)" % (rv["op"], pp_op(rv["a"]), pp_op(rv["b"]))
    if k == "unop":
        return "%s(%s)" % (rv["op"], pp_op(rv["a"]))
    if k == "cast":
        return "%s as %s (%s)" % (pp_op(rv["op"]), facts.ty_s(rv["to"]), rv["ck"])
    if k == "discr":
        return "discriminant(%s)" % pp_place(rv["place"])
    if k == "aggregate":
        name = rv["ak"]
        if name == "adt":
            name = "%s::%s" % (rv["path"].rsplit("::", 1)[-1], rv["variant"])
        return "%s{%s}" % (name, ", ".join(pp_op(o) for o in rv["ops"]))
    if k == "repeat":
        return "[%s; %s]" % (pp_op(rv["op"]), rv["n"])
    return k


def pp_callee(f):
    if f["k"] == "item":
        r = f["resolved"] or f["declared"]
        s = r["def"]
        if r.get("kind") and r["kind"] != "Item":
            s += " {%s}" % r["kind"]
        if "inst" in r:
            s += " #%d" % r["inst"]
        return s
    if f["k"] == "ptr":
        return "(*%s)" % pp_op(f["op"])
    return "?"


def pp_body(facts, body, name=""):
    out = ["fn %s  (args: %d)" % (name, body["arg_count"])]
    for n, l in enumerate(body["locals"]):
        out.append("  let _%d: %s%s" % (n, facts.ty_s(l["ty"]), ("  // " + l["name"]) if "name" in l else ""))
    for i, b in enumerate(body["blocks"]):
        if b.get("cleanup"):
            continue
        out.append(" bb%d:" % i)
        for s in b["stmts"]:
            if s["k"] == "assign":
                out.append("    %s = %s" % (pp_place(s["place"]), pp_rv(facts, s["rv"])))
            elif s["k"] in ("live", "dead"):
                continue
            else:
                out.append("    %s" % s["k"])
        t = b["term"]
        k = t["k"]
        if k == "goto":
            out.append("    goto bb%d" % t["t"])
        elif k == "switch":
            out.append("    switch %s [%s, otherwise: bb%d]" % (pp_op(t["op"]), ", ".join("%s: bb%d" % (c[0], c[1]) for c in t["cases"]), t["otherwise"]))
        elif k == "call":
            out.append("    %s = %s(%s) -> %s   @%s" % (pp_place(t["dest"]), pp_callee(t["f"]), ", ".join(pp_op(a) for a in t["args"]), "bb%d" % t["t"] if t["t"] is not None else "!", t.get("span")))
        elif k == "assert":
            m = t["msg"]
            out.append("    assert(%s == %s, %s) -> bb%d   @%s" % (pp_op(t["cond"]), t["expected"], m["k"] + (":" + m["op"] if "op" in m else ""), t["t"], t.get("span")))
        elif k == "drop":
            out.append("    drop(%s) -> bb%d" % (pp_place(t["place"]), t["t"]))
        else:
            out.append("    " + k)
    return "\n".join(out)
