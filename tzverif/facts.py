"""Export facts from /repo (or a fixture crate) with the tzmir driver.

Every call builds in a fresh CARGO_TARGET_DIR (cargo's freshness cache would otherwise skip the
wrapper), passes a nonce through the environment and checks that the fact file echoes it.
"""
import json
import os
import shutil
import subprocess
import tempfile
import threading
import time

VERIF = os.path.dirname(os.path.dirname(os.path.abspath(__file__)))
REPO = os.environ.get("TZVERIF_REPO", "/repo")
DRIVER = os.path.join(VERIF, "tzmir", "target", "release", "tzmir")

RUSTFLAGS = "-Zmir-opt-level=0 -Coverflow-checks=on -Cdebug-assertions=off -Awarnings"

CONFIGS = {
    "std": [],
    "alloc": ["--no-default-features", "--features", "alloc"],
    "nofeat": ["--no-default-features"],
    "alloc32": ["-Zbuild-std=core,alloc", "--target", "i686-unknown-linux-gnu", "--no-default-features", "--features", "alloc"],
}


class BuildFailure(Exception):
    def __init__(self, config, output):
        super().__init__("build failed for configuration %s" % config)
        self.config = config
        self.output = output


_sysroot = None


def nightly_sysroot():
    global _sysroot
    if _sysroot is None:
        _sysroot = subprocess.check_output(["rustc", "+nightly", "--print", "sysroot"], text=True).strip()
    return _sysroot


def ensure_driver():
    if not os.path.exists(DRIVER):
        subprocess.check_call(["cargo", "+nightly", "build", "--release", "--offline"], cwd=os.path.join(VERIF, "tzmir"))


def export(config, repo=None, crate="tz", extra_flags=None):
    """Run `cargo +nightly check` on `repo` for `config` under the exporter; returns the facts dict."""
    repo = repo or REPO
    ensure_driver()
    tmp = tempfile.mkdtemp(prefix="tzverif-")
    try:
        out = os.path.join(tmp, "facts.json")
        nonce = os.urandom(8).hex()
        env = dict(os.environ)
        env.update(
            {
                "LD_LIBRARY_PATH": os.path.join(nightly_sysroot(), "lib") + ((":" + env["LD_LIBRARY_PATH"]) if env.get("LD_LIBRARY_PATH") else ""),
                "RUSTC_ICE": "0",
                "TZMIR_OUT": out,
                "TZMIR_NONCE": nonce,
                "TZMIR_CRATE": crate,
                "RUSTFLAGS": RUSTFLAGS,
                "RUSTC_WORKSPACE_WRAPPER": DRIVER,
                "CARGO_TARGET_DIR": os.path.join(tmp, "target"),
                "CARGO_NET_OFFLINE": "true",
                "CARGO_INCREMENTAL": "0",
            }
        )
        # the exporter must see the real build's flags and nothing from the caller's environment
        for k in ("RUSTC_WRAPPER", "CARGO_ENCODED_RUSTFLAGS", "CARGO_BUILD_RUSTFLAGS"):
            env.pop(k, None)
        flags = list(CONFIGS[config]) if extra_flags is None else list(extra_flags)
        cmd = ["cargo", "+nightly", "check", "--offline", "--lib"] + flags
        t0 = time.time()
        p = subprocess.run(cmd, cwd=repo, env=env, stdout=subprocess.PIPE, stderr=subprocess.STDOUT, text=True)
        if p.returncode != 0:
            raise BuildFailure(config, p.stdout)
        if not os.path.exists(out):
            raise BuildFailure(config, "exporter wrote no fact file (crate name %r not built?)\n%s" % (crate, p.stdout))
        with open(out) as f:
            facts = json.load(f)
        if facts.get("nonce") != nonce:
            raise BuildFailure(config, "stale fact file: nonce mismatch")
        facts["_config_name"] = config
        facts["_export_s"] = round(time.time() - t0, 2)
        return Facts(facts)
    finally:
        shutil.rmtree(tmp, ignore_errors=True)


def export_many(configs, **kw):
    """Export several configurations in parallel. Returns {config: Facts | BuildFailure}."""
    res = {}

    def run(c):
        try:
            res[c] = export(c, **kw)
        except BuildFailure as e:
            res[c] = e

    ts = [threading.Thread(target=run, args=(c,)) for c in configs]
    for t in ts:
        t.start()
    for t in ts:
        t.join()
    return res


class Facts:
    """Thin convenience wrapper around the JSON fact file."""

    def __init__(self, d):
        self.d = d
        import hashlib

        # content hash taken before any engine attaches per-instance caches to the dicts
        self.hash = hashlib.sha256(json.dumps({k: v for k, v in d.items() if k not in ("nonce", "_export_s", "_config_name")}, sort_keys=True).encode()).hexdigest()
        self.config = d.get("_config_name")
        self.types = d["types"]
        self.instances = d["instances"]
        self.bodies = d["bodies"]
        self.items = d["items"]
        self.adts = d["adts"]
        self.adt_by_path = {a["path"]: a for a in self.adts}
        self.item_by_path = {}
        for it in self.items:
            self.item_by_path.setdefault(it["path"], it)
        self.inst_by_name = {}
        for i in self.instances:
            self.inst_by_name.setdefault(i["name"], i)

    def ty(self, tid):
        return self.types[tid]

    def ty_s(self, tid):
        return self.types[tid]["s"]

    def ty_canon(self, tid, depth=0):
        """Region-free structural rendering of a type (poly and mono spellings compare equal)."""
        t = self.types[tid]
        k = t["k"]
        if depth > 12:
            return "…"
        c = lambda x: self.ty_canon(x, depth + 1)
        if k == "int":
            return ("isize" if t["signed"] else "usize") if t.get("ptr_sized") else ("%s%d" % ("i" if t["signed"] else "u", t["bits"]))
        if k in ("bool", "char", "str", "never", "float"):
            return k
        if k in ("ref", "ptr"):
            return ("&mut " if t["mut"] else "&") + c(t["to"]) if k == "ref" else ("*mut " if t["mut"] else "*const ") + c(t["to"])
        if k == "slice":
            return "[%s]" % c(t["elem"])
        if k == "array":
            return "[%s; %s]" % (c(t["elem"]), t["len"])
        if k == "tuple":
            return "(%s)" % ", ".join(c(e) for e in t["elems"])
        if k in ("adt", "fndef"):
            args = []
            for a in t["args"]:
                if isinstance(a, dict) and "t" in a:
                    args.append(c(a["t"]))
                elif isinstance(a, dict) and "c" in a:
                    args.append(str(a["c"]))
            return t["path"] + ("<%s>" % ", ".join(args) if args else "")
        if k == "closure":
            return "closure " + t["path"]
        if k == "fnptr":
            return "fn(%s) -> %s" % (", ".join(c(i) for i in t["inputs"]), c(t["output"]))
        if k == "dyn":
            return "dyn " + " + ".join(sorted(t["traits"]))
        if k == "param":
            return t["name"]
        return t["s"]

    def instances_of(self, path):
        return [i for i in self.instances if i["path"] == path]

    def all_bodies(self):
        """Yield (owner description, body) over polymorphic bodies and their promoteds."""
        for b in self.bodies:
            yield b["path"], b["body"]
            for n, p in enumerate(b["promoted"]):
                yield "%s::promoted[%d]" % (b["path"], n), p


def callee_desc(term):
    """(kind, desc) for a call terminator: ('item', resolved-or-declared dict) | ('ptr', f) | ('other', f)."""
    f = term["f"]
    if f["k"] == "item":
        return "item", (f["resolved"] or f["declared"]), f
    return f["k"], f, f


def walk_json(x, fn):
    if isinstance(x, dict):
        fn(x)
        for v in x.values():
            walk_json(v, fn)
    elif isinstance(x, list):
        for v in x:
            walk_json(v, fn)
