"""E-SCALE: time-scale qualifier inference (unification based, field sensitive, summaries per call site).

tz-rs handles two second-counting scales that have the same Rust type (i64): UTC Unix time ("U") and the
leap-second-counting Unix time in which transition tables and leap-second records are written ("L").  They are
related by L = U + correction(U); with an empty leap-second table the two coincide numerically, which is why a
value on the wrong scale passes every test that uses a zone without leap seconds.

The analysis is the classical qualifier inference with equality constraints (CQual / Steensgaard style):

  * every i64-carrying storage location reachable from a MIR local (through fields, tuple components, enum
    payloads, dereferences, elements, closure captures, generic arguments of foreign containers) is a node of
    a union-find structure whose nodes have lazily created children; unifying two nodes unifies their
    children with equal keys;
  * assignments, reference creation, aggregate construction, comparisons and `time +- delta` arithmetic
    generate unifications (a *delta* is a value all of whose definitions are constants, widened narrower
    integers or arithmetic on such; adding or subtracting a delta keeps the scale);
  * scalar locals that are never borrowed are split into def-use webs first, so `let mut t = u; t = conv(t)?`
    does not merge the two scales;
  * crate functions are summarised bottom-up over the (acyclic) call graph and the summary is instantiated
    at every call site (context sensitive: a helper used for both scales does not merge them); closures live in
    the universe of the function that creates them;
  * calls out of the crate are linked by type structure: a component type that occurs both in an argument
    and in the result (or in a parameter of a closure argument) denotes the same storage (`iter`, `zip`,
    `next`, `Try::branch`, `Option`/`Result` combinators, ...), pairwise in order when the counts agree;
  * seeds: a table of (type, field) and (function, parameter) scale assignments plus the two conversion
    functions, which are *discovered* as the functions that add (U -> L) or subtract (L -> U) a
    leap-second correction; their bodies are the trusted arithmetic, their interfaces are seeded.

A class that contains both a U seed and an L seed is a scale conflict: some value flows from one scale to the
other, or is compared with it, without passing through a conversion.  The report gives the chain of
unifications (function, file:line, reason) from the U seed to the L seed.
"""
from collections import deque

CMP_OPS = {"Eq", "Ne", "Lt", "Le", "Gt", "Ge", "Cmp"}
ADD_OPS = {"Add", "AddWithOverflow", "AddUnchecked", "Sub", "SubWithOverflow", "SubUnchecked"}
ARITH_CALLS = {
    "checked_add": ("add", "opt"), "checked_sub": ("sub", "opt"), "saturating_add": ("add", "val"), "saturating_sub": ("sub", "val"),
    "wrapping_add": ("add", "val"), "wrapping_sub": ("sub", "val"), "overflowing_add": ("add", "pair"), "overflowing_sub": ("sub", "pair"),
    "strict_add": ("add", "val"), "strict_sub": ("sub", "val"), "unchecked_add": ("add", "val"), "unchecked_sub": ("sub", "val"),
}
CMP_CALLS = {"cmp", "partial_cmp", "lt", "le", "gt", "ge", "eq", "ne", "min", "max", "clamp"}


class UF:
    def __init__(self, seed_for_key=None):
        self.parent = []
        self.kids = []  # rep -> {key: node}
        self.adj = []  # node -> [(node, why)]
        self.seeds = []  # node -> [(scale, desc, where)]
        self.attr = []  # node -> {name: value}
        self.desc = []
        self.seed_for_key = seed_for_key
        self.unions = 0

    def new(self, desc=""):
        n = len(self.parent)
        self.parent.append(n)
        self.kids.append({})
        self.adj.append([])
        self.seeds.append([])
        self.attr.append({})
        self.desc.append(desc)
        return n

    def find(self, x):
        p = self.parent
        while p[x] != x:
            p[x] = p[p[x]]
            x = p[x]
        return x

    def child(self, x, key):
        r = self.find(x)
        k = self.kids[r]
        if key not in k:
            c = self.new("%s.%s" % (self.desc[x], key_s(key)))
            k[key] = c
            if self.seed_for_key is not None:
                s = self.seed_for_key(key)
                if s is not None:
                    self.seeds[c].append(s)
        return k[key]

    def seed(self, x, scale, desc, where):
        self.seeds[x].append((scale, desc, where))

    def union(self, a, b, why):
        work = [(a, b, why)]
        while work:
            a, b, why = work.pop()
            ra, rb = self.find(a), self.find(b)
            if ra == rb:
                continue
            self.unions += 1
            self.adj[a].append((b, why))
            self.adj[b].append((a, why))
            if len(self.kids[ra]) < len(self.kids[rb]):
                ra, rb = rb, ra
            self.parent[rb] = ra
            for k, v in self.attr[rb].items():
                self.attr[ra].setdefault(k, v)
            kb = self.kids[rb]
            self.kids[rb] = {}
            ka = self.kids[ra]
            for key, c in kb.items():
                if key in ka:
                    work.append((ka[key], c, why))
                else:
                    ka[key] = c

    def classes_with_seeds(self):
        out = {}
        for n, ss in enumerate(self.seeds):
            if ss:
                out.setdefault(self.find(n), []).extend((n, s) for s in ss)
        return out

    def path(self, src, dst):
        """Shortest chain of unifications between two nodes of one class."""
        prev = {src: None}
        q = deque([src])
        while q:
            x = q.popleft()
            if x == dst:
                break
            for y, why in self.adj[x]:
                if y not in prev:
                    prev[y] = (x, why)
                    q.append(y)
        if dst not in prev:
            return []
        out = []
        x = dst
        while prev[x] is not None:
            x, why = prev[x][0], prev[x][1]
            out.append(why)
        return list(reversed(out))


def key_s(key):
    if isinstance(key, tuple):
        if key[0] == "f":
            return "%s#%s" % (key[1].rsplit("::", 1)[-1], key[3])
        return "%s%s" % (key[0], key[1])
    return str(key)


class Seeds:
    """field_seeds: {(adt path, field index): (scale, desc)}; param_seeds: {instance name: {param index (0-based): scale}};
    correction: (adt path, field index) of the leap-second correction."""

    def __init__(self, field_seeds, param_seeds, correction, correction_getter=None, offset=None, offset_getter=None):
        self.field_seeds = field_seeds
        self.param_seeds = param_seeds
        self.correction = correction
        self.correction_getter = correction_getter
        self.offset = offset  # (adt path, field index) of the UTC offset of a local time type: civil = UTC + offset
        self.offset_getter = offset_getter


class Analysis:
    def __init__(self, f, seeds):
        self.f = f
        self.T = f.types
        self.S = seeds
        self.insts = {i["id"]: i for i in f.instances}
        self.findings = []
        self.stats = {"instances": 0, "groups": 0, "unions": 0, "call_sites_local": 0, "call_sites_extern": 0, "extern_links": 0, "conversion_calls": 0,
                      "field_seed_nodes": {"U": 0, "L": 0}, "compares": 0, "classes_seeded": 0, "classes_U": 0, "classes_L": 0}
        self.conversions = {}  # inst id -> {"dir": "U->L"|"L->U", "param": k, "name":..}
        self.conv_problems = []
        self.groups = {}  # top inst id -> group
        self.summaries = {}
        self.l_compares = []
        self.conv_sites = []
        self._contains_memo = {}
        self.closures_by_key = {}
        for i in f.instances:
            if i.get("closure"):
                self.closures_by_key.setdefault(i["key"], []).append(i)

    # ------------------------------------------------------------------ types
    def ty(self, tid):
        return self.T[tid]

    def is_time_int(self, tid):
        t = self.T[tid]
        return t["k"] == "int" and t["bits"] == 64 and t["signed"] and not t.get("ptr_sized")

    def interesting(self, tid, depth=0):
        """Does the type contain an i64 or a crate ADT (that may contain one)?"""
        if tid in self._contains_memo:
            return self._contains_memo[tid]
        if depth > 10:
            return False
        self._contains_memo[tid] = False
        t = self.T[tid]
        k = t["k"]
        r = False
        if k == "int":
            r = self.is_time_int(tid)
        elif k in ("ref", "ptr"):
            r = self.interesting(t["to"], depth + 1)
        elif k in ("slice", "array"):
            r = self.interesting(t["elem"], depth + 1)
        elif k == "tuple":
            r = any(self.interesting(e, depth + 1) for e in t["elems"])
        elif k == "adt":
            if t.get("local"):
                r = any(self.interesting(fl["ty"], depth + 1) for v in t.get("variants", []) for fl in v["fields"])
            else:
                r = any(self.interesting(a["t"], depth + 1) for a in t["args"] if isinstance(a, dict) and "t" in a)
        elif k == "closure":
            r = any(self.interesting(i["body"]["locals"][0]["ty"], depth + 1) for i in self.closures_by_key.get(t.get("key"), []))
        self._contains_memo[tid] = r
        return r

    def field_key(self, cur, variant, idx, fty):
        t = self.T[cur]
        k = t["k"]
        if k == "tuple":
            return ("t", idx)
        if k == "closure":
            return ("up", idx)
        if k == "adt":
            if t.get("local"):
                return ("f", t["path"], None if t.get("adt_kind") == "struct" else variant, idx)
            for n, a in enumerate(t["args"]):
                if isinstance(a, dict) and a.get("t") == fty:
                    return ("targ", n)
            return ("xf", t["path"], variant, idx)
        return ("f?", idx)

    def deref_ty(self, cur):
        t = self.T[cur]
        if t["k"] in ("ref", "ptr"):
            return t["to"]
        if t["k"] == "adt":  # Box<T>
            for a in t["args"]:
                if isinstance(a, dict) and "t" in a:
                    return a["t"]
        return cur

    # ------------------------------------------------------------------ groups
    def build_groups(self):
        """group = a non-closure instance plus the closure instances created (transitively) inside it."""
        creator = {}
        for i in self.f.instances:
            for b in i["body"]["blocks"]:
                for st in b["stmts"]:
                    if st["k"] == "assign" and st["rv"]["k"] == "aggregate" and st["rv"].get("ak") == "closure" and st["rv"].get("inst") is not None:
                        creator.setdefault(st["rv"]["inst"], i["id"])
        top = {}

        def top_of(x, d=0):
            if x in top:
                return top[x]
            i = self.insts[x]
            if not i.get("closure") or x not in creator or d > 8:
                top[x] = x
            else:
                top[x] = top_of(creator[x], d + 1)
            return top[x]

        members = {}
        for i in self.f.instances:
            members.setdefault(top_of(i["id"]), []).append(i["id"])
        self.top = top
        self.members = members

    def local_callees(self, inst):
        out = []
        for b in inst["body"]["blocks"]:
            t = b["term"]
            if t["k"] == "call" and t["f"]["k"] == "item":
                r = t["f"]["resolved"] or t["f"]["declared"]
                if r.get("local") and r.get("inst") is not None:
                    out.append(r["inst"])
        return out

    def order(self):
        """Groups in callee-before-caller order."""
        deps = {}
        for g, ms in self.members.items():
            d = set()
            for m in ms:
                for c in self.local_callees(self.insts[m]):
                    tg = self.top[c]
                    if tg != g:
                        d.add(tg)
            deps[g] = d
        seen, out = {}, []

        def visit(g):
            st = [(g, iter(sorted(deps[g])))]
            seen[g] = 1
            while st:
                x, it = st[-1]
                for y in it:
                    if y not in seen:
                        seen[y] = 1
                        st.append((y, iter(sorted(deps[y]))))
                        break
                else:
                    st.pop()
                    out.append(x)

        for g in sorted(deps):
            if g not in seen:
                visit(g)
        return out

    # ------------------------------------------------------------------ crate helpers that are one addition / subtraction
    def find_arith_helpers(self):
        """Crate functions (i64, i64) -> i64 | Option<i64> | Result<i64, _> whose only arithmetic is one addition or
        subtraction of their two parameters (`fn shifted(t, d) -> Result<i64, E> { t.checked_add(d).ok_or(..) }`):
        treated like the std operation they wrap."""
        self.arith = {}
        for inst in self.f.instances:
            body = inst["body"]
            if inst.get("closure") or body["arg_count"] != 2 or not all(self.is_time_int(body["locals"][k + 1]["ty"]) for k in range(2)):
                continue
            rt = self.T[body["locals"][0]["ty"]]
            if self.is_time_int(body["locals"][0]["ty"]):
                shape = "val"
            elif rt["k"] == "adt" and not rt.get("local") and rt["args"] and isinstance(rt["args"][0], dict) and "t" in rt["args"][0] and self.is_time_int(rt["args"][0]["t"]):
                shape = "opt"
            else:
                continue
            param_of = {1: 0, 2: 1}
            changed = True
            while changed:
                changed = False
                for b in body["blocks"]:
                    for st in b["stmts"]:
                        if st["k"] == "assign" and not st["place"]["p"] and st["rv"]["k"] == "use":
                            pl = st["rv"]["op"].get("c") or st["rv"]["op"].get("m")
                            if pl is not None and not pl["p"] and pl["l"] in param_of and st["place"]["l"] not in param_of:
                                param_of[st["place"]["l"]] = param_of[pl["l"]]
                                changed = True
            ops = []
            other = 0

            def pidx(op):
                pl = op.get("c") or op.get("m")
                return param_of.get(pl["l"]) if pl is not None and not pl["p"] else None

            for b in body["blocks"]:
                for st in b["stmts"]:
                    if st["k"] == "assign" and st["rv"]["k"] == "binop":
                        if st["rv"]["op"] in ADD_OPS:
                            ops.append(("add" if st["rv"]["op"].startswith("Add") else "sub", pidx(st["rv"]["a"]), pidx(st["rv"]["b"])))
                        elif st["rv"]["op"] not in CMP_OPS:
                            other += 1
                t = b["term"]
                if t["k"] == "call" and t["f"]["k"] == "item":
                    r = t["f"]["resolved"] or t["f"]["declared"]
                    name = r["def"].rsplit("::", 1)[-1]
                    if not r.get("local") and name in ARITH_CALLS and "core::num" in r["def"] and len(t["args"]) == 2:
                        ops.append((ARITH_CALLS[name][0], pidx(t["args"][0]), pidx(t["args"][1])))
                    elif r.get("local"):
                        other += 1
            if len(ops) == 1 and other == 0 and sorted(x for x in ops[0][1:] if x is not None) == [0, 1]:
                self.arith[inst["id"]] = {"kind": ops[0][0], "a": ops[0][1], "b": ops[0][2], "shape": shape, "name": inst["name"]}

    # ------------------------------------------------------------------ conversions
    def find_conversions(self):
        corr = self.S.correction
        for inst in self.f.instances:
            body = inst["body"]
            kder = self.derived_locals(inst, corr, self.S.correction_getter)
            if not kder:
                continue

            def isk(op):
                pl = op.get("c") or op.get("m")
                return kder.get(pl["l"], 0) if pl is not None and not pl["p"] else 0

            def direction(kind, a, c):
                """U->L when the correction is (in effect) added to the other operand, L->U when subtracted."""
                ka, kc = isk(a), isk(c)
                if (ka and kc) or not (ka or kc):
                    return None
                if kind == "add":
                    sg = ka or kc
                elif kc:
                    sg = -kc
                else:
                    return None  # correction - time: not a conversion
                return "U->L" if sg > 0 else "L->U"

            dirs = set()
            for b in body["blocks"]:
                for st in b["stmts"]:
                    if st["k"] == "assign" and st["rv"]["k"] == "binop" and st["rv"]["op"] in ADD_OPS:
                        d_ = direction("add" if st["rv"]["op"].startswith("Add") else "sub", st["rv"]["a"], st["rv"]["b"])
                        if d_:
                            dirs.add(d_)
                t = b["term"]
                if t["k"] == "call" and t["f"]["k"] == "item":
                    r = t["f"]["resolved"] or t["f"]["declared"]
                    name = r["def"].rsplit("::", 1)[-1]
                    ah = self.arith.get(r.get("inst")) if r.get("local") else None
                    if ((not r.get("local") and name in ARITH_CALLS and "core::num" in r["def"]) or ah is not None) and len(t["args"]) == 2:
                        a, c = t["args"]
                        if ah is not None and ah["a"] == 1:
                            a, c = c, a  # the helper computes param2 (op) param1
                        d_ = direction(ARITH_CALLS[name][0] if ah is None else ah["kind"], a, c)
                        if d_:
                            dirs.add(d_)
            if not dirs:
                continue
            # interface: exactly one i64 parameter; result i64 or Result/Option<i64>
            params = [k for k in range(body["arg_count"]) if self.is_time_int(body["locals"][k + 1]["ty"])]
            if len(dirs) != 1 or len(params) != 1 or inst.get("closure"):
                self.conv_problems.append("%s applies a leap-second correction (%s) but is not a plain conversion function with one i64 parameter" % (inst["name"], ", ".join(sorted(dirs))))
                self.conversions[inst["id"]] = {"dir": None, "name": inst["name"]}
                continue
            self.conversions[inst["id"]] = {"dir": dirs.pop(), "param": params[0], "name": inst["name"], "span": inst.get("span")}

    def derived_locals(self, inst, field, getter):
        """{local: sign} for locals that hold (a copy, an integer conversion or the negation of) the given field /
        the result of its public getter."""
        body = inst["body"]
        der = {}
        if field is None:
            return der
        changed = True
        while changed:
            changed = False
            for b in body["blocks"]:
                for st in b["stmts"]:
                    if st["k"] != "assign" or st["place"]["p"]:
                        continue
                    rv = st["rv"]
                    src = None
                    sign = 1
                    if rv["k"] == "use":
                        src = rv["op"].get("c") or rv["op"].get("m")
                    elif rv["k"] == "copy_for_deref":
                        src = rv.get("place")
                    elif rv["k"] == "cast" and rv.get("ck") == "IntToInt":
                        src = rv["op"].get("c") or rv["op"].get("m")
                    elif rv["k"] == "unop" and rv.get("op") == "Neg":
                        src = rv["a"].get("c") or rv["a"].get("m")
                        sign = -1
                    if src is None:
                        continue
                    if not src["p"] and src["l"] in der:
                        sg = der[src["l"]] * sign
                    elif self.place_hits_field(body, src, field):
                        sg = sign
                    else:
                        continue
                    if st["place"]["l"] not in der:
                        der[st["place"]["l"]] = sg
                        changed = True
                t = b["term"]
                if t["k"] == "call" and t["f"]["k"] == "item" and not t["dest"]["p"]:
                    r = t["f"]["resolved"] or t["f"]["declared"]
                    if r.get("local") and r.get("inst") is not None and self.insts[r["inst"]]["name"] == getter and t["dest"]["l"] not in der:
                        der[t["dest"]["l"]] = 1
                        changed = True
                    elif not r.get("local") and "core::num" in r["def"] and r["def"].rsplit("::", 1)[-1] in ("wrapping_neg", "saturating_neg") and t["args"] and t["dest"]["l"] not in der:
                        pl = t["args"][0].get("c") or t["args"][0].get("m")
                        if pl is not None and not pl["p"] and pl["l"] in der:
                            der[t["dest"]["l"]] = -der[pl["l"]]
                            changed = True
        return der

    def place_hits_field(self, body, pl, target):
        if target is None:
            return False
        cur = body["locals"][pl["l"]]["ty"]
        variant = None
        for p in pl["p"]:
            if p == "deref":
                cur = self.deref_ty(cur)
            elif isinstance(p, dict) and "f" in p:
                t = self.T[cur]
                if t["k"] == "adt" and t.get("local") and (t["path"], p["f"]) == target:
                    return True
                cur = p["ty"]
            elif isinstance(p, dict) and "dc" in p:
                variant = p["dc"]
            elif isinstance(p, dict) and ("idx" in p or "ci" in p):
                t = self.T[cur]
                cur = t.get("elem", cur)
        return False

    # ------------------------------------------------------------------ per group analysis
    def run(self):
        self.build_groups()
        self.find_arith_helpers()
        self.find_conversions()
        for g in self.order():
            if g in self.conversions:
                continue  # trusted arithmetic; interface seeded at call sites
            self.analyse_group(g)
        return self

    def seed_for_key(self, key):
        if isinstance(key, tuple) and key[0] == "f":
            s = self.S.field_seeds.get((key[1], key[3]))
            if s is not None:
                self.stats["field_seed_nodes"][s[0]] += 1
                return (s[0], s[1], None)
        return None

    def analyse_group(self, g):
        uf = UF(self.seed_for_key)
        G = {"uf": uf, "roots": {}, "webs": {}, "top": g}
        self.groups[g] = G
        self.stats["groups"] += 1
        deferred = []
        for m in self.members[g]:
            inst = self.insts[m]
            self.stats["instances"] += 1
            self.prepare_webs(G, inst)
            self.delta_locals(G, inst)
        for m in self.members[g]:
            self.gen(G, self.insts[m], deferred)
        for d in deferred:
            self.extern_call(G, *d)
        # parameter seeds of this very function (public entry points)
        inst = self.insts[g]
        ps = self.S.param_seeds.get(inst["name"])
        if ps:
            for k, sc in ps.items():
                if k < inst["body"]["arg_count"]:
                    uf.seed(self.entry_node(G, inst, k + 1), sc, "parameter %d of %s (public API: a UTC Unix time)" % (k + 1, inst["name"]), inst.get("span"))
        self.resolve_multi_uses(G)
        self.stats["unions"] += uf.unions
        self.check_group(G)
        self.summaries[g] = G

    # --- webs: split never-borrowed integer locals by reaching definitions
    def prepare_webs(self, G, inst):
        body = inst["body"]
        blocks = body["blocks"]
        nloc = len(body["locals"])
        cand = set(l for l in range(1, nloc) if self.T[body["locals"][l]["ty"]]["k"] == "int")
        # borrowed or partially assigned locals are not split
        for b in blocks:
            for st in b["stmts"]:
                if st["k"] == "assign":
                    rv = st["rv"]
                    if rv["k"] in ("ref", "rawptr") and not [p for p in rv["place"]["p"]]:
                        cand.discard(rv["place"]["l"])
                    if st["place"]["p"]:
                        cand.discard(st["place"]["l"])
        if not cand:
            G["webs"][inst["id"]] = ({}, {})
            return
        # definitions: (block, index) ; index = len(stmts) for the terminator ; entry defs for arguments = (-1, l)
        defs_at = {}  # (bi, si) -> local
        for bi, b in enumerate(blocks):
            for si, st in enumerate(b["stmts"]):
                if st["k"] == "assign" and not st["place"]["p"] and st["place"]["l"] in cand:
                    defs_at[(bi, si)] = st["place"]["l"]
            t = b["term"]
            if t["k"] == "call" and not t["dest"]["p"] and t["dest"]["l"] in cand:
                defs_at[(bi, len(b["stmts"]))] = t["dest"]["l"]
        succ = {}
        for bi, b in enumerate(blocks):
            t = b["term"]
            k = t["k"]
            if k == "goto":
                s = [t["t"]]
            elif k == "switch":
                s = [c[1] for c in t["cases"]] + [t["otherwise"]]
            elif k in ("call", "assert", "drop"):
                s = [t["t"]] if t.get("t") is not None else []
            else:
                s = []
            succ[bi] = s
        # reaching definitions per local: IN[b][l] = set of def ids
        gen = {}
        for bi, b in enumerate(blocks):
            last = {}
            for si in range(len(b["stmts"]) + 1):
                if (bi, si) in defs_at:
                    last[defs_at[(bi, si)]] = (bi, si)
            gen[bi] = last
        IN = {bi: {} for bi in range(len(blocks))}
        IN[0] = {l: {(-1, l)} for l in cand}
        work = deque([0])
        inq = {0}
        while work:
            bi = work.popleft()
            inq.discard(bi)
            out = dict(IN[bi])
            for l, d in gen[bi].items():
                out[l] = {d}
            for s in succ[bi]:
                ch = False
                tgt = IN[s]
                for l, ds in out.items():
                    cur = tgt.get(l)
                    if cur is None:
                        tgt[l] = set(ds)
                        ch = True
                    elif not ds <= cur:
                        cur |= ds
                        ch = True
                if ch and s not in inq:
                    inq.add(s)
                    work.append(s)
        use_web = {}  # (bi, si, l) -> sorted list of reaching definitions

        def uses_in(x, acc):
            if isinstance(x, dict):
                if "l" in x and "p" in x and isinstance(x["p"], list):
                    acc.append(x["l"])
                    for p in x["p"]:
                        if isinstance(p, dict) and "idx" in p:
                            acc.append(p["idx"])
                    return
                for k2, v in x.items():
                    uses_in(v, acc)
            elif isinstance(x, list):
                for v in x:
                    uses_in(v, acc)

        for bi, b in enumerate(blocks):
            cur = {l: set(ds) for l, ds in IN[bi].items()}
            items = list(b["stmts"]) + [b["term"]]
            for si, it in enumerate(items):
                acc = []
                if it.get("k") == "assign":
                    uses_in(it["rv"], acc)
                    for p in it["place"]["p"]:
                        if isinstance(p, dict) and "idx" in p:
                            acc.append(p["idx"])
                elif it.get("k") in ("live", "dead", "nop"):
                    pass
                else:
                    for k2, v in it.items():
                        if k2 != "dest":
                            uses_in(v, acc)
                for l in acc:
                    if l in cand:
                        use_web[(bi, si, l)] = sorted(cur.get(l) or {(-1, l)})
                if (bi, si) in defs_at:
                    cur[defs_at[(bi, si)]] = {(bi, si)}
        G["webs"][inst["id"]] = (use_web, {"defs_at": defs_at, "cand": cand})

    def delta_locals(self, G, inst):
        body = inst["body"]
        defs = {}
        for b in body["blocks"]:
            for st in b["stmts"]:
                if st["k"] == "assign" and not st["place"]["p"]:
                    defs.setdefault(st["place"]["l"], []).append(st["rv"])
                elif st["k"] == "assign":
                    defs.setdefault(st["place"]["l"], []).append(None)
            t = b["term"]
            if t["k"] == "call":
                if not t["dest"]["p"]:
                    defs.setdefault(t["dest"]["l"], []).append(("call", t))
                else:
                    defs.setdefault(t["dest"]["l"], []).append(None)
        delta = set()

        def op_delta(op):
            if "k" in op and isinstance(op["k"], dict):
                return True
            pl = op.get("c") or op.get("m")
            if pl is None:
                return True
            if not pl["p"]:
                return pl["l"] in delta
            if len(pl["p"]) == 1 and isinstance(pl["p"][0], dict) and pl["p"][0].get("f") == 0:
                return ("pair", pl["l"]) in delta
            return False

        changed = True
        while changed:
            changed = False
            for l, rvs in defs.items():
                if l in delta and ("pair", l) in delta:
                    continue
                if l <= body["arg_count"] and l != 0:
                    continue
                ok = True
                pair_ok = True
                for rv in rvs:
                    if rv is None:
                        ok = pair_ok = False
                        break
                    if isinstance(rv, tuple):
                        ok = pair_ok = False
                        break
                    k = rv["k"]
                    if k == "use":
                        if not op_delta(rv["op"]):
                            ok = False
                        pair_ok = False
                    elif k == "cast":
                        if rv.get("ck") == "IntToInt":
                            ft = self.T[rv["from"]]
                            if ft["k"] == "int" and ft["bits"] < 64:
                                pass
                            elif not op_delta(rv["op"]):
                                ok = False
                        else:
                            ok = False
                        pair_ok = False
                    elif k == "binop":
                        both = op_delta(rv["a"]) and op_delta(rv["b"])
                        if rv["op"].endswith("WithOverflow"):
                            ok = False
                            if not both:
                                pair_ok = False
                        else:
                            pair_ok = False
                            if rv["op"] in CMP_OPS:
                                ok = False
                            elif not both:
                                ok = False
                    elif k == "unop":
                        pair_ok = False
                        if not op_delta(rv["a"]):
                            ok = False
                    else:
                        ok = pair_ok = False
                if ok and l not in delta:
                    delta.add(l)
                    changed = True
                if pair_ok and ("pair", l) not in delta:
                    delta.add(("pair", l))
                    changed = True
        G.setdefault("delta", {})[inst["id"]] = delta

    # --- nodes
    def local_node(self, G, inst, l, at=None):
        """Node of a local; `at` = (bi, si, 'use'|'def') selects the definition of a split local.  A use reached by
        several definitions gets a node of its own; which definitions it is joined with is decided in
        resolve_multi_uses (a variable reused for two scales is joined only with the definitions that fit)."""
        use_web, info = G["webs"][inst["id"]]
        ver = 0
        if info and l in info["cand"]:
            if at is None:
                ver = (-1, l)
            elif at[2] == "def":
                ver = (at[0], at[1])
            else:
                ds = use_web.get((at[0], at[1], l)) or [(-1, l)]
                if len(ds) == 1:
                    ver = ds[0]
                else:
                    ver = ("use", at[0], at[1])
                    key = (inst["id"], l, ver)
                    if key not in G["roots"]:
                        name = inst["body"]["locals"][l].get("name") or "_%d" % l
                        n = G["uf"].new("%s" % name)
                        G["roots"][key] = n
                        span = None
                        blk = inst["body"]["blocks"][at[0]]
                        it = (blk["stmts"] + [blk["term"]])[at[1]]
                        span = it.get("span")
                        G.setdefault("multi_uses", []).append((n, [self.local_node(G, inst, l, (d[0], d[1], "def")) if d[0] != -1 else self.local_node(G, inst, l, None) for d in ds], inst, span, name))
                    return G["roots"][key]
        key = (inst["id"], l, ver)
        n = G["roots"].get(key)
        if n is None:
            name = inst["body"]["locals"][l].get("name") or "_%d" % l
            n = G["uf"].new("%s" % name)
            G["roots"][key] = n
        return n

    def scales_of(self, uf, cache, n):
        return cache.get(uf.find(n), frozenset())

    def resolve_multi_uses(self, G):
        uf = G["uf"]
        mus = G.get("multi_uses", [])
        if not mus:
            return
        for sweep in (0, 1, 2):
            cache = {}
            for n, ss in enumerate(uf.seeds):
                if ss:
                    r = uf.find(n)
                    cache[r] = cache.get(r, frozenset()) | frozenset(s[0] for s in ss)
            rest = []
            for use, defs, inst, span, name in mus:
                dsc = [self.scales_of(uf, cache, d) for d in defs]
                allsc = frozenset().union(*dsc) if dsc else frozenset()
                why = self.why(inst, span, "use of `%s` reached by %d definitions" % (name, len(defs)))
                if len(allsc) <= 1:
                    for d in defs:
                        uf.union(use, d, why)
                    continue
                if sweep == 0:
                    rest.append((use, defs, inst, span, name))
                    continue
                su = self.scales_of(uf, cache, use)
                fit = [d for d, sc in zip(defs, dsc) if not sc or (sc & su)]
                if not su:
                    rest.append((use, defs, inst, span, name))
                    if sweep < 2:
                        continue
                    fit = [d for d, sc in zip(defs, dsc) if not sc]
                    self.stats["reused_variables"] = self.stats.get("reused_variables", 0) + 1
                elif not [d for d, sc in zip(defs, dsc) if sc & su]:
                    fit = defs  # no definition on the scale this use needs: a genuine conflict
                else:
                    self.stats["reused_variables"] = self.stats.get("reused_variables", 0) + 1
                for d in fit:
                    uf.union(use, d, why + (" (variable reused for several scales: joined with the fitting definitions only)" if len(fit) < len(defs) else ""))
            mus = rest
            if not mus:
                break

    def entry_node(self, G, inst, l):
        return self.local_node(G, inst, l, None)

    def place_node(self, G, inst, pl, at):
        uf = G["uf"]
        body = inst["body"]
        n = self.local_node(G, inst, pl["l"], at)
        cur = body["locals"][pl["l"]]["ty"]
        variant = None
        for p in pl["p"]:
            if p == "deref":
                n = uf.child(n, "*")
                cur = self.deref_ty(cur)
            elif isinstance(p, dict) and "f" in p:
                key = self.field_key(cur, variant, p["f"], p.get("ty"))
                n = uf.child(n, key)
                cur = p.get("ty", cur)
                variant = None
            elif isinstance(p, dict) and "dc" in p:
                variant = p["dc"]
            elif isinstance(p, dict) and ("idx" in p or "ci" in p):
                n = uf.child(n, "elem")
                cur = self.T[cur].get("elem", cur)
            elif isinstance(p, dict) and "sub" in p:
                pass
        return n, cur

    def op_node(self, G, inst, op, at):
        pl = op.get("c") or op.get("m")
        if pl is None:
            return None, None
        return self.place_node(G, inst, pl, at)

    def why(self, inst, span, text):
        return "%s [%s] %s" % (inst["name"], span or inst.get("span") or "?", text)

    # --- constraint generation
    def gen(self, G, inst, deferred):
        uf = G["uf"]
        body = inst["body"]
        delta = G["delta"][inst["id"]]
        oder = self.derived_locals(inst, self.S.offset, self.S.offset_getter)

        def is_off(op):
            pl = op.get("c") or op.get("m")
            return oder.get(pl["l"], 0) if pl is not None and not pl["p"] else 0

        def offset_shift(kind, ops, nodes, res, span):
            """`time + offset` / `time - offset`: civil = UTC + offset. Returns True when the operation was one."""
            offs = [is_off(o) for o in ops]
            if len([x for x in offs if x]) != 1:
                return False
            k = 0 if offs[0] else 1
            other, on = ops[1 - k], nodes[1 - k]
            if is_delta(other) or on is None:
                return True  # offset arithmetic among deltas: no scale involved
            if kind == "sub" and k == 0:
                return True  # offset - time: not a scale shift
            if offs[k] < 0:
                kind = "sub" if kind == "add" else "add"  # time + (-offset) = time - offset
                k = 1
            if kind == "add":
                uf.seed(on, "U", "the time operand of `time + UTC offset` (civil = UTC + offset)", span)
                uf.seed(res, "C", "the result of `time + UTC offset` (a civil / local clock reading)", span)
                self.stats["offset_shifts"] = self.stats.get("offset_shifts", 0) + 1
            elif kind == "sub" and k == 1:
                uf.seed(on, "C", "the time operand of `time - UTC offset` (UTC = civil - offset)", span)
                uf.seed(res, "U", "the result of `time - UTC offset` (a UTC instant)", span)
                self.stats["offset_shifts"] = self.stats.get("offset_shifts", 0) + 1
            return True

        G.setdefault("offset_shift", {})[inst["id"]] = offset_shift
        G.setdefault("is_delta", {})[inst["id"]] = lambda op: is_delta(op)

        def is_delta(op):
            if "k" in op and isinstance(op["k"], dict):
                return True
            pl = op.get("c") or op.get("m")
            if pl is None:
                return True
            if not pl["p"]:
                return pl["l"] in delta
            if len(pl["p"]) == 1 and isinstance(pl["p"][0], dict) and pl["p"][0].get("f") == 0 and ("pair", pl["l"]) in delta:
                return True
            return False

        for bi, b in enumerate(body["blocks"]):
            if b.get("cleanup"):
                continue
            for si, st in enumerate(b["stmts"]):
                if st["k"] != "assign":
                    continue
                rv = st["rv"]
                k = rv["k"]
                span = st.get("span")
                dst, dty = self.place_node(G, inst, st["place"], (bi, si, "def"))
                at = (bi, si, "use")
                if k in ("use", "copy_for_deref"):
                    if k == "use":
                        s, _ = self.op_node(G, inst, rv["op"], at)
                    else:
                        s, _ = self.place_node(G, inst, rv["place"], at)
                    if s is not None and self.interesting(dty):
                        uf.union(dst, s, self.why(inst, span, "assignment"))
                elif k in ("ref", "rawptr"):
                    s, sty = self.place_node(G, inst, rv["place"], at)
                    if self.interesting(sty):
                        uf.union(uf.child(dst, "*"), s, self.why(inst, span, "reference"))
                elif k == "cast":
                    ck = rv.get("ck", "")
                    if ck != "IntToInt" and ck != "FloatToInt" and ck != "IntToFloat":
                        s, sty = self.op_node(G, inst, rv["op"], at)
                        if s is not None and self.interesting(dty):
                            # pointer coercions (&[T; N] -> &[T]) keep the storage
                            uf.union(dst, s, self.why(inst, span, "coercion"))
                elif k == "binop":
                    op = rv["op"]
                    if op in CMP_OPS:
                        a, aty = self.op_node(G, inst, rv["a"], at)
                        c, cty = self.op_node(G, inst, rv["b"], at)
                        if a is not None and c is not None and aty is not None and self.is_time_int(aty):
                            uf.union(a, c, self.why(inst, span, "comparison (%s)" % op))
                            self.stats["compares"] += 1
                            G.setdefault("cmp_nodes", []).append((a, inst, span))
                    elif op in ADD_OPS and isinstance(rv.get("ty"), int) and self.is_time_int(rv["ty"]):
                        res = uf.child(dst, ("t", 0)) if op.endswith("WithOverflow") else dst
                        nodes2 = [self.op_node(G, inst, o, at)[0] for o in (rv["a"], rv["b"])]
                        if offset_shift("add" if op.startswith("Add") else "sub", (rv["a"], rv["b"]), nodes2, res, span):
                            continue
                        for o in (rv["a"], rv["b"]):
                            if not is_delta(o):
                                s, _ = self.op_node(G, inst, o, at)
                                if s is not None:
                                    uf.union(res, s, self.why(inst, span, "arithmetic (%s) keeps the scale of its time operand" % op))
                elif k == "aggregate":
                    ak = rv.get("ak")
                    ops = rv.get("ops", [])
                    if ak == "closure" and rv.get("inst") is not None:
                        uf.attr[uf.find(dst)].setdefault("closure", rv["inst"])
                    for n, o in enumerate(ops):
                        s, sty = self.op_node(G, inst, o, at)
                        if s is None or not self.interesting(sty):
                            continue
                        if ak == "array":
                            key = "elem"
                        elif ak == "tuple":
                            key = ("t", n)
                        elif ak == "closure":
                            key = ("up", n)
                        elif ak == "adt":
                            key = self.field_key(dty, rv.get("variant"), n, sty)
                        else:
                            continue
                        uf.union(uf.child(dst, key), s, self.why(inst, span, "stored into %s" % (rv.get("path", ak) or ak)))
                elif k == "repeat":
                    s, sty = self.op_node(G, inst, rv["op"], at) if "op" in rv else (None, None)
                    if s is not None and self.interesting(sty):
                        uf.union(uf.child(dst, "elem"), s, self.why(inst, span, "array repeat"))
            t = b["term"]
            if t["k"] != "call":
                continue
            si = len(b["stmts"])
            at = (bi, si, "use")
            span = t.get("span")
            dst, dty = self.place_node(G, inst, t["dest"], (bi, si, "def"))
            argn = [self.op_node(G, inst, a, at) for a in t["args"]]
            if t["f"]["k"] != "item":
                continue
            r = t["f"]["resolved"] or t["f"]["declared"]
            if r.get("local") and r.get("inst") is not None:
                self.stats["call_sites_local"] += 1
                self.local_call(G, inst, t, r["inst"], argn, dst, dty, span)
            else:
                self.stats["call_sites_extern"] += 1
                deferred.append((inst, t, r, argn, dst, dty, span, is_delta))

    def local_call(self, G, inst, t, cid, argn, dst, dty, span):
        uf = G["uf"]
        callee = self.insts[cid]
        cb = callee["body"]
        if cid in self.conversions:
            cv = self.conversions[cid]
            if cv["dir"] is None:
                return
            self.stats["conversion_calls"] += 1
            src, dstscale = ("U", "L") if cv["dir"] == "U->L" else ("L", "U")
            a = argn[cv["param"]][0] if cv["param"] < len(argn) else None
            self.conv_sites.append((inst["name"], cv["dir"], span))
            if a is not None:
                uf.seed(a, src, "argument of the %s conversion %s" % (cv["dir"], cv["name"]), span)
            res = dst
            rt = self.T[dty]
            if rt["k"] == "adt" and not rt.get("local"):
                for n, x in enumerate(rt["args"]):
                    if isinstance(x, dict) and "t" in x and self.is_time_int(x["t"]):
                        res = uf.child(dst, ("targ", n))
                        break
            uf.seed(res, dstscale, "result of the %s conversion %s" % (cv["dir"], cv["name"]), span)
            return
        ah = self.arith.get(cid)
        if ah is not None and len(argn) == 2:
            res = uf.child(dst, ("targ", 0)) if ah["shape"] == "opt" else dst
            ops = list(t["args"])
            nodes = [a for a, _ in argn]
            if ah["a"] == 1:
                ops, nodes = ops[::-1], nodes[::-1]
            is_delta = G["is_delta"][inst["id"]]
            if G["offset_shift"][inst["id"]](ah["kind"], ops, nodes, res, span):
                return
            for o, a in zip(ops, nodes):
                if a is not None and not is_delta(o):
                    uf.union(res, a, self.why(inst, span, "arithmetic helper %s keeps the scale of its time operand" % callee["name"]))
            return
        # closure of this group: same universe
        if self.top[cid] == G["top"] and callee.get("closure"):
            args = list(argn)
            decl = t["f"].get("declared") or {}
            if len(args) == 2 and decl.get("def", "").startswith("core::ops::function::Fn"):
                env, tup = args
                args = [env] + [(uf.child(tup[0], ("t", n)), None) if tup[0] is not None else (None, None) for n in range(cb["arg_count"] - 1)]
            for n, (a, _) in enumerate(args[: cb["arg_count"]]):
                if a is not None and self.interesting(cb["locals"][n + 1]["ty"]):
                    uf.union(a, self.entry_node(G, callee, n + 1), self.why(inst, span, "argument %d of closure call" % (n + 1)))
            if self.interesting(cb["locals"][0]["ty"]):
                uf.union(dst, self.ret_node(G, callee), self.why(inst, span, "result of closure call"))
            return
        S = self.summaries.get(self.top[cid])
        if S is None or self.top[cid] != cid:
            return
        # instantiate the callee's interface sub-graph
        cuf = S["uf"]
        memo = {}

        def inst_node(cn, depth=0):
            r = cuf.find(cn)
            if r in S.get("conflict_reps", ()):
                return uf.new("<conflicting class of %s>" % callee["name"].rsplit("::", 1)[-1])
            if r in memo:
                return memo[r]
            n = uf.new("<%s>" % callee["name"].rsplit("::", 1)[-1])
            memo[r] = n
            for ss in S["class_seeds"].get(r, []):
                uf.seeds[n].append(ss)
            if "closure" in cuf.attr[r]:
                pass
            if depth < 12:
                for key, c in cuf.kids[r].items():
                    cn2 = inst_node(c, depth + 1)
                    mine = uf.child(n, key)
                    uf.union(mine, cn2, "inside %s" % callee["name"])
            return n

        for n in range(cb["arg_count"]):
            a = argn[n][0] if n < len(argn) else None
            if a is None or not self.interesting(cb["locals"][n + 1]["ty"]):
                continue
            uf.union(a, inst_node(self.entry_node(S, callee, n + 1)), self.why(inst, span, "argument %d of %s" % (n + 1, callee["name"])))
        if self.interesting(cb["locals"][0]["ty"]):
            uf.union(dst, inst_node(self.ret_node(S, callee)), self.why(inst, span, "result of %s" % callee["name"]))

    def ret_node(self, G, callee):
        # the return place is written in several blocks: never split
        return self.local_node(G, callee, 0, None)

    # --- calls out of the crate
    def components(self, G, tid, node, out, path_linked, depth=0):
        """Yield (canonical type, node, size) for every component type of interest under `node`."""
        if depth > 8 or not self.interesting(tid):
            return
        uf = G["uf"]
        t = self.T[tid]
        k = t["k"]
        out.append((self.f.ty_canon(tid), node, depth))
        if k in ("ref", "ptr"):
            self.components(G, t["to"], uf.child(node, "*"), out, path_linked, depth + 1)
        elif k in ("slice", "array"):
            self.components(G, t["elem"], uf.child(node, "elem"), out, path_linked, depth + 1)
        elif k == "tuple":
            for n, e in enumerate(t["elems"]):
                self.components(G, e, uf.child(node, ("t", n)), out, path_linked, depth + 1)
        elif k == "adt" and not t.get("local"):
            for n, a in enumerate(t["args"]):
                if isinstance(a, dict) and "t" in a:
                    self.components(G, a["t"], uf.child(node, ("targ", n)), out, path_linked, depth + 1)
        elif k == "closure":
            # what a stored crate closure returns is what the container (Map<I, F>, ...) yields
            cands = [i for i in self.members[G["top"]] if self.insts[i].get("closure") and self.insts[i]["key"] == t.get("key")]
            if len(cands) == 1:
                ci = self.insts[cands[0]]
                self.components(G, ci["body"]["locals"][0]["ty"], self.ret_node(G, ci), out, path_linked, depth + 1)

    def extern_call(self, G, inst, t, r, argn, dst, dty, span, is_delta):
        uf = G["uf"]
        name = r["def"].rsplit("::", 1)[-1]
        arg_tys = [t_arg_ty(self, inst, t, n) for n in range(len(t["args"]))]
        # integer arithmetic and comparisons on time values
        if "core::num" in r["def"] and name in ARITH_CALLS and len(argn) == 2 and arg_tys[0] is not None and self.is_time_int(arg_tys[0]):
            kind, shape = ARITH_CALLS[name]
            res = dst
            if shape == "opt":
                res = uf.child(dst, ("targ", 0))
            elif shape == "pair":
                res = uf.child(dst, ("t", 0))
            if G["offset_shift"][inst["id"]](kind, t["args"], [a for a, _ in argn], res, span):
                return
            for o, (a, _) in zip(t["args"], argn):
                if a is not None and not is_delta(o):
                    uf.union(res, a, self.why(inst, span, "arithmetic (%s) keeps the scale of its time operand" % name))
            return
        if name in CMP_CALLS and ("core::cmp" in r["def"] or "core::num" in r["def"]):
            nodes = []
            for (a, _), ty_ in zip(argn, arg_tys):
                if a is None or ty_ is None:
                    continue
                n, ty2 = a, ty_
                while self.T[ty2]["k"] == "ref":
                    n = uf.child(n, "*")
                    ty2 = self.T[ty2]["to"]
                nodes.append((n, ty2))
            if nodes and all(self.interesting(ty2) for _, ty2 in nodes):
                for n, ty2 in nodes[1:]:
                    if self.f.ty_canon(ty2) == self.f.ty_canon(nodes[0][1]):
                        uf.union(nodes[0][0], n, self.why(inst, span, "comparison (%s)" % name))
                        self.stats["compares"] += 1
                        G.setdefault("cmp_nodes", []).append((n, inst, span))
                if name in ("min", "max", "clamp") and self.interesting(dty):
                    uf.union(dst, nodes[0][0], self.why(inst, span, name))
            return
        # type-directed linking
        sources, sinks = [], []
        for n, ((a, _), ty_) in enumerate(zip(argn, arg_tys)):
            if a is None or ty_ is None:
                continue
            tt = self.T[ty_]
            base = tt
            while base["k"] == "ref":
                base = self.T[base["to"]]
            if base["k"] == "closure":
                # a crate closure handed to a foreign function: its parameters receive, its result returns
                node = a
                ty2 = ty_
                while self.T[ty2]["k"] == "ref":
                    node = uf.child(node, "*")
                    ty2 = self.T[ty2]["to"]
                cid = uf.attr[uf.find(node)].get("closure")
                if cid is None:
                    cands = [i for i in self.members[G["top"]] if self.insts[i].get("closure") and self.insts[i]["key"] == base.get("key")]
                    cid = cands[0] if len(cands) == 1 else None
                if cid is not None and self.top.get(cid) == G["top"]:
                    ci = self.insts[cid]
                    cb = ci["body"]
                    # bind the environment
                    envty = cb["locals"][1]["ty"] if cb["arg_count"] >= 1 else None
                    if envty is not None:
                        envn = self.entry_node(G, ci, 1)
                        if self.T[envty]["k"] == "ref":
                            envn = uf.child(envn, "*")
                        uf.union(envn, node, self.why(inst, span, "closure environment"))
                    for k in range(1, cb["arg_count"]):
                        acc = []
                        self.components(G, cb["locals"][k + 1]["ty"], self.entry_node(G, ci, k + 1), acc, None)
                        sinks.extend((c, nd, d, ("cp", n, k)) for c, nd, d in acc)
                    acc = []
                    self.components(G, cb["locals"][0]["ty"], self.ret_node(G, ci), acc, None)
                    sources.extend((c, nd, d, ("cr", n)) for c, nd, d in acc)
                continue
            acc = []
            self.components(G, ty_, a, acc, None)
            sources.extend((c, nd, d, ("a", n)) for c, nd, d in acc)
        acc = []
        self.components(G, dty, dst, acc, None)
        sinks.extend((c, nd, d, ("r",)) for c, nd, d in acc)
        if not sources or not sinks:
            return
        by_src, by_snk = {}, {}
        for c, nd, d, pos in sources:
            by_src.setdefault(c, []).append((nd, d, pos))
        for c, nd, d, pos in sinks:
            by_snk.setdefault(c, []).append((nd, d, pos))
        linked = set()

        def under_linked(nd):
            return uf.find(nd) in linked

        # larger types first (shallower = larger inside one position; order by canonical-name length as a proxy)
        for c in sorted(set(by_src) & set(by_snk), key=lambda s: -len(s)):
            ss = [x for x in by_src[c] if not under_linked(x[0])]
            kk = [x for x in by_snk[c] if not under_linked(x[0])]
            if not ss or not kk:
                continue
            why = self.why(inst, span, "through %s (component %s)" % (r["def"], c))
            if len(ss) == len(kk):
                pairs = list(zip(ss, kk))
                for (a, _, _), (b2, _, _) in pairs:
                    uf.union(a, b2, why)
                    self.stats["extern_links"] += 1
            else:
                first = ss[0][0]
                for a, _, _ in ss[1:] + kk:
                    uf.union(first, a, why)
                    self.stats["extern_links"] += 1
            # everything below a linked node is linked with it
            for x in ss + kk:
                self.mark_subtree(uf, x[0], linked)

    def mark_subtree(self, uf, n, linked, depth=0):
        r = uf.find(n)
        if r in linked or depth > 10:
            return
        linked.add(r)
        for c in list(uf.kids[r].values()):
            self.mark_subtree(uf, c, linked, depth + 1)

    # --- verdict per group
    def check_group(self, G):
        uf = G["uf"]
        cs = uf.classes_with_seeds()
        G["class_seeds"] = {}
        for r, lst in cs.items():
            scales = {s[0] for _, s in lst}
            # keep one seed per scale for instantiation at call sites (description of the first)
            keep = {}
            for n, s in lst:
                keep.setdefault(s[0], s)
            G["class_seeds"][r] = list(keep.values())
            self.stats["classes_seeded"] += 1
            if scales == {"U"}:
                self.stats["classes_U"] += 1
            elif scales == {"L"}:
                self.stats["classes_L"] += 1
            if scales == {"C"}:
                self.stats["classes_C"] = self.stats.get("classes_C", 0) + 1
            if len(scales) > 1:
                order = [x for x in ("U", "L", "C") if x in scales]
                us = [(n, s) for n, s in lst if s[0] == order[0]]
                ls = [(n, s) for n, s in lst if s[0] == order[1]]
                best = None
                for un, u in us[:6]:
                    for ln, l in ls[:6]:
                        p = uf.path(un, ln)
                        if best is None or len(p) < len(best[0]):
                            best = (p, u, l, un, ln)
                p, u, l, un, ln = best
                fns = []
                for w in p:
                    fn = w.split(" [", 1)[0]
                    if fn not in fns and not fn.startswith("inside "):
                        fns.append(fn)
                # reported here, where it arises; callers do not inherit the seeds of a conflicting class
                G["class_seeds"][r] = []
                G.setdefault("conflict_reps", set()).add(r)
                self.findings.append({
                    "group": self.insts[G["top"]]["name"],
                    "scales": order, "u_seed": "%s: %s" % (order[0], u[1]), "l_seed": "%s: %s" % (order[1], l[1]), "u_where": u[2], "l_where": l[2],
                    "u_node": uf.desc[un], "l_node": uf.desc[ln],
                    "chain": p, "functions": fns,
                })
        # comparisons entirely on the L scale (evidence that the table is consulted on its own scale)
        for n, inst, span in G.get("cmp_nodes", []):
            r = uf.find(n)
            sc = {s[0] for s in G["class_seeds"].get(r, [])}
            if sc == {"L"}:
                self.l_compares.append((inst["name"], span))


def t_arg_ty(A, inst, t, n):
    op = t["args"][n]
    if "k" in op and isinstance(op["k"], dict):
        return op["k"].get("ty")
    pl = op.get("c") or op.get("m")
    if pl is None:
        return None
    cur = inst["body"]["locals"][pl["l"]]["ty"]
    for p in pl["p"]:
        if p == "deref":
            cur = A.deref_ty(cur)
        elif isinstance(p, dict) and "f" in p:
            cur = p.get("ty", cur)
        elif isinstance(p, dict) and ("idx" in p or "ci" in p):
            cur = A.T[cur].get("elem", cur)
    return cur


def getter_field(f, name):
    """(adt path, field index) returned by a public `&self -> T` getter that is a plain field read."""
    insts = [i for i in f.instances if i["name"] == name]
    if not insts:
        return None
    inst = insts[0]
    body = inst["body"]
    found = set()
    for b in body["blocks"]:
        for st in b["stmts"]:
            if st["k"] == "assign" and st["rv"]["k"] in ("use", "ref"):
                pl = (st["rv"]["op"].get("c") or st["rv"]["op"].get("m")) if st["rv"]["k"] == "use" else st["rv"]["place"]
                if pl is not None and pl["l"] == 1:
                    fs = [p for p in pl["p"] if isinstance(p, dict) and "f" in p]
                    if fs:
                        found.add(fs[0]["f"])
    if len(found) != 1:
        return None
    t = f.types[body["locals"][1]["ty"]]
    while t["k"] == "ref":
        t = f.types[t["to"]]
    if t["k"] != "adt":
        return None
    return (t["path"], found.pop())
