"""E-EQ: cross-configuration structural equivalence of compiled bodies and type definitions (C19)."""
import json
import re

DROP_KEYS = {"span", "fn_span", "inst", "shim_inst", "key", "exp", "vi", "local", "s"}
TY_KEYS = {"ty", "to", "from", "elem", "impl_self", "shim_ty"}


def norm_name(s):
    """Remove lifetime arguments so that `Foo::<'a>::f` and `Foo::<'_>::f` compare equal."""
    s = re.sub(r"'\w+\s*,\s*", "", s)
    s = re.sub(r"::<'\w+>", "", s)
    s = re.sub(r"<'\w+>", "", s)
    s = re.sub(r"&'\w+ ", "&", s)
    s = re.sub(r"for<[^>]*> ", "", s)
    return s


def place_ty(facts, body, place):
    """Type id of a place, or None when it cannot be determined from the exported projections."""
    tid = body["locals"][place["l"]]["ty"]
    for pr in place["p"]:
        t = facts.ty(tid)
        if pr == "deref":
            if t["k"] in ("ref", "ptr"):
                tid = t["to"]
            elif t["k"] == "adt" and t.get("is_box"):
                a = [x for x in t["args"] if isinstance(x, dict) and "t" in x]
                if not a:
                    return None
                tid = a[0]["t"]
            else:
                return None
        elif isinstance(pr, dict) and "f" in pr:
            tid = pr["ty"]
        elif isinstance(pr, dict) and ("idx" in pr or "ci" in pr):
            if t["k"] in ("array", "slice"):
                tid = t["elem"]
            else:
                return None
        elif isinstance(pr, dict) and ("dc" in pr or "sub" in pr):
            pass
        else:
            return None
    return tid


class Canon:
    def __init__(self, facts, body, drop_variants=None):
        self.f = facts
        self.body = body
        self.drop = drop_variants or {}
        self.blocks = body["blocks"]
        self.local_map = {}
        self.discr_of = {}  # local -> adt path (for locals holding a discriminant of a crate enum)
        self._find_discr_locals()

    def _find_discr_locals(self):
        for b in self.blocks:
            for s in b["stmts"]:
                if s["k"] == "assign" and s["rv"]["k"] == "discr" and not s["place"]["p"]:
                    tid = place_ty(self.f, self.body, s["rv"]["place"])
                    if tid is None:
                        continue
                    t = self.f.ty(tid)
                    if t["k"] == "adt" and t["path"] in self.f.adt_by_path:
                        self.discr_of[s["place"]["l"]] = t["path"]

    def _variant_name(self, adt_path, value):
        for v in self.f.adt_by_path[adt_path]["variants"]:
            if v["discr"] == value:
                return v["name"]
        return None

    def _switch_cases(self, t):
        """[(label, target)], otherwise — with discriminant values mapped to variant names and
        arms of dropped variants removed."""
        op = t["op"]
        pl = op.get("c") or op.get("m")
        cases = []
        adt = None
        if pl is not None and not pl["p"] and pl["l"] in self.discr_of:
            adt = self.discr_of[pl["l"]]
        for val, tgt in t["cases"]:
            if adt is not None:
                name = self._variant_name(adt, val)
                if name is not None:
                    if name in self.drop.get(adt, ()):
                        continue
                    cases.append(("variant:" + name, tgt))
                    continue
            cases.append((val, tgt))
        return cases, t["otherwise"], adt

    def _collapsed_target(self, i):
        """A switch on the discriminant of a crate enum that, after dropping cfg-gated variants, has a
        single arm and an unreachable `otherwise` is the irrefutable match the smaller configuration
        compiles to: treat it as a goto."""
        t = self.blocks[i]["term"]
        if t["k"] != "switch":
            return None
        cases, other, adt = self._switch_cases(t)
        if adt is not None and adt in self.drop and len(cases) == 1 and self._is_unreachable_block(other):
            return cases[0][1]
        return None

    def _succs(self, i):
        t = self.blocks[i]["term"]
        k = t["k"]
        if k == "goto":
            return [t["t"]]
        if k == "switch":
            c = self._collapsed_target(i)
            if c is not None:
                return [c]
            cases, other, _ = self._switch_cases(t)
            return [c[1] for c in cases] + [other]
        if k in ("call", "assert", "drop"):
            return [t["t"]] if t.get("t") is not None else []
        return []

    def _is_unreachable_block(self, i):
        b = self.blocks[i]
        return b["term"]["k"] == "unreachable" and not [s for s in b["stmts"] if s["k"] not in ("live", "dead")]

    def order(self):
        seen = []
        seen_set = set()
        stack = [0]
        while stack:
            i = stack.pop()
            if i in seen_set:
                continue
            seen_set.add(i)
            seen.append(i)
            for s in reversed(self._succs(i)):
                if s not in seen_set:
                    stack.append(s)
        return seen

    def _loc(self, l):
        if l not in self.local_map:
            self.local_map[l] = len(self.local_map)
        return self.local_map[l]

    def _ty(self, tid):
        return norm_name(self.f.ty_s(tid))

    def _c(self, x, keyhint=None):
        """Canonical copy of a JSON fragment."""
        if isinstance(x, dict):
            if "l" in x and "p" in x and len(x) == 2:  # place
                return {"l": self._loc(x["l"]), "p": [self._proj(p) for p in x["p"]]}
            out = {}
            for k, v in x.items():
                if k in DROP_KEYS:
                    continue
                if k in TY_KEYS and isinstance(v, int):
                    out[k] = self._ty(v)
                elif k == "t" and isinstance(v, int) and keyhint == "garg":
                    out[k] = self._ty(v)
                elif k == "args" and isinstance(v, list):
                    out[k] = [self._c(a, "garg") for a in v]
                elif k in ("def", "path", "trait_item", "fn", "fnptr", "static") and isinstance(v, str):
                    out[k] = norm_name(v)
                elif k == "inputs" and isinstance(v, list):
                    out[k] = [self._ty(a) if isinstance(a, int) else a for a in v]
                elif k == "output" and isinstance(v, int):
                    out[k] = self._ty(v)
                else:
                    out[k] = self._c(v)
            return out
        if isinstance(x, list):
            return [self._c(v, keyhint) for v in x]
        return x

    def _proj(self, p):
        if isinstance(p, dict):
            if "idx" in p:
                return {"idx": self._loc(p["idx"])}
            if "f" in p:
                return {"f": p.get("n", p["f"]), "ty": self._ty(p["ty"])}
            if "dc" in p:
                return {"dc": p["dc"]}
            return dict(p)
        return p

    def canon(self):
        for a in range(self.body["arg_count"] + 1):
            self._loc(a)
        order = self.order()
        bmap = {b: n for n, b in enumerate(order)}
        use_count = {}

        def count_uses(x):
            if isinstance(x, dict):
                if "l" in x and "p" in x and len(x) == 2:
                    use_count[x["l"]] = use_count.get(x["l"], 0) + 1
                    for p in x["p"]:
                        if isinstance(p, dict) and "idx" in p:
                            use_count[p["idx"]] = use_count.get(p["idx"], 0) + 1
                    return
                for v in x.values():
                    count_uses(v)
            elif isinstance(x, list):
                for v in x:
                    count_uses(v)

        for i in order:
            b = self.blocks[i]
            for s in b["stmts"]:
                if s["k"] == "assign":
                    count_uses(s["rv"])
                    if s["place"]["p"]:
                        count_uses(s["place"])
                elif s["k"] not in ("live", "dead"):
                    count_uses(s)
            if self._collapsed_target(i) is None:
                t = b["term"]
                count_uses({k: v for k, v in t.items() if k != "dest"})
                if "dest" in t and t["dest"]["p"]:
                    count_uses(t["dest"])
        out_blocks = []
        for i in order:
            b = self.blocks[i]
            stmts = []
            for s in b["stmts"]:
                if s["k"] in ("live", "dead"):
                    continue  # storage markers carry no semantics for this comparison
                if s["k"] == "assign" and s["rv"]["k"] == "discr" and not s["place"]["p"] and use_count.get(s["place"]["l"], 0) == 0:
                    continue  # discriminant read only used by a collapsed switch
                stmts.append(self._c(s))
            t = b["term"]
            col = self._collapsed_target(i)
            if col is not None:
                ct = {"k": "goto", "t": bmap[col]}
            elif t["k"] == "switch":
                cases, other, adt = self._switch_cases(t)
                ct = {"k": "switch", "op": self._c(t["op"]), "ty": self._ty(t["ty"]), "cases": [[c[0], bmap[c[1]]] for c in cases], "otherwise": bmap[other]}
            else:
                ct = self._c({k: v for k, v in t.items() if k != "t"})
                if t.get("t") is not None:
                    ct["t"] = bmap[t["t"]]
            out_blocks.append({"stmts": stmts, "term": ct})
        locals_ = [None] * len(self.local_map)
        for l, n in self.local_map.items():
            locals_[n] = self._ty(self.body["locals"][l]["ty"])
        return {"arg_count": self.body["arg_count"], "locals": locals_, "blocks": out_blocks}


def _thread_and_renumber(c):
    """Second pass on a canonical body: jump-thread empty `goto` blocks, drop unreachable blocks,
    renumber blocks in DFS preorder and locals by first occurrence."""
    blocks = c["blocks"]

    def resolve(i):
        seen = set()
        while i not in seen and not blocks[i]["stmts"] and blocks[i]["term"]["k"] == "goto":
            seen.add(i)
            i = blocks[i]["term"]["t"]
        return i

    def succs(i):
        t = blocks[i]["term"]
        if t["k"] == "switch":
            return [x[1] for x in t["cases"]] + [t["otherwise"]]
        return [t["t"]] if t.get("t") is not None else []

    # merge straight-line chains: A --goto--> B where A is B's only predecessor
    import copy

    blocks = copy.deepcopy(blocks)
    changed = True
    while changed:
        changed = False
        entry = resolve(0)
        reach, st = set(), [entry]
        while st:
            i = st.pop()
            if i in reach:
                continue
            reach.add(i)
            st.extend(resolve(x) for x in succs(i))
        preds = {}
        for i in reach:
            for x in succs(i):
                x = resolve(x)
                preds[x] = preds.get(x, 0) + 1
        for i in sorted(reach):
            t = blocks[i]["term"]
            if t["k"] == "goto":
                tgt = resolve(t["t"])
                if tgt != i and tgt != entry and preds.get(tgt, 0) == 1:
                    blocks[i]["stmts"] = blocks[i]["stmts"] + blocks[tgt]["stmts"]
                    blocks[i]["term"] = blocks[tgt]["term"]
                    changed = True
                    break

    order, seen, stack = [], set(), [resolve(0)]
    while stack:
        i = stack.pop()
        if i in seen:
            continue
        seen.add(i)
        order.append(i)
        for x in reversed(succs(i)):
            x = resolve(x)
            if x not in seen:
                stack.append(x)
    bmap = {b: n for n, b in enumerate(order)}
    lmap = {}
    for a in range(c["arg_count"] + 1):
        lmap[a] = a

    def loc(l):
        if l not in lmap:
            lmap[l] = len(lmap)
        return lmap[l]

    def ren(x):
        if isinstance(x, dict):
            if "l" in x and "p" in x and len(x) == 2:
                l = loc(x["l"])
                return {"l": l, "p": [({"idx": loc(p["idx"])} if isinstance(p, dict) and "idx" in p else p) for p in x["p"]]}
            return {k: ren(v) for k, v in x.items()}
        if isinstance(x, list):
            return [ren(v) for v in x]
        return x

    out = []
    for i in order:
        b = blocks[i]
        t = dict(b["term"])
        stmts = ren(b["stmts"])
        if t["k"] == "switch":
            t2 = {"k": "switch", "op": ren(t["op"]), "ty": t["ty"], "cases": [[x[0], bmap[resolve(x[1])]] for x in t["cases"]], "otherwise": bmap[resolve(t["otherwise"])]}
        else:
            tgt = t.pop("t", None)
            t2 = ren(t)
            if tgt is not None:
                t2["t"] = bmap[resolve(tgt)]
        out.append({"stmts": stmts, "term": t2})
    locals_ = [None] * len(lmap)
    for l, n in lmap.items():
        locals_[n] = c["locals"][l]
    return {"arg_count": c["arg_count"], "locals": locals_, "blocks": out}


def canon_body(facts, body, drop_variants=None):
    return _thread_and_renumber(Canon(facts, body, drop_variants).canon())


def first_difference(a, b, path=""):
    if type(a) != type(b):
        return "%s: %s vs %s" % (path, json.dumps(a)[:160], json.dumps(b)[:160])
    if isinstance(a, dict):
        for k in sorted(set(a) | set(b)):
            if k not in a or k not in b:
                return "%s.%s: present in only one configuration (%s)" % (path, k, json.dumps(a.get(k, b.get(k)))[:160])
            d = first_difference(a[k], b[k], path + "." + k)
            if d:
                return d
        return None
    if isinstance(a, list):
        if len(a) != len(b):
            return "%s: length %d vs %d" % (path, len(a), len(b))
        for n, (x, y) in enumerate(zip(a, b)):
            d = first_difference(x, y, "%s[%d]" % (path, n))
            if d:
                return d
        return None
    if a != b:
        return "%s: %s vs %s" % (path, json.dumps(a)[:160], json.dumps(b)[:160])
    return None


def adt_shape(facts, a):
    return {
        "kind": a["kind"],
        "vis": a["vis"],
        "generics": a["generics"],
        "non_exhaustive": a["non_exhaustive"],
        "variants": {v["name"]: [(f["name"], norm_name(f["ty_s"]), f["vis"]) for f in v["fields"]] for v in a["variants"]},
        "variant_order": [v["name"] for v in a["variants"]],
    }


def compare_configs(run, fa, fb, na, nb):
    """fa is the smaller configuration (fewer features).  Records obligations/findings in `run`."""
    # ---- ADTs
    drop = {}
    shared_adts = 0
    gated_variants = []
    for path, a in fa.adt_by_path.items():
        b = fb.adt_by_path.get(path)
        if b is None:
            continue
        shared_adts += 1
        sa, sb = adt_shape(fa, a), adt_shape(fb, b)
        va, vb = set(sa["variants"]), set(sb["variants"])
        ok = True
        msgs = []
        if va != vb:
            extra = (vb - va) | (va - vb)
            if a["kind"] == "enum" and a["non_exhaustive"] and b["non_exhaustive"]:
                drop[path] = extra
                for v in sorted(extra):
                    gated_variants.append("%s::%s" % (path, v))
            else:
                ok = False
                msgs.append("variant set differs: %s" % sorted(extra))
        for v in va & vb:
            if sa["variants"][v] != sb["variants"][v]:
                ok = False
                msgs.append("fields of variant %s differ: %s vs %s" % (v, sa["variants"][v], sb["variants"][v]))
        # relative order of shared variants (derive(PartialOrd) depends on it)
        oa = [v for v in sa["variant_order"] if v in vb]
        ob = [v for v in sb["variant_order"] if v in va]
        if oa != ob:
            ok = False
            msgs.append("order of shared variants differs")
        for k in ("kind", "vis", "generics", "non_exhaustive"):
            if sa[k] != sb[k]:
                ok = False
                msgs.append("%s differs: %s vs %s" % (k, sa[k], sb[k]))
        run.obligation(ok)
        if not ok:
            run.finding("EQ-ADT", "%s~%s|%s" % (na, nb, path), "type definition differs between configurations %s and %s: %s" % (na, nb, "; ".join(msgs)), a.get("span"))
    run.rule("EQ-ADT[%s~%s]" % (na, nb), shared_adts)

    # ---- bodies
    def body_map(f):
        m = {}
        for b in f.bodies:
            m[norm_name(b["path"])] = b
        return m

    ma, mb = body_map(fa), body_map(fb)
    shared = sorted(set(ma) & set(mb))
    n_items = 0
    modulo = []
    for p in shared:
        ba, bb = ma[p], mb[p]
        pairs = [("", ba["body"], bb["body"])]
        if len(ba["promoted"]) != len(bb["promoted"]):
            run.obligation(False)
            run.finding("EQ-BODY", "%s~%s|%s|promoted-count" % (na, nb, p), "number of promoted constants differs (%d vs %d)" % (len(ba["promoted"]), len(bb["promoted"])))
        else:
            for n, (x, y) in enumerate(zip(ba["promoted"], bb["promoted"])):
                pairs.append(("::promoted[%d]" % n, x, y))
        for suffix, x, y in pairs:
            n_items += 1
            ca = canon_body(fa, x, drop)
            cb = canon_body(fb, y, drop)
            if ca == cb:
                run.obligation(True)
                # was the variant filter needed?
                if drop and canon_body(fa, x, None) != canon_body(fb, y, None):
                    modulo.append(p + suffix)
                continue
            run.obligation(False)
            diff = first_difference(ca, cb)
            it = fa.item_by_path.get(ba["path"])
            run.finding("EQ-BODY", "%s~%s|%s%s" % (na, nb, p, suffix), "compiled body differs between configurations %s and %s: %s" % (na, nb, diff), it.get("span") if it else None)
    run.rule("EQ-BODY[%s~%s]" % (na, nb), n_items)

    # ---- signatures of shared items
    n_sig = 0
    ia = {norm_name(i["path"]): i for i in fa.items}
    ib = {norm_name(i["path"]): i for i in fb.items}
    for p in sorted(set(ia) & set(ib)):
        x, y = ia[p], ib[p]
        if "inputs" not in x or "inputs" not in y:
            continue
        n_sig += 1
        sx = ([norm_name(fa.ty_s(t)) for t in x["inputs"]], norm_name(fa.ty_s(x["output"])), x["vis"], x.get("const_fn"), x["reachable"])
        sy = ([norm_name(fb.ty_s(t)) for t in y["inputs"]], norm_name(fb.ty_s(y["output"])), y["vis"], y.get("const_fn"), y["reachable"])
        ok = sx == sy
        run.obligation(ok)
        if not ok:
            run.finding("EQ-SIG", "%s~%s|%s" % (na, nb, p), "signature / visibility / constness differs: %s vs %s" % (sx, sy), x.get("span"))
    run.rule("EQ-SIG[%s~%s]" % (na, nb), n_sig)
    only_small = sorted(set(ma) - set(mb))
    return {"shared_bodies": n_items, "shared_adts": shared_adts, "shared_signatures": n_sig, "compared_modulo_variants": modulo, "cfg_gated_variants": gated_variants, "bodies_only_in_%s" % na: only_small[:20], "n_bodies_only_in_%s" % na: len(only_small)}
