"""E-W: compile-fail / compile-pass witnesses.

A throw-away harness crate (outside /repo and /verif) path-depends on the repository.  Each witness
is a rustdoc test: `compile_fail,E0xxx` (the error code is honoured on nightly only) or `no_run`
(must compile; nothing is executed).  `cargo check` witnesses build a small crate against a feature
set (used for the no-alloc API of C19).
"""
import os
import re
import shutil
import subprocess
import tempfile

from .facts import REPO, nightly_sysroot


def _env(tmp):
    env = dict(os.environ)
    env.update({"CARGO_TARGET_DIR": os.path.join(tmp, "target"), "CARGO_NET_OFFLINE": "true", "RUSTC_ICE": "0", "CARGO_INCREMENTAL": "0"})
    for k in ("RUSTC_WRAPPER", "RUSTC_WORKSPACE_WRAPPER", "RUSTFLAGS"):
        env.pop(k, None)
    return env


def _write_crate(tmp, name, lib_rs, dep_features, default_features):
    os.makedirs(os.path.join(tmp, "src"))
    feats = ", ".join('"%s"' % f for f in dep_features)
    with open(os.path.join(tmp, "Cargo.toml"), "w") as f:
        f.write(
            '[package]\nname = "%s"\nversion = "0.0.0"\nedition = "2021"\n\n[lib]\npath = "src/lib.rs"\n\n[dependencies]\n'
            'tz = { package = "tz-rs", path = "%s", default-features = %s, features = [%s] }\n\n[workspace]\n' % (name, REPO, "true" if default_features else "false", feats)
        )
    with open(os.path.join(tmp, "src", "lib.rs"), "w") as f:
        f.write(lib_rs)


def run_doc_witnesses(tests, dep_features=(), default_features=True):
    """tests: list of (name, attr, code).  attr is e.g. 'compile_fail,E0451' or 'no_run'.
    Returns {name: (ok, output_excerpt)}; raises RuntimeError if the harness itself could not run."""
    tmp = tempfile.mkdtemp(prefix="tzverif-w-")
    try:
        parts = ["//! generated witness crate\n#![allow(dead_code)]\n"]
        for name, attr, code in tests:
            parts.append("/// ```%s\n" % attr)
            for line in code.strip("\n").split("\n"):
                parts.append("/// %s\n" % line)
            parts.append("/// ```\npub mod %s {}\n\n" % name)
        _write_crate(tmp, "witness_api", "".join(parts), dep_features, default_features)
        p = subprocess.run(["cargo", "+nightly", "test", "--doc", "--offline", "--", "--test-threads", "16"], cwd=tmp, env=_env(tmp), stdout=subprocess.PIPE, stderr=subprocess.STDOUT, text=True)
        out = p.stdout
        res = {}
        for name, attr, code in tests:
            m = re.search(r"^test src/lib\.rs - %s \(line \d+\)[^\n]*\.\.\. (\w+)" % re.escape(name), out, re.M)
            if not m:
                res[name] = (None, "no result line")
            else:
                res[name] = (m.group(1) == "ok", "")
        if any(v[0] is None for v in res.values()):
            raise RuntimeError("witness harness did not run all tests:\n" + out[-4000:])
        # attach failure output
        for name in res:
            if res[name][0] is False:
                m = re.search(r"---- src/lib\.rs - %s \(line \d+\) stdout ----\n(.*?)(?=\n---- |\nfailures:)" % re.escape(name), out, re.S)
                res[name] = (False, (m.group(1) if m else out[-1500:])[:1500])
        return res
    finally:
        shutil.rmtree(tmp, ignore_errors=True)


def run_check_witness(name, lib_rs, dep_features=(), default_features=False, toolchain=None):
    """`cargo check` of a small library crate against the repository. Returns (ok, output)."""
    tmp = tempfile.mkdtemp(prefix="tzverif-w-")
    try:
        _write_crate(tmp, name, lib_rs, dep_features, default_features)
        cmd = ["cargo"] + (["+" + toolchain] if toolchain else []) + ["check", "--offline", "--lib"]
        p = subprocess.run(cmd, cwd=tmp, env=_env(tmp), stdout=subprocess.PIPE, stderr=subprocess.STDOUT, text=True)
        return p.returncode == 0, p.stdout[-3000:]
    finally:
        shutil.rmtree(tmp, ignore_errors=True)


def type_expr(adt, public_path):
    """`tz::TimeZoneRef<'static>` for an ADT with lifetime parameters; None if it has type/const parameters."""
    lts = [g for g in adt["generics"] if g["kind"] == "lifetime"]
    others = [g for g in adt["generics"] if g["kind"] != "lifetime"]
    if others:
        return None
    if lts:
        return "%s<%s>" % (public_path, ", ".join("'static" for _ in lts))
    return public_path
