"""Findings, known-findings filtering, replay files and evidence writing."""
import json
import os
import sys
import time

VERIF = os.path.dirname(os.path.dirname(os.path.abspath(__file__)))
# TZVERIF_EVIDENCE_DIR is a developer switch (tools/try_patch.sh: scratch trees analysed in parallel);
# registered commands never set it
EVIDENCE_DIR = os.environ.get("TZVERIF_EVIDENCE_DIR") or os.path.join(VERIF, "evidence")
REPLAY_DIR = os.path.join(EVIDENCE_DIR, "replay")
KNOWN = os.path.join(VERIF, "known_findings.txt")


class CheckerError(Exception):
    """The checker itself is broken (floor not met, control did not fire, anchor missing)."""


class Finding:
    def __init__(self, prop, rule, key, message, where=None, detail=None):
        self.prop = prop
        self.rule = rule
        self.key = key  # never contains line numbers / MIR numbering
        self.message = message
        self.where = where  # file:line:col
        self.detail = detail

    def full_key(self):
        return "%s|%s|%s" % (self.prop, self.rule, self.key)

    def as_json(self):
        return {"property": self.prop, "rule": self.rule, "key": self.key, "message": self.message, "where": self.where, "detail": self.detail}

    def __str__(self):
        return "%s %s %s%s: %s" % (self.prop, self.rule, self.key, (" at " + self.where) if self.where else "", self.message)


def load_known():
    """known_findings.txt: `finding: property=<id> key=<full key> :: <text>` | `fixed: property=<id> <commit> <text>`"""
    known = {}
    fixed = []
    if not os.path.exists(KNOWN):
        return known, fixed
    for line in open(KNOWN):
        line = line.strip()
        if not line or line.startswith("#"):
            continue
        if line.startswith("finding:"):
            rest = line[len("finding:"):].strip()
            head, _, text = rest.partition("::")
            parts = head.split()
            prop = None
            key = None
            for i, p in enumerate(parts):
                if p.startswith("property="):
                    prop = p[len("property="):]
                elif p.startswith("key="):
                    key = " ".join([p[len("key="):]] + parts[i + 1:])
                    break
            if prop and key:
                known[key.strip()] = (prop, text.strip())
        elif line.startswith("fixed:"):
            fixed.append(line)
    return known, fixed


class Run:
    """One check run for one property: collects rule results, findings and evidence, then finishes."""

    def __init__(self, prop, tier, level, argv=None):
        self.prop = prop
        self.tier = tier
        self.level = level
        self.t0 = time.time()
        self.findings = []
        self.rules = {}  # rule id -> {"instances": n, "ok": n}
        self.obligations = 0
        self.discharged = 0
        self.by_lemma = 0
        self.samples = []
        self.floors = {}
        self.controls = {}
        self.configs = []
        self.trusted = []
        self.assumptions = []
        self.extra = {}
        self.explanation = "the check did not reach the point where it states its rules (see checker_errors)"
        self.errors = []
        self.seed = int(os.environ.get("VERIF_SEED", "0") or 0)
        self.argv = argv or sys.argv

    # --- recording
    def rule(self, rid, instances, ok=None):
        r = self.rules.setdefault(rid, {"instances": 0, "ok": 0})
        r["instances"] += instances
        r["ok"] += instances if ok is None else ok

    def obligation(self, ok, lemma=False, n=1):
        self.obligations += n
        if ok:
            if lemma:
                self.by_lemma += n
            else:
                self.discharged += n

    def finding(self, rule, key, message, where=None, detail=None):
        f = Finding(self.prop, rule, key, message, where, detail)
        self.findings.append(f)
        return f

    def floor(self, name, measured, minimum):
        self.floors[name] = {"measured": measured, "min": minimum}
        if measured < minimum:
            self.errors.append("floor %s: measured %d < expected minimum %d (rule would pass vacuously)" % (name, measured, minimum))

    def control(self, name, fired):
        self.controls[name] = bool(fired)
        if not fired:
            self.errors.append("positive control %s did not fire" % name)

    def sample(self, s):
        if len(self.samples) < 24:
            self.samples.append(s)

    def error(self, msg):
        self.errors.append(msg)

    # --- finishing
    def finish(self):
        if getattr(self, "replay", None):
            rule, key, path = self.replay
            hits = [f for f in self.findings if f.rule == rule and f.key == key]
            for f in hits:
                print(str(f))
            for e in self.errors:
                print("CHECKER-ERROR property=%s %s" % (self.prop, e))
            if hits:
                print("VIOLATION property=%s replay=%s" % (self.prop, path))
                return 1
            if self.errors:
                return 2
            print("REPLAY property=%s rule=%s key=%s: not reproduced on the current tree" % (self.prop, rule, key))
            return 0
        known, fixed = load_known()
        new = []
        known_hits = []
        for f in self.findings:
            k = f.full_key()
            if k in known and known[k][0] == self.prop:
                known_hits.append((f, known[k][1]))
            else:
                new.append(f)
        os.makedirs(EVIDENCE_DIR, exist_ok=True)
        for f in self.findings:
            print(str(f))
        for f, text in known_hits:
            print("KNOWN-FINDING: property=%s %s [%s]" % (self.prop, text, f.full_key()))
        replay_paths = []
        if new:
            os.makedirs(REPLAY_DIR, exist_ok=True)
            for n, f in enumerate(new, 1):
                rp = os.path.join(REPLAY_DIR, "%s-%d.json" % (self.prop, n))
                with open(rp, "w") as fh:
                    json.dump(f.as_json(), fh, indent=1)
                replay_paths.append(rp)
        wall = round(time.time() - self.t0, 2)
        cov = {
            "obligations": self.obligations,
            "discharged": self.discharged,
            "by_lemma": self.by_lemma,
            "rules": self.rules,
            "floors": self.floors,
            "controls": self.controls,
            "configs": self.configs,
            "samples": self.samples if self.samples else [{"note": "no samples recorded"}],
            "checker_cmd": " ".join(self.argv),
            "trusted_base": self.trusted,
            "explanation": self.explanation,
            "known_findings_hit": [f.full_key() for f, _ in known_hits],
            "new_findings": [f.as_json() for f in new],
            "checker_errors": self.errors,
        }
        cov.update(self.extra)
        ev = {
            "property_id": self.prop,
            "tier": self.tier,
            "seed": self.seed,
            "level": self.level,
            "coverage": cov,
            "assumptions": self.assumptions,
            "wall_s": wall,
            "violations": len(new),
        }
        with open(os.path.join(EVIDENCE_DIR, "%s.json" % self.prop), "w") as fh:
            json.dump(ev, fh, indent=1, sort_keys=False)
        if self.errors:
            for e in self.errors:
                print("CHECKER-ERROR property=%s %s" % (self.prop, e))
        if new:
            for rp in replay_paths:
                print("VIOLATION property=%s replay=%s" % (self.prop, rp))
            return 1
        if self.errors:
            return 2
        print("OK property=%s tier=%s obligations=%d discharged=%d by_lemma=%d wall=%.1fs" % (self.prop, self.tier, self.obligations, self.discharged, self.by_lemma, wall))
        return 0
