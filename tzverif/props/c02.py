"""C02 (clauses) — the date-time constructors accept exactly the documented field ranges and refuse
each out-of-range field with the error that names it; days beyond the month's maximum length are
refused; the one excluded instant is refused.  NOT decided: the value of unix_time(), the round
trips, monotonicity, February 29 in non-leap years (year mod 4/100/400 is outside the domain)."""
from ..ai import accept
from ..ai import domain as D
from .accept_common import I32, U8, U32, check_regions, find_case, fmt, refine_args
from .common import control_run, fixture_facts, get_facts

P = {"year": (0,), "month": (1,), "month_day": (2,), "hour": (3,), "minute": (4,), "second": (5,), "nanoseconds": (6,)}
OKBOX = {"year": I32, "month": D.rng(1, 12), "month_day": D.rng(1, 31), "hour": D.rng(0, 23), "minute": D.rng(0, 59), "second": D.rng(0, 60), "nanoseconds": D.rng(0, 999999999)}
ERRS = {
    ("Err", "DateTime", "InvalidMonth"): {"month": D.norm([(0, 0), (13, 255)])},
    ("Err", "DateTime", "InvalidMonthDay"): {"month": D.rng(1, 12), "month_day": D.norm([(0, 0), (29, 255)])},
    ("Err", "DateTime", "InvalidHour"): {"hour": D.rng(24, 255)},
    ("Err", "DateTime", "InvalidMinute"): {"minute": D.rng(60, 255)},
    ("Err", "DateTime", "InvalidSecond"): {"second": D.rng(61, 255)},
    ("Err", "DateTime", "InvalidNanoseconds"): {"nanoseconds": D.rng(10 ** 9, (1 << 32) - 1)},
}
MAXI = (1 << 31) - 1
MONTH_LEN = [31, 29, 31, 30, 31, 30, 31, 31, 30, 31, 30, 31]

EXPLANATION = (
    "ACCEPT: the abstract interpreter analyses UtcDateTime::new and DateTime::new on the top box (all arguments "
    "unconstrained); the state of each return case (variant path of the returned Result) is projected on the seven "
    "field arguments and compared for equality with the specification table (ranges quoted from the property "
    "statement): Ok <=> the documented box; InvalidMonth <=> month in {0} u [13,255]; InvalidMonthDay => month in "
    "[1,12], day in {0} u [29,255]; InvalidHour <=> [24,255]; InvalidMinute <=> [60,255]; InvalidSecond <=> [61,255]; "
    "InvalidNanoseconds <=> [1e9, 2^32-1]; UtcDateTime::new OutOfRange <=> the single point (i32::MAX,12,31,23,59,60). "
    "ACCEPT-MONTH: twelve box theorems month = {m}: Ok => day <= L(m), L = 31,29,31,30,31,30,31,31,30,31,30,31 (each "
    "box is a class of > 2^60 inputs; the analysis resolves the days table from the constant's contents). Region "
    "comparison is on values, not code: `!(1 <= m && m <= 12)`, `m < 1 || m > 12` and a match are the same to it. "
    "The analysis over-approximates each case, so a wider-than-specified region is reported as such and a narrower "
    "one proves that valid input is diverted."
)


def check(run, tier):
    configs = ["std"] if tier == "quick" else ["std", "nofeat"]
    facts = get_facts(run, configs)
    total = 0
    for cfg in configs:
        f = facts[cfg]
        for root in ("tz::datetime::UtcDateTime::new", "tz::datetime::DateTime::new"):
            res = accept.analyse(f, root)
            spec = dict(ERRS)
            spec[("Ok",)] = OKBOX
            if root.endswith("UtcDateTime::new"):
                spec[("Err", "OutOfRange")] = {"year": D.point(MAXI), "month": D.point(12), "month_day": D.point(31), "hour": D.point(23), "minute": D.point(59), "second": D.point(60)}
            else:
                spec[("Err", "OutOfRange")] = {k: v for k, v in OKBOX.items() if k != "year"}
            where = f.item_by_path.get(root, {}).get("span")
            total += check_regions(run, "ACCEPT", cfg, root, res, spec, P, where)
            # ACCEPT-MONTH: twelve box theorems
            for m in range(1, 13):
                r2 = accept.analyse(f, root, make_args=refine_args({(1,): D.point(m)}))
                c = find_case(r2, ("Ok",)) if r2 else None
                got = accept.region(r2["I"], c, r2["args"], (2,)) if c else None
                want = D.rng(1, MONTH_LEN[m - 1])
                ok = got == want
                total += 1
                run.obligation(ok)
                if m in (2, 4):
                    run.sample({"rule": "ACCEPT-MONTH", "function": root, "box": "month = %d" % m, "Ok region of month_day": fmt(got), "expected": fmt(want)})
                if not ok:
                    run.finding("ACCEPT-MONTH", "%s|%s|month=%d" % (cfg, root, m), "%s with month = %d accepts month_day in %s, the calendar says %s" % (root, m, fmt(got), fmt(want)), where)
        run.rule("ACCEPT[%s]" % cfg, total)
    run.floor("regions_compared", total, 2 * (6 + 7 + 6 + 12))

    # positive control: off-by-one validator in the fixture crate
    ff = fixture_facts()
    cr = control_run("C02")
    for name, fires in (("badcrate::ai::bad_month", True), ("badcrate::ai::ok_month", False)):
        r = accept.analyse(ff, name, invariants=None)
        before = len(cr.findings)
        check_regions(cr, "ACCEPT", "fx", name, r, {("Ok",): {"m": D.rng(1, 12)}, ("Err",): {"m": D.norm([(0, 0), (13, 255)])}}, {"m": (0,)})
        fired = len(cr.findings) > before
        run.control("ACCEPT %s" % name, fired == fires)

    run.trusted += ["E-AI (see C07): forward abstract interpretation over MIR, model table for std callees", "specification ranges transcribed from the property statement (POSIX / proleptic Gregorian field ranges)"]
    run.explanation = EXPLANATION
    run.extra["decided_clauses"] = ["field ranges accepted == documented box", "each out-of-range field refused with its own error", "days beyond the month's maximum length refused (12 box theorems)", "UtcDateTime::new refuses exactly i32::MAX-12-31T23:59:60"]
    run.extra["not_decided"] = ["value of unix_time()", "calendar<->Unix round trips", "monotonicity", "February 29 in non-leap years"]
