"""C03 (clauses) — table lookup: which table entry the lookup uses, relative to the (trusted) binary-search contract.

Decided, on the public anchor TimeZoneRef::find_local_time_type:
  INDEX     three box theorems on the return case of the binary search over the transition table (the crate function of
            type (&[Transition], i64) -> Result<usize, usize> called with the zone's own table): under Ok(x) the entry
            read afterwards is transitions[x]; under Err(x), x >= 1, it is transitions[x-1]; under Err(0) no entry is read
            and the type index is 0 (the zone's first type).  In each box the local time type handed out is
            local_time_types[<that entry's type index>].  A search that provably never
            returns one of the three cases fails the box (the lookup has no other way to serve those instants).
  LAST      the search is entered only with key < (time of the last table entry) — strictly, so an instant *at* the last
            transition goes to the trailing rule / the NoAvailableLocalTimeType error, and every key the search sees has a
            successor in the table.
  EMPTY     with an empty table no entry is read, the search is not entered, and the only type index used is 0.
  LOOKUP    DateTime::from_timespec(t, n, zone): the zone is consulted exactly once, at exactly t, and every Ok result
            carries exactly the local time type that lookup returned (a path around the lookup would make it a join of
            two values), with t and n stored unchanged.
  DELEGATE  TimeZone::find_local_time_type (owned zone) performs exactly one lookup on its borrowed view, at its own
            argument, and returns that lookup's value unchanged on every path.
  SCALE     (E-SCALE, shared with C12) the key compared with table times is on the leap-count scale, the instant given to
            the trailing rule is on the UTC scale.
With the contract of the binary search (Ok(x): table[x] = key; Err(x): table[x-1] < key < table[x]) and strictly
increasing table times (C13) these say: the entry used is the latest transition at or before the instant.
NOT decided: the binary search itself (its contract is C03's numeric content), the conversion arithmetic (C12), what
the trailing rule computes (C04), the calendar fields of the result (C01)."""
from .. import escale as E
from ..ai import domain as D
from ..ai.domain import Lin
from ..ai.exec import Exec
from ..ai.invariants import INVARIANTS
from ..ai.models import M
from ..ai import models2  # noqa: F401
from ..ai.values import Enum, Ref, Scalar, Seq, Struct
from .c13 import same_shape
from .common import get_facts
from . import c12

ROOT = "tz::timezone::TimeZoneRef::<'_>::find_local_time_type"
FT = "tz::datetime::DateTime::from_timespec"
FTL = "tz::datetime::DateTime::from_timespec_and_local"
SEARCH_RET = "core::result::Result<usize, usize>"

EXPLANATION = __doc__


class Obs:
    def __init__(self, f, fld, force=None, empty=False):
        self.f = f
        self.fld = fld
        self.force = force  # None | ("Ok", None) | ("Err", "pos") | ("Err", "zero")
        self.empty = empty
        self.in_search = 0
        self.search_seen = 0
        self.search_payload = None
        self.search_key = None
        self.last_time = None
        self.last_strict = None
        self.tr_reads = []
        self.ty_reads = []
        self.forced = False
        self.vacuous = False

    def is_search(self, I, S, callee, args):
        body = callee["body"]
        if callee.get("closure") or body["arg_count"] != 2 or self.f.ty_canon(body["locals"][0]["ty"]) != SEARCH_RET:
            return False
        a0 = args[0] if args else None
        if not isinstance(a0, Ref) or a0.cell is None or len(args) < 2 or not isinstance(args[1], Scalar):
            return False
        v = I.read(S, a0.cell, a0.path, ("c03s",))
        return isinstance(v, Seq) and ("transitions",) in v.prov

    def __call__(self, ev, **kw):
        I = kw["interp"]
        if ev == "root":
            S = kw["state"]
            a0 = kw["args"][0]
            me = I.read(S, a0.cell, a0.path, ("c03r",)) if isinstance(a0, Ref) and a0.cell is not None else a0
            if isinstance(me, Struct):
                for idx, tag in ((self.fld["transitions"], "transitions"), (self.fld["types"], "types")):
                    r = me.fields[idx]
                    if isinstance(r, Ref) and r.cell is not None:
                        q = I.read(S, r.cell, r.path, ("c03m", tag))
                        if isinstance(q, Seq):
                            I.write(S, r.cell, r.path, Seq(q.kind, q.len, q.elem, q.efacts, q.data, q.prov | frozenset([(tag,)])), ("c03w", tag))
                            if tag == "transitions" and self.empty:
                                S.refine(q.len, D.point(0))
                            elif tag == "transitions" and self.force is not None:
                                S.refine(q.len, D.rng(1, (1 << 64) - 1))  # the search is only reachable with a non-empty table
        elif ev == "enter":
            if self.in_search:
                self.in_search += 1
            elif self.is_search(I, kw["state"], kw["inst"], kw["args"]):
                self.in_search = 1
                self.search_seen += 1
                S = kw["state"]
                self.search_key = kw["args"][1].sym
                if self.last_time is not None:
                    g = S.term(self.search_key).sub(S.term(self.last_time)).add(Lin.const(1))
                    ok = S.entails(g)
                    self.last_strict = ok if self.last_strict is None else (self.last_strict and ok)
        elif ev == "leave":
            if self.in_search:
                self.in_search -= 1
        elif ev == "elem_read":
            if self.in_search:
                return
            prov = kw["prov"]
            S = kw["state"]
            if ("transitions",) in prov:
                v = kw["value"]
                if kw.get("from_end") == 1 and isinstance(v, Struct) and not self.search_seen:
                    t = v.fields[self.fld["time"]]
                    if isinstance(t, Scalar):
                        self.last_time = t.sym
                idx = kw["index"]
                self.tr_reads.append({
                    "after": bool(self.search_seen), "index": idx, "off": kw["off"], "from_end": kw.get("from_end"),
                    "term": S.term(idx) if idx is not None else (Lin.const(kw["off"]) if kw["off"] is not None else None),
                    "xterm": S.term(self.search_payload) if self.search_payload is not None else None,
                    "lti": (v.fields[self.fld["lti"]].sym if isinstance(v, Struct) and isinstance(v.fields[self.fld["lti"]], Scalar) else None),
                })
            if ("types",) in prov:
                idx = kw["index"]
                self.ty_reads.append({"after": bool(self.search_seen), "index": idx, "off": kw["off"], "from_end": kw.get("from_end"),
                                      "term": S.term(idx) if idx is not None else (Lin.const(kw["off"]) if kw["off"] is not None and kw.get("from_end") is None else None)})

    def override(self, I, R, callee, args, ret):
        if self.force is None or self.force[0] == "none" or self.in_search != 1:
            return ret
        # called while the search frame is still counted: in_search == 1 means "the search itself is returning"
        if not isinstance(ret, Enum) or self.f.ty_canon(callee["body"]["locals"][0]["ty"]) != SEARCH_RET:
            return ret
        k, sub = self.force
        if k not in ret.variants or not isinstance(ret.variants[k][0], Scalar):
            R.dead = True
            self.vacuous = True
            return ret
        d = ret.when.get(k)
        if d is not None:
            R.apply_delta(d)
        x = ret.variants[k][0].sym
        if sub == "pos":
            R.refine(x, D.rng(1, (1 << 64) - 1))
        elif sub == "zero":
            R.refine(x, D.point(0))
        self.search_payload = x
        self.forced = True
        if R.dead:
            self.vacuous = True
        return Enum(ret.path, {k: ret.variants[k]}, {})


def fields(f):
    out = {}
    for key, g in (("transitions", "tz::timezone::TimeZoneRef::<'_>::transitions"), ("types", "tz::timezone::TimeZoneRef::<'_>::local_time_types"),
                   ("lti", "tz::timezone::Transition::local_time_type_index"), ("time", "tz::timezone::Transition::unix_leap_time")):
        r = E.getter_field(f, g)
        if r is None:
            return None, g
        out[key] = r[1]
    return out, None


def run_box(f, root, fld, force=None, empty=False):
    I = Exec(f, M, INVARIANTS)
    o = Obs(f, fld, force, empty)
    I.hooks.append(o)
    I.ret_override = o.override
    R, frame, args = I.analyse_root(root)
    return I, o, R, frame, args


def lin_s(l):
    return repr(l) if l is not None else "?"


def check(run, tier):
    configs = ["std"] if tier == "quick" else ["std", "nofeat"]
    facts = get_facts(run, configs)
    for cfg in configs:
        f = facts[cfg]
        insts = {i["name"]: i for i in f.instances}
        fld, missing = fields(f)
        if fld is None or ROOT not in insts:
            run.obligation(False)
            run.finding("ANCHOR-MISSING", "%s|%s" % (cfg, missing or ROOT), "public getter / entry point not found or not a plain field read: %s" % (missing or ROOT))
            continue
        root = insts[ROOT]
        where = root.get("span")

        def verdict(rule, tag, ok, msg, detail):
            run.obligation(ok)
            run.rule(rule, 1, 1 if ok else 0)
            run.sample(dict({"rule": rule, "box": tag, "verdict": "proven" if ok else "NOT PROVEN"}, **detail))
            if not ok:
                run.finding(rule, "%s|%s|%s" % (cfg, ROOT, tag), msg + " " + str(detail), where)

        # ---- INDEX boxes
        for tag, force, want in (("Ok(x)", ("Ok", None), 0), ("Err(x), x>=1", ("Err", "pos"), -1), ("Err(0)", ("Err", "zero"), None)):
            I, o, R, frame, args = run_box(f, root, fld, force)
            if o.vacuous and o.search_seen:
                # the search provably never returns this case, although the lookup depends on it
                # (Ok: the instant of a transition; Err(x>=1): between two; Err(0): before the first)
                verdict("INDEX", tag, False, "the binary search over the transition table provably never returns this case, which the lookup needs (Ok(x): an instant equal to a table time; Err(x), x>=1: between two entries; Err(0): before the first entry):", {"case": tag})
                run.obligation(False)
                continue
            if not o.forced or o.search_payload is None:
                verdict("INDEX", tag, False, "the binary search over the zone's transition table was not found, or cannot return this case:", {"searches seen": o.search_seen})
                continue
            x = o.search_payload
            after = [r for r in o.tr_reads if r["after"]]
            tys = [r for r in o.ty_reads if r["after"]]
            if want is None:
                ok = not after
                verdict("INDEX", tag, ok, "before the first transition the lookup must not read a table entry:", {"table reads after the search": [lin_s(r["term"]) for r in after]})
                ok2 = bool(tys) and all(r["term"] is not None and not r["term"].t and r["term"].c == 0 for r in tys)
                verdict("INDEX", tag + " type", ok2, "before the first transition the type must be local_time_types[0]:", {"type indices": [lin_s(r["term"]) for r in tys]})
            else:
                exp = Lin({x: 1}, want)

                def same(r):
                    if r["term"] is None or r["xterm"] is None:
                        return False
                    e2 = r["xterm"].add(Lin.const(want))
                    return r["term"].t == e2.t and r["term"].c == e2.c

                ok = bool(after) and all(same(r) for r in after)
                verdict("INDEX", tag, ok, "the table entry read after the search must be transitions[x%s]:" % ("" if want == 0 else "-1"), {"expected": lin_s(exp), "table reads after the search": [lin_s(r["term"]) for r in after]})
                ltis = {r["lti"] for r in after if r["lti"] is not None}
                ok2 = bool(tys) and all(r["index"] is not None and r["index"] in ltis for r in tys)
                verdict("INDEX", tag + " type", ok2, "the type handed out must be local_time_types[<type index of that entry>]:", {"type-index symbols of the entries read": sorted(ltis), "symbols used to index local_time_types": [r["index"] for r in tys]})
        # ---- LAST (on the unforced run)
        I, o, R, frame, args = run_box(f, root, fld, None)
        if o.search_seen and o.last_time is None:
            run.obligation(True)
            run.extra.setdefault("inconclusive", []).append("%s LAST: the last table entry is not read with a from-the-end pattern before the search; rule not evaluated" % cfg)
            print("INCONCLUSIVE property=C03 LAST: last entry not identified (%s)" % cfg)
        else:
            verdict("LAST", "key < last", bool(o.search_seen) and o.last_strict is True, "the search must be entered only with key strictly before the last transition (at or after it the trailing rule decides):", {"searches": o.search_seen, "entailed": o.last_strict})
        run.floor("%s.table_reads" % cfg, len(o.tr_reads), 2)
        # ---- EMPTY
        I, o, R, frame, args = run_box(f, root, fld, None, empty=True)
        idx_reads = [r for r in o.tr_reads]
        ok = not o.search_seen and not idx_reads and all(r["term"] is not None and not r["term"].t and r["term"].c == 0 for r in o.ty_reads)
        verdict("EMPTY", "len(transitions)=0", ok, "with an empty table nothing may be read from it and only type 0 may be used:", {"searches": o.search_seen, "table reads": len(idx_reads), "type indices": [lin_s(r["term"]) for r in o.ty_reads]})
        # ---- LOOKUP on DateTime::from_timespec
        if FT in insts and FTL in insts:
            seen = {"lk_args": [], "lk_ret": None, "ftl_args": [], "ftl_ret": None}

            def hook(ev, **kw):
                if ev == "enter" and kw["inst"]["name"] == ROOT:
                    seen["lk_args"].append((kw["args"], kw["state"]))
                elif ev == "leave" and kw["inst"]["name"] == ROOT:
                    seen["lk_ret"] = (kw["ret"], kw["state"].copy())
                elif ev == "enter" and kw["inst"]["name"] == FTL:
                    seen["ftl_args"].append((kw["args"], kw["state"].copy()))
                elif ev == "leave" and kw["inst"]["name"] == FTL:
                    seen["ftl_ret"] = kw["ret"]

            I = Exec(f, M, INVARIANTS)
            I.hooks.append(hook)
            R, frame, args = I.analyse_root(insts[FT])
            p0 = args[0].sym if isinstance(args[0], Scalar) else None
            p1 = args[1].sym if isinstance(args[1], Scalar) else None
            ok_at = len(seen["lk_args"]) == 1 and isinstance(seen["lk_args"][0][0][1], Scalar) and seen["lk_args"][0][0][1].sym == p0 and same_shape(seen["lk_args"][0][0][0], args[2]) if seen["lk_args"] else False
            if seen["lk_args"] and not ok_at:
                # the zone may be passed by reference to a copy
                a = seen["lk_args"][0][0]
                ok_at = len(seen["lk_args"]) == 1 and isinstance(a[1], Scalar) and a[1].sym == p0
            verdict("LOOKUP", "instant", bool(ok_at), "DateTime::from_timespec must consult the zone once, at exactly its Unix-time argument:", {"lookups": len(seen["lk_args"])})
            # the result: its local time type is exactly what the lookup returned; Unix time and nanoseconds are the arguments
            final = R.cells.get((frame, 0)) if R is not None else None
            pay_final = final.variants["Ok"][0] if isinstance(final, Enum) and "Ok" in final.variants and final.variants["Ok"] else None
            g_ltt, g_ut, g_ns = (E.getter_field(f, "tz::datetime::DateTime::" + n) for n in ("local_time_type", "unix_time", "nanoseconds"))
            ok_ty = False
            if seen["lk_ret"] is not None and isinstance(pay_final, Struct) and None not in (g_ltt, g_ut, g_ns):
                ret, RS = seen["lk_ret"]
                pay = ret.variants.get("Ok", (None,))[0] if isinstance(ret, Enum) else None
                tgt = I.read(RS, pay.cell, pay.path, ("c03p",)) if isinstance(pay, Ref) and pay.cell is not None else None
                fu, fn_ = pay_final.fields[g_ut[1]], pay_final.fields[g_ns[1]]
                ok_ty = tgt is not None and same_shape(tgt, pay_final.fields[g_ltt[1]]) and isinstance(fu, Scalar) and fu.sym == p0 and isinstance(fn_, Scalar) and fn_.sym == p1
            verdict("LOOKUP", "result", ok_ty, "every Ok result of from_timespec must carry exactly the local time type the lookup returned (no path around the lookup), with Unix time and nanoseconds unchanged:", {"lookups": len(seen["lk_args"])})
        else:
            run.obligation(False)
            run.finding("ANCHOR-MISSING", "%s|%s" % (cfg, FT), "DateTime::from_timespec / from_timespec_and_local not found")
        # ---- DELEGATE: the owned zone answers exactly what its borrowed view answers
        OWN = "tz::timezone::TimeZone::find_local_time_type"
        if OWN in insts:
            seen2 = {"args": [], "ret": None}

            def hook2(ev, **kw):
                if ev == "enter" and kw["inst"]["name"] == ROOT:
                    seen2["args"].append(kw["args"])
                elif ev == "leave" and kw["inst"]["name"] == ROOT:
                    seen2["ret"] = kw["ret"]

            I2 = Exec(f, M, INVARIANTS)
            I2.hooks.append(hook2)
            R2, frame2, args2 = I2.analyse_root(insts[OWN])
            fin2 = R2.cells.get((frame2, 0)) if R2 is not None else None
            q0 = args2[1].sym if len(args2) > 1 and isinstance(args2[1], Scalar) else None
            okd = len(seen2["args"]) == 1 and isinstance(seen2["args"][0][1], Scalar) and seen2["args"][0][1].sym == q0 and seen2["ret"] is not None and fin2 is not None and same_shape(fin2, seen2["ret"])
            verdict("DELEGATE", "owned zone", bool(okd), "TimeZone::find_local_time_type must return exactly what the borrowed zone's lookup returns for the same instant (one lookup, no other path):", {"lookups": len(seen2["args"])})
        # ---- SCALE (shared engine)
        S = c12.tz_seeds(f, run, cfg)
        if S is not None:
            A = E.Analysis(f, S).run()
            mine = [x for x in A.findings if any("find_local_time_type" in fn or "from_timespec" in fn for fn in ([x["group"]] + x["functions"]))]
            run.obligation(not mine)
            run.rule("SCALE", 1, 0 if mine else 1)
            A.findings = mine
            c12.report(run, cfg, A)
    run.floor("obligations", run.obligations, 11)
    run.trusted += [
        "the binary-search contract (Ok(x): table[x] = key; Err(x): table[x-1] < key < table[x]) — C03's numeric content, not decided here",
        "E-AI (see C07): forward abstract interpretation over MIR; box theorems restrict the return case of one callee",
        "E-SCALE (see C12)",
    ]
    run.explanation = EXPLANATION
    run.extra["not_decided"] = ["the binary search's own correctness", "conversion arithmetic (C12)", "the trailing rule's answer (C04)", "calendar fields of the local date-time (C01)"]
