"""C19 — feature configurations agree (level: proof).

BUILD (all three feature sets compile), EQ-BODY / EQ-ADT / EQ-SIG (every definition that exists in
two configurations compiles to the same canonical MIR over the same type definitions, callees
compared by defining path + generic arguments), NOALLOC-API (the no-alloc API of the property exists
and is exported without features) and W-NOSTD (a #![no_std] crate without `alloc` uses that API).
"""
from .. import eeq, ew
from ..facts import BuildFailure
from ..report import CheckerError
from .common import control_run, fixture_facts, get_facts_raw

# No-alloc API list (DESIGN §6.7): public paths taken from the property statement's clause
# "borrowed zones, date-time construction, lookup and the buffer-based search need neither an
# allocator nor the standard library".
NOALLOC_API = [
    "tz::timezone::TimeZoneRef::new", "tz::timezone::TimeZoneRef::utc", "tz::timezone::TimeZoneRef::transitions", "tz::timezone::TimeZoneRef::local_time_types",
    "tz::timezone::TimeZoneRef::leap_seconds", "tz::timezone::TimeZoneRef::extra_rule", "tz::timezone::TimeZoneRef::find_local_time_type",
    "tz::timezone::LocalTimeType::new", "tz::timezone::LocalTimeType::utc", "tz::timezone::LocalTimeType::with_ut_offset", "tz::timezone::LocalTimeType::ut_offset",
    "tz::timezone::LocalTimeType::is_dst", "tz::timezone::LocalTimeType::time_zone_designation", "tz::timezone::Transition::new", "tz::timezone::LeapSecond::new",
    "tz::timezone::rule::AlternateTime::new", "tz::timezone::rule::MonthWeekDay::new", "tz::timezone::rule::Julian0WithLeap::new", "tz::timezone::rule::Julian1WithoutLeap::new",
    "tz::datetime::UtcDateTime::new", "tz::datetime::UtcDateTime::from_timespec", "tz::datetime::UtcDateTime::from_total_nanoseconds", "tz::datetime::UtcDateTime::unix_time",
    "tz::datetime::UtcDateTime::project", "tz::datetime::DateTime::new", "tz::datetime::DateTime::find_n", "tz::datetime::DateTime::from_timespec",
    "tz::datetime::DateTime::from_timespec_and_local", "tz::datetime::DateTime::from_total_nanoseconds", "tz::datetime::DateTime::from_total_nanoseconds_and_local",
    "tz::datetime::DateTime::project", "tz::datetime::DateTime::unix_time", "tz::datetime::find::FoundDateTimeListRefMut::new", "tz::datetime::find::FoundDateTimeListRefMut::data",
    "tz::datetime::find::FoundDateTimeListRefMut::count", "tz::datetime::find::FoundDateTimeListRefMut::is_exhaustive", "tz::datetime::find::FoundDateTimeListRefMut::unique",
    "tz::datetime::find::FoundDateTimeListRefMut::earliest", "tz::datetime::find::FoundDateTimeListRefMut::latest",
]
NOALLOC_TYPES = ["tz::timezone::rule::TransitionRule", "tz::timezone::rule::RuleDay", "tz::datetime::find::FoundDateTimeKind", "tz::error::TzError", "tz::error::Error"]

NOSTD_WITNESS = r'''
#![no_std]
//! Uses the borrowed-zone API without `alloc` and without `std`; only type-checked.
use tz::datetime::{FoundDateTimeKind, FoundDateTimeListRefMut};
use tz::timezone::{AlternateTime, Julian0WithLeap, Julian1WithoutLeap, LeapSecond, LocalTimeType, MonthWeekDay, RuleDay, TimeZoneRef, Transition, TransitionRule};
use tz::{DateTime, TzError, UtcDateTime};

pub fn exercise(buf: &mut [Option<FoundDateTimeKind>]) -> Result<i64, TzError> {
    let types = [LocalTimeType::new(0, false, Some(b"STD"))?, LocalTimeType::with_ut_offset(3600)?, LocalTimeType::utc()];
    let transitions = [Transition::new(0, 1)];
    let leaps = [LeapSecond::new(0, 1)];
    let rule = Some(TransitionRule::Alternate(AlternateTime::new(
        types[0],
        types[1],
        RuleDay::MonthWeekDay(MonthWeekDay::new(3, 5, 0)?),
        7200,
        RuleDay::Julian1WithoutLeap(Julian1WithoutLeap::new(300)?),
        7200,
    )?));
    let _j0 = Julian0WithLeap::new(0)?;
    let zone = TimeZoneRef::new(&transitions, &types, &leaps, &rule)?;
    let _ = (zone.transitions(), zone.local_time_types(), zone.leap_seconds(), zone.extra_rule());
    let ltt = *zone.find_local_time_type(0)?;
    let _ = (ltt.ut_offset(), ltt.is_dst(), ltt.time_zone_designation());
    let utc = UtcDateTime::new(2000, 1, 1, 0, 0, 0, 0)?;
    let utc2 = UtcDateTime::from_timespec(utc.unix_time(), 0)?;
    let _utc3 = UtcDateTime::from_total_nanoseconds(utc2.total_nanoseconds())?;
    let dt = utc.project(zone)?;
    let dt2 = DateTime::from_timespec(dt.unix_time(), dt.nanoseconds(), TimeZoneRef::utc())?;
    let dt3 = DateTime::from_timespec_and_local(0, 0, ltt)?;
    let dt4 = DateTime::from_total_nanoseconds(dt3.total_nanoseconds(), zone)?;
    let dt5 = DateTime::from_total_nanoseconds_and_local(0, ltt)?;
    let dt6 = DateTime::new(2000, 1, 1, 0, 0, 0, 0, ltt)?.project(zone)?;
    let _ = (dt2 == dt4, dt5 < dt6);
    let found: FoundDateTimeListRefMut<'_> = DateTime::find_n(buf, 2000, 1, 1, 0, 0, 0, 0, zone)?;
    let _ = (found.data().len(), found.count(), found.is_exhaustive(), found.unique(), found.earliest(), found.latest());
    Ok(dt.unix_time())
}
'''

EXPLANATION = (
    "BUILD: cargo +nightly check --lib succeeds for {}, {alloc}, {alloc,std} (the exporter runs inside these builds). "
    "EQ-BODY: for every definition path present in two configurations (nofeat~alloc, alloc~std) the polymorphic MIR "
    "body and each promoted constant are serialised canonically (types by region-free name, callees by defining path, "
    "generic arguments and resolved impl, enum variants by name, constants by evaluated value, blocks in DFS order with "
    "empty gotos threaded, locals by first use) and must be identical; arms of switch on an enum discriminant for "
    "variants that do not exist in the smaller configuration are dropped first (allowed only for #[non_exhaustive] "
    "enums; listed under compared_modulo_variants). EQ-ADT: shared type definitions are identical up to those gated "
    "variants. EQ-SIG: shared functions have the same signature, visibility and constness. NOALLOC-API: every item of "
    "the no-alloc API list is exported in the feature-less build. W-NOSTD: a #![no_std] crate without alloc that calls "
    "that API type-checks. Argument: a function that exists in two configurations with the same body, the same "
    "callees by identity and the same type definitions is the same function; tz-rs has no specialisation or negative "
    "impls, so identical callees resolve identically; hence every shared operation returns identical results."
)


def check(run, tier):
    order = ["nofeat", "alloc", "std"]
    raw = get_facts_raw(order)
    built = {}
    for c in order:
        v = raw[c]
        ok = not isinstance(v, BuildFailure)
        run.obligation(ok)
        if ok:
            built[c] = v
            run.configs.append(c)
        else:
            run.finding("BUILD", "%s|build" % c, "the crate does not build in configuration %s:\n%s" % (c, v.output[-1500:]))
    run.rule("BUILD", 3, len(built))
    stats = {}
    for a, b in (("nofeat", "alloc"), ("alloc", "std")):
        if a in built and b in built:
            stats["%s~%s" % (a, b)] = eeq.compare_configs(run, built[a], built[b], a, b)
    run.extra["pairs"] = stats
    if "nofeat~alloc" in stats:
        run.floor("nofeat~alloc.shared_bodies", stats["nofeat~alloc"]["shared_bodies"], 240)
        run.floor("nofeat~alloc.shared_adts", stats["nofeat~alloc"]["shared_adts"], 23)
    if "alloc~std" in stats:
        run.floor("alloc~std.shared_bodies", stats["alloc~std"]["shared_bodies"], 340)
        run.floor("alloc~std.shared_adts", stats["alloc~std"]["shared_adts"], 32)

    # NOALLOC-API
    if "nofeat" in built:
        f = built["nofeat"]
        have = {eeq.norm_name(i["path"]): i for i in f.items}
        n = 0
        for p in NOALLOC_API:
            n += 1
            it = have.get(p)
            ok = it is not None and it["reachable"] and it["vis"] == "pub"
            run.obligation(ok)
            if not ok:
                run.finding("NOALLOC-API", "nofeat|%s" % p, "%s is %s in the build without features" % (p, "missing" if it is None else "not exported"))
        for p in NOALLOC_TYPES:
            n += 1
            a = f.adt_by_path.get(p)
            ok = a is not None and a["reachable"]
            run.obligation(ok)
            if not ok:
                run.finding("NOALLOC-API", "nofeat|%s" % p, "type %s is %s in the build without features" % (p, "missing" if a is None else "not exported"))
        run.rule("NOALLOC-API", n)
        # W-NOSTD
        ok, out = ew.run_check_witness("witness_nostd", NOSTD_WITNESS, dep_features=(), default_features=False)
        run.obligation(ok)
        run.rule("W-NOSTD", 1, 1 if ok else 0)
        if not ok:
            run.finding("W-NOSTD", "nofeat|no_std-witness", "a #![no_std] crate without alloc cannot use the borrowed-zone API:\n" + out[-1500:])

    # positive controls: fixture crate with and without its `extra` feature
    cr = control_run("C19")
    fa = fixture_facts(())
    fb = fixture_facts(("--features", "extra"))
    eeq.compare_configs(cr, fa, fb, "fx", "fx+extra")
    keys = {(x.rule, x.key) for x in cr.findings}
    run.control("EQ-BODY cfg inside shared body", ("EQ-BODY", "fx~fx+extra|badcrate::eq::shared") in keys)
    run.control("EQ-ADT cfg-gated field", ("EQ-ADT", "fx~fx+extra|badcrate::eq::Gated") in keys)
    run.control("twin stable() silent", not any("badcrate::eq::stable" in k for _, k in keys))
    run.control("non_exhaustive gated variant compared modulo variants", not any("badcrate::eq::describe" in k or "badcrate::eq::Open" in k for _, k in keys))

    run.trusted += [
        "rustc (name resolution, type checking, MIR construction, constant evaluation) is deterministic: equal canonical MIR + equal callee identities + equal type definitions => equal behaviour",
        "tzmir's serialisation of MIR; the canonicalisation only removes spans, numbering, storage markers, empty gotos and switch arms of non-existent variants",
        "no specialisation / negative impls in the crate (identical callees resolve identically in every configuration)",
    ]
    run.explanation = EXPLANATION
    for k, v in stats.items():
        run.sample({"pair": k, "shared_bodies": v["shared_bodies"], "compared_modulo_variants": v["compared_modulo_variants"], "cfg_gated_variants": v["cfg_gated_variants"]})
    if "alloc" in built and "std" in built:
        b = [x for x in built["alloc"].bodies if x["path"].endswith("find_date_time")]
        if b:
            c = eeq.canon_body(built["alloc"], b[0]["body"])
            run.sample({"obligation": "EQ-BODY alloc~std", "item": b[0]["path"], "canonical_blocks": len(c["blocks"]), "canonical_locals": len(c["locals"]), "verdict": "identical"})
