"""C12 (clauses) — leap seconds: the two time scales never meet except through the two conversions.

Decided: every value that is compared with, stored into or read from a transition time or a leap-second record
time is on the leap-count scale, every value handed to or out of the UTC-facing API (lookup instants, the
instant stored in a zoned date-time, instants given to the trailing rule and to the timestamp constructors) is
on the UTC scale, and the only way from one scale to the other is one of the two conversion functions, used
in the right direction.  This is the structural half of "conversions drive lookups" and of "the instant the
search reports for a transition is the instant at which the forward lookup switches": a lookup or search that
skips, doubles or inverts a conversion is wrong for every zone with a non-empty leap table and right for every
zone the test-suite uses.
NOT decided: the arithmetic inside the two conversions (monotonicity, mutual inverse, inclusive / exclusive
conventions) — values in tables of unbounded length."""
from .. import escale as E
from .common import fixture_facts, get_facts

L_GETTERS = ["tz::timezone::Transition::unix_leap_time", "tz::timezone::LeapSecond::unix_leap_time"]
U_GETTERS = ["tz::datetime::DateTime::unix_time"]
K_GETTER = "tz::timezone::LeapSecond::correction"
O_GETTER = "tz::timezone::LocalTimeType::ut_offset"
U_PARAMS = {
    "tz::timezone::TimeZoneRef::<'_>::find_local_time_type": {1: "U"},
    "tz::timezone::TimeZone::find_local_time_type": {1: "U"},
    "tz::timezone::rule::TransitionRule::find_local_time_type": {1: "U"},
    "tz::datetime::DateTime::from_timespec": {0: "U"},
    "tz::datetime::DateTime::from_timespec_and_local": {0: "U"},
}

EXPLANATION = (
    "SCALE (E-SCALE, unification-based qualifier inference over monomorphic MIR, field sensitive, def-use webs for "
    "scalars, summaries instantiated per call site, foreign calls linked by type structure): seeds — the fields "
    "returned by the public getters Transition::unix_leap_time and LeapSecond::unix_leap_time are on the leap-count "
    "scale (L); the field returned by DateTime::unix_time and the instant parameters of the public functions "
    "TimeZoneRef/TimeZone/TransitionRule::find_local_time_type and DateTime::from_timespec[_and_local] are on the UTC "
    "scale (U). CONV: the conversion functions are discovered, not named: the crate functions that add a "
    "LeapSecond correction to a time (U -> L) or subtract it (L -> U); exactly one of each must exist, with one i64 "
    "parameter; their bodies are the trusted arithmetic, their argument and result are seeded by direction at every "
    "call site. Obligation: no equivalence class of storage locations contains both a U and an L seed. A violation is "
    "reported with the chain of assignments / comparisons / calls that joins the two seeds."
)


def tz_seeds(f, run, cfg):
    fs = {}
    missing = []
    for g in L_GETTERS:
        r = E.getter_field(f, g)
        if r is None:
            missing.append(g)
        else:
            fs[r] = ("L", "the field returned by the public getter %s (leap-count scale)" % g)
    for g in U_GETTERS:
        r = E.getter_field(f, g)
        if r is None:
            missing.append(g)
        else:
            fs[r] = ("U", "the field returned by the public getter %s (UTC scale)" % g)
    corr = E.getter_field(f, K_GETTER)
    if corr is None:
        missing.append(K_GETTER)
    off = E.getter_field(f, O_GETTER)
    if off is None:
        missing.append(O_GETTER)
    names = {i["name"] for i in f.instances}
    # TimeZone (owned) exists only with alloc
    for p in U_PARAMS:
        if p not in names and not (cfg == "nofeat" and "TimeZone::" in p):
            missing.append(p)
    if missing:
        run.obligation(False)
        run.finding("ANCHOR-MISSING", "%s|%s" % (cfg, ",".join(sorted(missing))), "public getters / entry points used as scale seeds not found or not plain field reads: %s" % sorted(missing))
        return None
    return E.Seeds(fs, U_PARAMS, corr, K_GETTER, off, O_GETTER)


def report(run, cfg, A, rule="SCALE"):
    for x in A.findings:
        key = "%s|%s|%s" % (cfg, x["group"], "+".join(sorted(set(fn.split("::<")[0] for fn in x["functions"])))[:300])
        chain = " ; ".join(x["chain"][:12])
        where = None
        for w in x["chain"]:
            if "[" in w:
                where = w.split("[", 1)[1].split("]", 1)[0]
                break
        run.finding(rule, key, "values on two different time scales (%s | %s) meet without a conversion in %s: %s" % (x["u_seed"], x["l_seed"], x["group"], chain), where, detail=x)


def check(run, tier):
    configs = ["std"] if tier == "quick" else ["std", "alloc", "nofeat"]
    facts = get_facts(run, configs)
    for cfg in configs:
        f = facts[cfg]
        S = tz_seeds(f, run, cfg)
        if S is None:
            continue
        A = E.Analysis(f, S).run()
        # ---- CONV
        dirs = sorted(c["dir"] or "?" for c in A.conversions.values())
        ok = dirs == ["L->U", "U->L"] and not A.conv_problems
        run.obligation(ok)
        run.rule("CONV", 1, 1 if ok else 0)
        if not ok:
            run.finding("CONV", "%s|%s" % (cfg, ",".join(dirs)), "expected exactly one function applying the leap-second correction in each direction, found %s %s" % ([(c["name"], c["dir"]) for c in A.conversions.values()], A.conv_problems))
        # ---- SCALE
        n = max(1, A.stats["classes_seeded"])
        bad = len(A.findings)
        run.obligation(bad == 0, n=n)
        run.rule("SCALE", n, n - bad if bad <= n else 0)
        report(run, cfg, A)
        run.floor("%s.conversion_call_sites" % cfg, A.stats["conversion_calls"], 2)
        run.floor("%s.conversion_directions_used" % cfg, len({s[1] for s in A.conv_sites}), 2)
        run.floor("%s.comparisons_on_leap_scale" % cfg, len(set(A.l_compares)), 6)
        run.floor("%s.classes_L" % cfg, A.stats["classes_L"], 10)
        run.floor("%s.classes_U" % cfg, A.stats["classes_U"], 6)
        run.floor("%s.instances" % cfg, A.stats["instances"], 120)
        run.sample({"config": cfg, "stats": A.stats, "conversions": [(c["name"], c["dir"]) for c in A.conversions.values()]})
        run.sample({"config": cfg, "conversion call sites": sorted(set("%s %s %s" % s for s in A.conv_sites))})
        run.sample({"config": cfg, "comparisons proven to be on the leap-count scale on both sides": sorted(set("%s %s" % s for s in A.l_compares))})
    # ---- positive controls
    ff = fixture_facts()
    fs = {}
    for g, sc in (("badcrate::scale::Tr::leap", "L"), ("badcrate::scale::Leap::leap", "L"), ("badcrate::scale::Stamp::unix", "U")):
        r = E.getter_field(ff, g)
        if r is not None:
            fs[r] = (sc, g)
    corr = E.getter_field(ff, "badcrate::scale::Leap::corr")
    ps = {"badcrate::scale::Zone::<'_>::%s" % n: {1: "U"} for n in ("lookup_good", "lookup_bad", "reuse_good", "helper_good", "through_iter_bad", "pair_bad", "pair_good", "phase_good", "phase_bad")}
    FA = E.Analysis(ff, E.Seeds(fs, ps, corr, "badcrate::scale::Leap::corr")).run()
    hit = {x["group"].rsplit("::", 1)[-1] for x in FA.findings}
    for name in ("lookup_bad", "stamp_bad", "through_iter_bad", "pair_bad", "phase_bad"):
        run.control("SCALE fires on %s" % name, name in hit)
    for name in ("lookup_good", "stamp_good", "reuse_good", "helper_good", "pair_good", "phase_good"):
        run.control("SCALE silent on %s" % name, name not in hit)
    run.control("CONV finds both fixture conversions", sorted(c["dir"] or "?" for c in FA.conversions.values()) == ["L->U", "U->L"])
    run.trusted += [
        "the arithmetic inside the two conversion functions (C12's value-level content)",
        "foreign (core/alloc) functions move values only between positions of identical component type (type-directed linking); a flow this misses is a missed conflict, never a false one",
        "tzmir's serialisation of monomorphic MIR",
    ]
    run.explanation = EXPLANATION
    run.extra["not_decided"] = ["monotonicity and mutual inverse of the two conversions", "inclusive/exclusive convention at a leap record", "negative leap seconds"]
