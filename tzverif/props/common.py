"""Shared helpers for property checks: exports with build-failure handling, fixture export."""
import os

from .. import facts as F
from ..report import CheckerError

FIXTURE = os.path.join(F.VERIF, "fixtures", "badcrate")

_cache = {}


def get_facts(run, configs):
    """Export the given configurations of /repo (once per process). A build failure is a checker
    error here; C19 handles it itself as a finding."""
    need = [c for c in configs if c not in _cache]
    if need:
        _cache.update(F.export_many(need))
    out = {}
    for c in configs:
        v = _cache[c]
        if isinstance(v, F.BuildFailure):
            raise CheckerError("cannot analyse: /repo does not build in configuration %s:\n%s" % (c, v.output[-1500:]))
        out[c] = v
        if c not in run.configs:
            run.configs.append(c)
    return out


def get_facts_raw(configs):
    need = [c for c in configs if c not in _cache]
    if need:
        _cache.update(F.export_many(need))
    return {c: _cache[c] for c in configs}


_fixture = {}


def fixture_facts(flags=()):
    key = tuple(flags)
    if key not in _fixture:
        _fixture[key] = F.export("std", repo=FIXTURE, crate="badcrate", extra_flags=list(flags))
    return _fixture[key]


def control_run(prop):
    from ..report import Run

    return Run(prop, "quick", "other")
