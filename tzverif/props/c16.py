"""C16 (clauses) — total nanoseconds <-> (seconds, nanoseconds): nanosecond part always in
[0, 999 999 999]; floor-based split on both sign classes; out-of-range seconds refused; recombination
is s*10^9 + n exactly; the from_total_nanoseconds* constructors are the split followed by the
timestamp constructors (argument pass-through)."""
from ..ai import accept
from ..ai import domain as D
from ..ai.domain import Lin
from ..ai.values import Enum, Scalar, Struct
from .accept_common import find_case, fmt, refine_args
from .common import get_facts

E9 = 10 ** 9
I128 = D.rng(-(1 << 127), (1 << 127) - 1)
I64 = D.rng(-(1 << 63), (1 << 63) - 1)

EXPLANATION = (
    "The split and recombine functions are discovered by signature ((i128) -> Result<(i64,u32),TzError> and "
    "(i64,u32) -> i128). Box theorems proven by the abstract interpreter: T1 for all t: Ok((s,n)) => n in [0, 999999999]; "
    "T2 for all t in [-999999999,-1]: result is Ok((-1, n)) with n in [1, 999999999]; T3 for all t in [0, 999999999]: "
    "Ok((0, n)), n in [0, 999999999] (a truncating split fails T2); T4 for all t >= 2^63*1e9 and all t <= -2^63*1e9 - 1: "
    "Err(OutOfRange), and for t in between never Err; T5 the value returned by recombine is the linear term "
    "1e9*s + n with all overflow asserts discharged in i128. PASSTHROUGH: in from_total_nanoseconds* the (s,n) passed "
    "to the timestamp constructor are exactly the two components of the split's Ok payload and the result is "
    "returned unchanged. div_euclid/rem_euclid values come from the std model (floor semantics for a positive "
    "constant divisor)."
)


def find_by_sig(f, inputs, output_prefix):
    out = []
    for inst in f.instances:
        if inst.get("closure"):
            continue
        body = inst["body"]
        ins = [f.ty_canon(body["locals"][i + 1]["ty"]) for i in range(body["arg_count"])]
        o = f.ty_canon(body["locals"][0]["ty"])
        if ins == inputs and o.startswith(output_prefix):
            out.append(inst)
    return out


def check(run, tier):
    configs = ["std"] if tier == "quick" else ["std", "nofeat"]
    facts = get_facts(run, configs)
    n = 0
    for cfg in configs:
        f = facts[cfg]
        split = find_by_sig(f, ["i128"], "core::result::Result<(i64, u32), tz::error::TzError>")
        rec = find_by_sig(f, ["i64", "u32"], "i128")
        if len(split) != 1 or len(rec) != 1:
            run.obligation(False)
            run.finding("ANCHOR-MISSING", "%s|split-recombine" % cfg, "expected exactly one (i128)->Result<(i64,u32),TzError> and one (i64,u32)->i128 function, found %d and %d" % (len(split), len(rec)))
            continue
        sname, rname = split[0]["name"], rec[0]["name"]
        where = split[0].get("span")

        def payload(res, c):
            p = c["payload"][0] if c["payload"] else None
            if isinstance(p, Struct) and len(p.fields) == 2 and all(isinstance(x, Scalar) for x in p.fields):
                return c["state"].ivof(p.fields[0].sym), c["state"].ivof(p.fields[1].sym)
            return None, None

        def theorem(tid, box, expect_ok=None, expect_err=None, secs=None, nanos=None):
            nonlocal n
            res = accept.analyse(f, sname, make_args=refine_args({(0,): box}) if box is not None else None)
            okc = find_case(res, ("Ok",))
            errc = [c for c in res["cases"] if c["path"][0] == "Err"]
            good = True
            detail = {}
            if expect_ok is True and okc is None:
                good = False
            if expect_ok is False and okc is not None:
                good = False
            if expect_err is True and not errc:
                good = False
            if expect_err is False and errc:
                good = False
            if okc is not None:
                s_iv, n_iv = payload(res, okc)
                detail = {"seconds": fmt(s_iv), "nanoseconds": fmt(n_iv)}
                if nanos is not None and n_iv != nanos:
                    good = False
                if secs is not None and s_iv != secs:
                    good = False
            n += 1
            run.obligation(good)
            run.sample({"theorem": tid, "box": fmt(box) if box is not None else "all i128", "cases": ["/".join(c["path"]) for c in res["cases"]], **detail})
            if not good:
                run.finding(tid, "%s|%s|%s" % (cfg, sname, tid), "box theorem %s fails for the nanosecond split on box %s: cases %s %s" % (tid, fmt(box) if box is not None else "all", ["/".join(c["path"]) for c in res["cases"]], detail), where)

        theorem("T1", None, nanos=D.rng(0, E9 - 1))
        theorem("T2", D.rng(-(E9 - 1), -1), expect_ok=True, expect_err=False, secs=D.point(-1), nanos=D.rng(1, E9 - 1))
        theorem("T3", D.rng(0, E9 - 1), expect_ok=True, expect_err=False, secs=D.point(0), nanos=D.rng(0, E9 - 1))
        theorem("T4-high", D.rng((1 << 63) * E9, (1 << 127) - 1), expect_ok=False, expect_err=True)
        theorem("T4-low", D.rng(-(1 << 127), -(1 << 63) * E9 - 1), expect_ok=False, expect_err=True)
        theorem("T4-mid", D.rng(-(1 << 63) * E9, (1 << 63) * E9 - 1), expect_ok=True, expect_err=False, secs=I64, nanos=D.rng(0, E9 - 1))
        # T5: recombine returns 1e9*s + n
        res = accept.analyse(f, rname)
        ok = False
        if res and res["state"] is not None:
            rv = res["state"].cells.get((res["frame"], 0))
            a0, a1 = res["args"][0], res["args"][1]
            if isinstance(rv, Scalar) and isinstance(a0, Scalar) and isinstance(a1, Scalar):
                ok = res["state"].term(rv.sym) == Lin({a0.sym: E9, a1.sym: 1}, 0)
                run.sample({"theorem": "T5", "function": rname, "returned term": repr(res["state"].term(rv.sym)), "expected": "1000000000*s + n"})
            fails = [o for o in res["I"].obls.values() if o.fail]
            ok = ok and not fails
        n += 1
        run.obligation(ok)
        if not ok:
            run.finding("T5", "%s|%s|T5" % (cfg, rname), "recombination is not proven to be exactly 10^9*s + n without overflow", rec[0].get("span"))
        # PASSTHROUGH for the three from_total_nanoseconds* constructors
        for root, ctor_suffix in (("tz::datetime::UtcDateTime::from_total_nanoseconds", ("UtcDateTime::from_timespec",)), ("tz::datetime::DateTime::from_total_nanoseconds_and_local", ("DateTime::from_timespec_and_local",)), ("tz::datetime::DateTime::from_total_nanoseconds", ("DateTime::from_timespec", "DateTime::from_timespec_and_local"))):
            seen = {"split": None, "ctor": None, "lookup": None}

            def hook(ev, **kw):
                if ev == "leave" and kw["inst"]["name"] == sname:
                    r = kw["ret"]
                    if isinstance(r, Enum) and "Ok" in r.variants and isinstance(r.variants["Ok"][0], Struct):
                        seen["split"] = [x.sym if isinstance(x, Scalar) else None for x in r.variants["Ok"][0].fields]
                if ev == "enter" and seen["ctor"] is None and any(kw["inst"]["name"].endswith("::" + c) for c in ctor_suffix):
                    seen["ctor"] = [x.sym if isinstance(x, Scalar) else None for x in kw["args"][:2]]
                if ev == "enter" and seen["lookup"] is None and kw["inst"]["name"].endswith("::find_local_time_type") and len(kw["args"]) >= 2:
                    seen["lookup"] = kw["args"][1].sym if isinstance(kw["args"][1], Scalar) else -1

            from ..ai.exec import Exec
            from ..ai.invariants import INVARIANTS
            from ..ai.models import M

            I = Exec(f, M, INVARIANTS)
            I.hooks.append(hook)
            insts = [i for i in f.instances if i["name"] == root]
            ok = False
            if insts:
                R_, frame_, _args = I.analyse_root(insts[0])
                ok = seen["split"] is not None and seen["ctor"] is not None and seen["split"] == seen["ctor"] and None not in seen["split"]
                if not ok and seen["split"] is not None and None not in seen["split"] and root.startswith("tz::datetime::DateTime::"):
                    # the constructors may share a private helper instead of calling each other: decide on the result —
                    # the Unix-time and nanosecond fields (those returned by the public getters) of every Ok result are
                    # exactly the split's two components
                    from .. import escale as _E

                    g_ut, g_ns = _E.getter_field(f, "tz::datetime::DateTime::unix_time"), _E.getter_field(f, "tz::datetime::DateTime::nanoseconds")
                    fin = R_.cells.get((frame_, 0)) if R_ is not None else None
                    pay = fin.variants["Ok"][0] if isinstance(fin, Enum) and "Ok" in fin.variants and fin.variants["Ok"] else None
                    if isinstance(pay, Struct) and g_ut is not None and g_ns is not None:
                        fu, fn_ = pay.fields[g_ut[1]], pay.fields[g_ns[1]]
                        if isinstance(fu, Scalar) and isinstance(fn_, Scalar) and [fu.sym, fn_.sym] == seen["split"]:
                            ok = True
                            seen["ctor"] = "result fields"
                # a zone lookup made on the way must be made at the split's seconds
                if ok and seen["lookup"] is not None and seen["lookup"] != seen["split"][0]:
                    ok = False
            n += 1
            run.obligation(ok)
            run.sample({"rule": "PASSTHROUGH", "function": root, "split Ok payload symbols": seen["split"], "symbols passed to " + "/".join(ctor_suffix): seen["ctor"], "zone lookup at": seen["lookup"]})
            if not ok:
                run.finding("PASSTHROUGH", "%s|%s" % (cfg, root), "%s does not pass the split's (seconds, nanoseconds) unchanged to %s (or looks the zone up at another instant)" % (root, "/".join(ctor_suffix)), insts[0].get("span") if insts else None)
    run.rule("BOX+PASSTHROUGH", n)
    run.floor("theorems", n, 10)
    run.trusted += ["E-AI (see C07)", "std model: i128::div_euclid / rem_euclid by a positive constant are floor division / non-negative remainder"]
    run.explanation = EXPLANATION
    run.extra["not_decided"] = ["div_euclid's value for every individual count beyond the model", "equality of the resulting date-times beyond argument pass-through"]
