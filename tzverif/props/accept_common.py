"""Helpers shared by the accept-region properties (C02, C09, C11, C13, C16)."""
from ..ai import accept
from ..ai import domain as D

I32 = D.rng(-(1 << 31), (1 << 31) - 1)
U8 = D.rng(0, 255)
U16 = D.rng(0, 65535)
U32 = D.rng(0, (1 << 32) - 1)


def fmt(iv):
    return D.fmt(iv) if iv is not None else "untracked"


def find_case(res, path):
    for c in res["cases"]:
        if tuple(c["path"]) == tuple(path):
            return c
    return None


def check_regions(run, rule, cfg, root, res, spec, probes, where=None, exact_paths=True):
    """spec: {variant path tuple: {probe name: expected IS}}; probes: {name: selector}.
    Region equality per listed probe; every listed path must exist; with exact_paths every
    returned path must be listed (a new error kind is looked at, not silently accepted)."""
    n = 0
    if res is None:
        run.obligation(False)
        run.finding("ANCHOR-MISSING", "%s|%s" % (cfg, root), "anchor function %s not found" % root)
        return 0
    have = {tuple(c["path"]) for c in res["cases"]}
    for path, fields in spec.items():
        c = find_case(res, path)
        if c is None:
            run.obligation(False)
            run.finding(rule, "%s|%s|%s|missing" % (cfg, root, "/".join(path)), "%s never returns %s (expected by the specification)" % (root, "/".join(path)), where)
            continue
        for name, want in fields.items():
            n += 1
            got = accept.region(res["I"], c, res["args"], probes[name])
            ok = got is not None and got == want
            run.obligation(ok)
            run.sample({"rule": rule, "function": root, "case": "/".join(path), "input": name, "region": fmt(got), "expected": fmt(want), "verdict": "equal" if ok else "DIFFERENT"})
            if not ok:
                if got is None:
                    why = "is not tracked"
                elif D.subset(got, want):
                    why = "is narrower than specified: inputs in %s are not handled as specified (valid input refused / other outcome)" % fmt(D.meet(want, D.complement(got, D.join(got, want)))) if got else "is empty"
                elif D.subset(want, got):
                    why = "is wider than specified: inputs in %s are also accepted into this case" % fmt(D.meet(got, D.complement(want, D.join(got, want))))
                else:
                    why = "differs from the specification"
                run.finding(rule, "%s|%s|%s|%s" % (cfg, root, "/".join(path), name), "%s: case %s: region of `%s` is %s, specification says %s — it %s" % (root, "/".join(path), name, fmt(got), fmt(want), why), where)
    if exact_paths:
        for p in sorted(have - set(spec)):
            run.obligation(False)
            run.finding(rule, "%s|%s|%s|unspecified" % (cfg, root, "/".join(p)), "%s returns %s, which the specification table does not list" % (root, "/".join(p)), where)
    return n


def refine_args(constraints):
    """make_args hook: constraints {selector: IS} applied to the top arguments (a box theorem)."""
    def hook(I, S, inst, args):
        for sel, iv in constraints.items():
            s = accept.arg_sym(I, S, args, sel)
            if s is not None:
                S.refine(s, iv)
        return args
    return hook
