"""C07 — no panic, overflow, out-of-bounds access, unbounded loop or unbounded allocation.

Every MIR assert (overflow / division / bounds, built with -Coverflow-checks=on), every panic call,
every panicking-std-API precondition, every narrowing cast, every loop and every capacity request
reachable from a public entry point is an obligation discharged by the abstract interpreter (E-AI)
under the invariant table, or listed under a lemma.  See DESIGN §3, §5/C07."""
from .. import efx
from ..ai import lemmas, pipeline
from ..report import CheckerError, Run
from .common import fixture_facts, get_facts

EXPLANATION = (
    "Forward abstract interpretation (finite unions of intervals per symbol + value numbering + linear facts "
    "e<=0 with Houdini-style inference at joins + conditional refinements attached to enum variants) over the "
    "monomorphic MIR of every function reachable from outside the crate, callees analysed in the caller's "
    "context, std callees through an explicit model table (an unmodelled callee is a finding). Inputs are top of "
    "their type constrained by the invariant table (assume side); every value a root returns or stores through "
    "&mut satisfies the table again (guarantee side, rule INV), so the table is inductive over the API. "
    "Obligations: ASSERT (each MIR assert of the overflow-checked build: proving them rules out both the panic "
    "and, in unchecked builds, the wrap-around), PANIC-CALL (state must be unreachable), PRE (documented panic "
    "conditions of unwrap / slice range index / chunks_exact(0) / swap / abs(MIN) / capacity overflow), NARROW "
    "(value-changing `as` casts), LOOP (finite iterator or strictly decreasing non-negative measure), REC (acyclic "
    "call graph), ALLOC (capacity paid for by input bytes), CALLBACK (environment calls only through "
    "capability-typed values), UNMODELLED. Verdicts are taken at the fixpoint of each activation. Sites covered "
    "by a lemma row are counted as by_lemma, never as discharged."
)


def scc_cycles(facts):
    """REC: cycles in the resolved call graph over monomorphic instances (direct calls and reified fn values)."""
    g = {}
    for inst in facts.instances:
        outs = set()
        for b in inst["body"]["blocks"]:
            t = b["term"]
            if t["k"] == "call" and t["f"]["k"] == "item":
                r = t["f"]["resolved"] or t["f"]["declared"]
                if "inst" in r:
                    outs.add(r["inst"])
                if "shim_inst" in r:
                    outs.add(r["shim_inst"])
            for st in b["stmts"]:
                if st["k"] == "assign":
                    rv = st["rv"]
                    if rv["k"] == "aggregate" and rv.get("ak") == "closure" and "inst" in rv:
                        outs.add(rv["inst"])
                    if rv["k"] == "cast" and isinstance(rv.get("target"), dict) and "inst" in rv["target"]:
                        outs.add(rv["target"]["inst"])
        g[inst["id"]] = outs
    # Tarjan
    index, low, on, stack, out = {}, {}, set(), [], []
    counter = [0]

    def strong(v):
        work = [(v, iter(g.get(v, ())))]
        index[v] = low[v] = counter[0]
        counter[0] += 1
        stack.append(v)
        on.add(v)
        while work:
            node, it = work[-1]
            adv = False
            for w in it:
                if w not in index:
                    index[w] = low[w] = counter[0]
                    counter[0] += 1
                    stack.append(w)
                    on.add(w)
                    work.append((w, iter(g.get(w, ()))))
                    adv = True
                    break
                elif w in on:
                    low[node] = min(low[node], index[w])
            if adv:
                continue
            work.pop()
            if work:
                low[work[-1][0]] = min(low[work[-1][0]], low[node])
            if low[node] == index[node]:
                comp = []
                while True:
                    w = stack.pop()
                    on.discard(w)
                    comp.append(w)
                    if w == node:
                        break
                if len(comp) > 1 or node in g.get(node, ()):
                    out.append(comp)

    for v in g:
        if v not in index:
            strong(v)
    return out, len(g)


def evaluate(run, facts, cfg, res, lemma_budget=True):
    """Turn one pipeline result into obligations / findings of `run`. Returns per-config stats."""
    names = set(res["instance_names"])
    failing = [o for o in res["obligations"] if o["n_fail"]]
    by_lemma, remaining, anchors = lemmas.classify(failing, names, facts)
    for a in anchors:
        run.finding("ANCHOR-MISSING", "%s|%s" % (cfg, a), a)
    n_ok = 0
    kinds = {}
    for o in res["obligations"]:
        k = o["kind"].split(":")[0]
        kinds.setdefault(k, [0, 0])
        kinds[k][0] += 1
        if not o["n_fail"]:
            kinds[k][1] += 1
            n_ok += 1
            run.obligation(True)
    for o, row in by_lemma:
        run.obligation(True, lemma=True)
    for o in remaining:
        run.obligation(False)
        rule = o["kind"].split(":")[0]
        info = o["fail"][0] if o["fail"] else {}
        run.finding(rule, "%s|%s|%s|%s" % (cfg, o["inst"], o["kind"], o["detail"]), "%s not discharged in %s (context: %s) state: %s" % (o["kind"], o["inst"], info.get("context"), str(info.get("state"))[:600]), o["where"], info)
    # analysis errors: fail closed
    for name, err in res["errors"]:
        run.obligation(False)
        run.finding("UNANALYSED", "%s|%s" % (cfg, name), "the analysis could not cover root %s: %s" % (name, err[:300]))
    for kind, msg, where, ctx in res["notes"]:
        if kind in ("UNMODELLED", "ANCHOR-MISSING", "CALLBACK"):
            run.obligation(False)
            run.finding(kind, "%s|%s" % (cfg, msg[:160]), "%s (context: %s)" % (msg, ctx), where)
    # INV
    n_inv = 0
    for c in res["inv"]:
        if c.get("ok"):
            n_inv += c["checked"]
            run.obligation(True, n=max(1, c["checked"]))
        else:
            run.obligation(False)
            run.finding("INV", "%s|%s|%s|%s" % (cfg, c["root"], c["type"], c["problem"].split(" ∈")[0].split(" not")[0]), "root %s hands out a %s violating its invariant at %s: %s" % (c["root"], c["type"], c["where"], c["problem"]))
    # LOOP
    n_loops = 0
    for l in res["loops"]:
        n_loops += 1
        run.obligation(l["ok"])
        if not l["ok"]:
            run.finding("LOOP", "%s|%s|loop%s" % (cfg, l["function"], l["loop"]), "loop %s of %s is not bounded: %s" % (l["loop"], l["function"], l["why"]), l["where"])
    # REC
    cycles, n_nodes = scc_cycles(facts)
    run.obligation(not cycles)
    by_id = {i["id"]: i["name"] for i in facts.instances}
    for comp in cycles:
        run.finding("REC", "%s|%s" % (cfg, "+".join(sorted(by_id[c] for c in comp))[:300]), "recursion: " + " <-> ".join(by_id[c] for c in comp))
    # CALLBACK (fn-pointer / virtual calls only through capability-typed values)
    cb = Run("C07", "quick", "other")
    fx = efx.check_effects(cb, facts, cfg)
    for fnd in cb.findings:
        if fnd.rule == "FX-CALLBACK":
            run.obligation(False)
            run.finding("CALLBACK", fnd.key, fnd.message, fnd.where)
    run.obligation(True, n=fx["fnptr_calls"] + fx["virtual_calls"])
    # unreached sites (dead under the invariants) and sites in instances never entered
    reached = {(o["inst"], o["kind"], o["detail"]) for o in res["obligations"]}
    analysed = set(res["analysed_instances"])
    unreached = uncovered = 0
    uncovered_fns = set()
    for inst, kind, detail, where in res["static_sites"]:
        if (inst, kind, detail) in reached:
            continue
        if inst in analysed:
            unreached += 1
        else:
            uncovered += 1
            uncovered_fns.add(inst)
    st = res["static"]
    stats = {
        "roots": res["stats"]["roots"], "activations": res["stats"]["activations"], "instances": st["instances"], "assert_sites": st["assert"], "assert_kinds": st["assert_kinds"],
        "casts": st["casts"], "panic_call_sites": st["panic_calls"], "fnptr_calls": st["fnptr_calls"], "obligation_sites_reached": len(res["obligations"]), "discharged_sites": n_ok,
        "by_lemma": [{"site": "%s %s %s" % (o["inst"], o["kind"], o["detail"]), "lemma": row["id"]} for o, row in by_lemma], "by_kind": {k: {"sites": v[0], "discharged": v[1]} for k, v in kinds.items()},
        "inv_values_checked": n_inv, "loops": n_loops, "callgraph_nodes": n_nodes, "unreached_sites_in_analysed_functions": unreached, "sites_in_functions_never_entered": uncovered,
        "functions_never_entered": sorted(uncovered_fns)[:40], "forall_established": res["forall"][:6], "contract_uses": res["contracts"], "lemma_uses": res["lemma_uses"], "ai_wall_s": res["wall_s"], "cache_hit": res.get("cache_hit", False),
    }
    return stats


def check(run, tier):
    configs = ["std"] if tier == "quick" else ["std", "alloc", "nofeat", "alloc32"]
    facts = get_facts(run, configs)
    per = {}
    for cfg in configs:
        res = pipeline.run_pipeline(facts[cfg])
        per[cfg] = evaluate(run, facts[cfg], cfg, res)
    s = per["std"]
    # floors: about two thirds of what was counted by hand on the pinned tree (379 asserts, 47 PRE sites, 6 capacity
    # requests, 13 narrowing casts, 24 loops, 2 reader calls, 321 invariant values): a clean-up that merges call sites or
    # replaces loops by iterator chains must not trip them, an analysis that silently sees half the crate must
    run.floor("std.assert_sites", s["assert_sites"], 250)
    run.floor("std.casts", s["casts"], 55)
    run.floor("std.instances", s["instances"], 220)
    run.floor("std.roots", s["roots"], 110)
    run.floor("std.obligation_sites_reached", s["obligation_sites_reached"], 300)
    run.floor("std.PRE_sites", s["by_kind"].get("PRE", {"sites": 0})["sites"], 25)
    run.floor("std.ALLOC_sites", s["by_kind"].get("ALLOC", {"sites": 0})["sites"], 3)
    run.floor("std.NARROW_sites", s["by_kind"].get("NARROW", {"sites": 0})["sites"], 7)
    run.floor("std.loops", s["loops"], 12)
    run.floor("std.fnptr_calls", s["fnptr_calls"], 1)
    run.floor("std.inv_values_checked", s["inv_values_checked"], 200)
    run.extra["per_config"] = per
    run.extra["functions_analysed"] = s["instances"]
    run.extra["lemmas"] = [{k: r[k] for k in ("id", "function", "kind", "max_n", "cannot", "holds")} for r in lemmas.LEMMAS]
    run.extra["trusted_contract"] = lemmas.CONTRACTS["text"]

    # positive controls on the fixture crate
    ff = fixture_facts()
    from ..ai import run as airun

    roots = [i for i in airun.roots_of(ff) if "::ai::" in i["name"]]
    obls, notes, errs, col, stats = airun.analyse_parallel(ff, None, roots, jobs=8)
    side = stats.pop("side")
    failed = {(o["inst"].rsplit("::", 1)[1], o["kind"].split(":")[0]) for o in obls.values() if o["fail"]}
    okd = {(o["inst"].rsplit("::", 1)[1], o["kind"].split(":")[0]) for o in obls.values() if not o["fail"]}
    loops = {k[0].rsplit("::", 1)[1]: v[0] for k, v in side["loops"].items()}
    run.control("ASSERT bounds (bad_index)", ("bad_index", "ASSERT") in failed and ("ok_index", "ASSERT") in okd and ("ok_index", "ASSERT") not in failed)
    run.control("ASSERT overflow (bad_add)", ("bad_add", "ASSERT") in failed and ("ok_add", "ASSERT") not in failed)
    run.control("ASSERT div-by-zero (bad_div)", ("bad_div", "ASSERT") in failed)
    run.control("PRE unwrap (bad_unwrap)", ("bad_unwrap", "PRE") in failed and ("ok_unwrap", "PRE") not in failed)
    run.control("PRE range index (bad_range)", ("bad_range", "PRE") in failed and ("ok_range", "PRE") not in failed)
    run.control("FORALL over a shrinking slice (bad_shrink skips elements)", ("bad_shrink", "ASSERT") in failed and ("ok_shrink", "ASSERT") in okd and ("ok_shrink", "ASSERT") not in failed)
    run.control("PANIC-CALL (bad_unreachable)", ("bad_unreachable", "PANIC-CALL") in failed and ("ok_unreachable", "PANIC-CALL") not in failed)
    run.control("ALLOC (bad_alloc)", ("bad_alloc", "ALLOC") in failed and ("ok_alloc", "ALLOC") in okd)
    run.control("NARROW (bad_narrow)", ("bad_narrow", "NARROW") in failed and ("ok_narrow", "NARROW") in okd)
    run.control("UNMODELLED (bad_unmodelled)", ("bad_unmodelled", "UNMODELLED") in failed)
    run.control("LOOP (bad_loop)", loops.get("bad_loop") is False and loops.get("ok_loop") is True)
    cyc, _ = scc_cycles(ff)
    run.control("REC (bad_rec)", any(True for c in cyc) and any("bad_rec" in e[0] for e in errs))

    run.trusted += [
        "rustc MIR construction with -Coverflow-checks=on (every arithmetic overflow, division and index is an explicit Assert terminator) and tzmir's serialisation",
        "the std model table (tzverif/ai/models*.py): each transformer / precondition transcribes the documented behaviour of a core/alloc function; std itself is not analysed",
        "slice lengths are <= isize::MAX / size_of::<T>() (language guarantee); user callbacks (ReadFileFn, dyn Error) do not panic and terminate; memory exhaustion beyond the ALLOC rule is out of scope",
        "soundness of the abstract interpreter (forward analysis with widening; entailment is incomplete, never unsound by design); exercised on every run by the positive controls",
        "lemma rows: " + "; ".join("%s (%s in %s)" % (r["id"], r["kind"], r["function"]) for r in lemmas.LEMMAS),
        "trusted contract: " + lemmas.CONTRACTS["text"],
    ]
    run.assumptions += ["inputs of crate types satisfy the invariant table (proven for every value the API hands out: rule INV)", "32-bit targets are analysed in the thorough tier only (alloc feature set, build-std)"]
    run.explanation = EXPLANATION
    for cfg, st in per.items():
        run.sample({"config": cfg, "sites_reached": st["obligation_sites_reached"], "discharged": st["discharged_sites"], "by_lemma": st["by_lemma"], "by_kind": st["by_kind"]})
    # a few concrete obligations
    res = pipeline.run_pipeline(facts["std"])
    for o in res["obligations"][:400]:
        if o["inst"].endswith("days_since_unix_epoch") or o["inst"].endswith("read_exact") or "DataBlocks::<'_, 8>::parse" in o["inst"]:
            run.sample({"obligation": o["kind"], "function": o["inst"], "site": o["detail"], "where": o["where"], "contexts": o["contexts"], "verdict": "discharged" if not o["n_fail"] else "open"})
