"""C09 (clauses) — POSIX TZ string decoding: numeric limits of every component in both extension
modes, the extension mode actually gating signed / >24h times, the designation and day-notation
domains, and complete match (no trailing characters).  NOT decided: that a given sentence maps to
the right rule (sign of a particular offset, the 02:00:00 default inside the window, which name goes
where) — value level."""
from ..ai import accept
from ..ai import domain as D
from ..ai.values import Arr, Enum, Scalar, Struct
from ..epath import CFG
from .accept_common import check_regions, fmt, refine_args
from .common import get_facts

ALPHABET0 = D.norm([(0, 0), (43, 43), (45, 45), (48, 57), (65, 90), (97, 122)])
OFF = D.rng(-89999, 89999)  # hh <= 24, mm, ss <= 59: 24:59:59 = 89999 s, either sign
DST_OFF = D.rng(-89999, 93599)  # a missing DST offset means one hour ahead of standard
TIME_POSIX = D.rng(0, 89999)
TIME_EXT = D.rng(-604799, 604799)  # RFC 8536 §3.3.1: -167 <= hh <= 167 -> 167:59:59 = 604799 s

EXPLANATION = (
    "RANGE: the string parser is discovered by signature ((&[u8], bool) -> Result<TransitionRule, TzError>) and "
    "analysed twice, with the extension flag fixed to false and to true (each box = all byte strings). The abstract "
    "value returned on the Ok path is compared with the specification: Fixed{ut_offset in [-89999, 89999], is_dst = "
    "false}; Alternate{std.ut_offset in [-89999, 89999], is_dst false; dst.ut_offset in [-89999, 93599], is_dst true; "
    "both times in [0, 89999] without extensions and in [-604799, 604799] with extensions}; day notations J in "
    "[1,365], zero-based in [0,365], M month 1-12 / week 1-5 / weekday 0-6; designation buffers: length 3-7 and every "
    "byte in [0-9A-Za-z+-] (exact 64-value set). COMPLETE: every block assigning `_0 = Ok(..)` in the parser is "
    "dominated by the 'empty' edge of an is_empty() test of the cursor, and no call receiving `&mut cursor` is "
    "reachable after that edge. DAYS: accept regions of Julian1WithoutLeap::new, Julian0WithLeap::new, MonthWeekDay::new."
)


def find_parser(f):
    out = []
    for inst in f.instances:
        if inst.get("closure"):
            continue
        body = inst["body"]
        ins = [f.ty_canon(body["locals"][i + 1]["ty"]) for i in range(body["arg_count"])]
        o = f.ty_canon(body["locals"][0]["ty"])
        if ins == ["&[u8]", "bool"] and o == "core::result::Result<tz::timezone::rule::TransitionRule, tz::error::TzError>":
            out.append(inst)
    return out


def ivs(S, v):
    return S.ivof(v.sym) if isinstance(v, Scalar) else None


def check_ltt(run, cfg, mode, S, ltt, name, want_off, want_dst, where):
    n = 0
    problems = []
    if not (isinstance(ltt, Struct) and len(ltt.fields) == 3):
        problems.append("not a tracked LocalTimeType")
    else:
        off, dst, des = ltt.fields
        if ivs(S, off) != want_off:
            problems.append("ut_offset in %s, specification %s" % (fmt(ivs(S, off)), fmt(want_off)))
        if ivs(S, dst) != D.point(want_dst):
            problems.append("is_dst in %s, specification {%d}" % (fmt(ivs(S, dst)), want_dst))
        n += 2
        if isinstance(des, Enum):
            for vn, fs in des.variants.items():
                if vn == "Some":
                    a = fs[0].fields[0] if isinstance(fs[0], Struct) and fs[0].fields else None
                    if not (isinstance(a, Arr) and len(a.elems) == 8):
                        problems.append("designation buffer not tracked")
                    else:
                        n += 2
                        if ivs(S, a.elems[0]) != D.rng(3, 7):
                            problems.append("designation length in %s, specification [3,7]" % fmt(ivs(S, a.elems[0])))
                        for e in a.elems[1:]:
                            if ivs(S, e) is None or not D.subset(ivs(S, e), ALPHABET0) or not D.subset(D.remove_point(ALPHABET0, 0), ivs(S, e)):
                                problems.append("designation byte in %s, specification [0-9A-Za-z+-] (or 0 padding)" % fmt(ivs(S, e)))
                                break
        else:
            problems.append("designation not tracked")
    for p in problems:
        run.finding("RANGE", "%s|ext=%d|%s|%s" % (cfg, mode, name, p.split(" in ")[0]), "TZ string parser, extensions %s: %s: %s" % ("on" if mode else "off", name, p), where)
    run.obligation(not problems, n=max(n, 1))
    return n


def check_day(run, cfg, mode, S, v, name, where):
    want = {"Julian1WithoutLeap": [D.rng(1, 365)], "Julian0WithLeap": [D.rng(0, 365)], "MonthWeekDay": [D.rng(1, 12), D.rng(1, 5), D.rng(0, 6)]}
    ok = isinstance(v, Enum) and set(v.variants) == set(want)
    n = 0
    if ok:
        for vn, fs in v.variants.items():
            Sk = S
            d = v.when.get(vn)
            if d is not None:
                Sk = S.copy()
                Sk.apply_delta(d)
            inner = fs[0]
            got = [ivs(Sk, x) for x in inner.fields] if isinstance(inner, Struct) else None
            n += len(want[vn])
            if got != want[vn]:
                ok = False
                run.finding("RANGE", "%s|ext=%d|%s|%s" % (cfg, mode, name, vn), "TZ string parser: %s %s has fields in %s, specification %s" % (name, vn, [fmt(g) for g in got] if got else got, [fmt(w) for w in want[vn]]), where)
    else:
        run.finding("RANGE", "%s|ext=%d|%s|variants" % (cfg, mode, name), "TZ string parser: %s does not have exactly the three day notations" % name, where)
    run.obligation(ok, n=max(n, 1))
    return n


def complete_rule(run, cfg, inst):
    cf = CFG(inst)
    blocks = cf.blocks
    # the cursor: the local most often borrowed mutably and handed to callees
    cnt = {}
    mutrefs = {}
    for b in blocks:
        for st in b["stmts"]:
            if st["k"] == "assign" and st["rv"]["k"] == "ref" and st["rv"].get("bk") == "mut" and not st["rv"]["place"]["p"] and not st["place"]["p"]:
                cnt[st["rv"]["place"]["l"]] = cnt.get(st["rv"]["place"]["l"], 0) + 1
                mutrefs[st["place"]["l"]] = st["rv"]["place"]["l"]
    if not cnt:
        return False, "no cursor found"
    C = max(cnt, key=cnt.get)

    def derives(local, depth=0):
        if local == C:
            return True
        if depth > 6:
            return False
        for b in blocks:
            for st in b["stmts"]:
                if st["k"] == "assign" and st["place"]["l"] == local and not st["place"]["p"]:
                    rv = st["rv"]
                    src = None
                    if rv["k"] == "use":
                        src = rv["op"].get("c") or rv["op"].get("m")
                    elif rv["k"] == "ref":
                        src = rv["place"]
                    if src is not None and derives(src["l"], depth + 1):
                        return True
        return False

    empties = []
    for bi, t, callee in cf.calls():
        if callee is not None and callee["def"].endswith("::is_empty") and t["args"]:
            pl = t["args"][0].get("m") or t["args"][0].get("c")
            if pl is not None and derives(pl["l"]):
                holders = cf.copies_of(t["dest"]["l"])
                for i, b in enumerate(blocks):
                    tt = b["term"]
                    if tt["k"] == "switch":
                        op = tt["op"].get("m") or tt["op"].get("c")
                        if op is not None and op["l"] in holders:
                            zero = [c[1] for c in tt["cases"] if c[0] == 0]
                            one = [c[1] for c in tt["cases"] if c[0] == 1] or ([tt["otherwise"]] if zero else [])
                            empties.extend(one)
    oks = cf.ok_return_blocks()
    if not oks or not empties:
        return False, "Ok blocks %s, emptiness edges %s" % (oks, empties)

    def consumes(bi):
        t = blocks[bi]["term"]
        if t["k"] != "call":
            return False
        for a in t["args"]:
            pl = a.get("m") or a.get("c")
            if pl is not None and not pl["p"] and mutrefs.get(pl["l"]) == C:
                return True
        return False

    for b in oks:
        doms = [e for e in empties if cf.dominated_by(b, e)]
        if not doms:
            return False, "Ok in bb%d is not dominated by an emptiness test of the cursor" % b
        # no consumption between the emptiness edge and the return
        good = False
        for e in doms:
            reach = cf.reachable_from([e])
            if not any(consumes(x) for x in reach):
                good = True
        if not good:
            return False, "the cursor is read again after the emptiness test guarding the Ok in bb%d" % b
    return True, "cursor _%d; %d Ok returns, each dominated by an emptiness edge with no later read" % (C, len(oks))


def complete_semantic(f, inst):
    """Idiom-independent form of the complete-match rule (abstract interpreter): the input slice is marked, every
    rest split off it inherits the mark; in every Ok case of the parser some local of the parser holding a marked
    slice (the cursor) has length 0, i.e. nothing is left unread when Ok is returned."""
    from ..ai.accept import variant_cases
    from ..ai.exec import Exec
    from ..ai.invariants import INVARIANTS
    from ..ai.models import M
    from ..ai.values import Enum, Ref, Seq

    def mk(I, S, inst_, args):
        a0 = args[0]
        if isinstance(a0, Ref) and a0.cell is not None:
            v0 = I.read(S, a0.cell, a0.path, ("c09mark",))
            if isinstance(v0, Seq):
                I.write(S, a0.cell, a0.path, Seq(v0.kind, v0.len, v0.elem, v0.efacts, v0.data, v0.prov | frozenset([("cursor",)])), ("c09markw",))
        return args

    seen = {"ok_sites": 0, "bad": []}

    def hook(ev, **kw):
        # every assignment of the parser's own return value, in the straight-line state where it happens
        if ev != "ret_assign":
            return None
        v, S, frame_, I_ = kw["value"], kw["state"], kw["frame"], kw["interp"]
        if not (isinstance(v, Enum) and "Ok" in v.variants):
            return None
        T = S
        d = v.when.get("Ok")
        if d is not None:
            T = S.copy()
            T.apply_delta(d)
            if T.dead:
                return None
        seen["ok_sites"] += 1
        lens = []
        for c, x in T.cells.items():
            if isinstance(c, tuple) and len(c) == 2 and c[0] == frame_ and isinstance(c[1], int) and c[1] > inst["body"]["arg_count"] and isinstance(x, Ref) and x.cell is not None:
                q = I_.read(T, x.cell, x.path, ("c09cur",))
                if isinstance(q, Seq) and ("cursor",) in q.prov:
                    lens.append(T.ivof(q.len))
        if not any(iv == D.point(0) for iv in lens):
            seen["bad"].append([D.fmt(x) for x in lens])
        return None

    I = Exec(f, M, INVARIANTS)
    I.keep_root_locals = True
    I.hooks.append(hook)
    R, frame, args = I.analyse_root(inst, mk)
    if R is None:
        return False, "parser has no return state"
    if seen["ok_sites"] == 0:
        return False, "no assignment of an Ok return value observed"
    if seen["bad"]:
        return False, "the parser's return value is set to Ok while no local holding a rest of the input is proven empty (remaining lengths %s)" % (seen["bad"][:2],)
    return True, "%d assignment(s) of an Ok return value, each in a state where a marked rest of the input held by the parser has length 0" % seen["ok_sites"]


def check(run, tier):
    configs = ["std"] if tier == "quick" else ["std", "alloc"]
    facts = get_facts(run, configs)
    total = 0
    for cfg in configs:
        f = facts[cfg]
        ps = find_parser(f)
        if len(ps) != 1:
            run.obligation(False)
            run.finding("ANCHOR-MISSING", "%s|string-parser" % cfg, "expected exactly one function (&[u8], bool) -> Result<TransitionRule, TzError>, found %d" % len(ps))
            continue
        parser = ps[0]
        where = parser.get("span")
        for mode in (0, 1):
            res = accept.analyse(f, parser["name"], make_args=refine_args({(1,): D.point(mode)}))
            paths = {tuple(c["path"]) for c in res["cases"]}
            ok = ("Ok", "Fixed") in paths and ("Ok", "Alternate") in paths
            run.obligation(ok)
            if not ok:
                run.finding("RANGE", "%s|ext=%d|cases" % (cfg, mode), "the parser does not return both Fixed and Alternate rules (cases: %s)" % sorted(paths), where)
                continue
            for c in res["cases"]:
                S = c["state"]
                if tuple(c["path"]) == ("Ok", "Fixed"):
                    total += check_ltt(run, cfg, mode, S, c["payload"][0], "Fixed", OFF, 0, where)
                elif tuple(c["path"]) == ("Ok", "Alternate"):
                    alt = c["payload"][0]
                    if not (isinstance(alt, Struct) and len(alt.fields) == 6):
                        run.obligation(False)
                        run.finding("RANGE", "%s|ext=%d|alternate" % (cfg, mode), "Alternate payload not tracked", where)
                        continue
                    std, dst, d1, t1, d2, t2 = alt.fields
                    total += check_ltt(run, cfg, mode, S, std, "Alternate.std", OFF, 0, where)
                    total += check_ltt(run, cfg, mode, S, dst, "Alternate.dst", DST_OFF, 1, where)
                    want = TIME_EXT if mode else TIME_POSIX
                    for nm, tv in (("dst_start_time", t1), ("dst_end_time", t2)):
                        total += 1
                        okt = ivs(S, tv) == want
                        run.obligation(okt)
                        run.sample({"rule": "RANGE", "extensions": bool(mode), "field": nm, "region": fmt(ivs(S, tv)), "expected": fmt(want)})
                        if not okt:
                            run.finding("RANGE", "%s|ext=%d|%s" % (cfg, mode, nm), "TZ string parser, extensions %s: %s in %s, specification %s" % ("on" if mode else "off", nm, fmt(ivs(S, tv)), fmt(want)), where)
                    total += check_day(run, cfg, mode, S, d1, "dst_start", where)
                    total += check_day(run, cfg, mode, S, d2, "dst_end", where)
        okc, why = complete_rule(run, cfg, parser)
        oks2, why2 = complete_semantic(f, parser)
        why = "dominance: %s; abstract interpreter: %s" % (why, why2)
        # the rule holds if either form proves it (the dominance form is tied to one function's shape, the
        # semantic form to the interpreter's precision); both are sound, so one is enough
        okc = okc or oks2
        run.obligation(okc)
        run.sample({"rule": "COMPLETE", "function": parser["name"], "verdict": why})
        if not okc:
            run.finding("COMPLETE", "%s|complete" % cfg, "complete-match rule fails for %s: %s" % (parser["name"], why), where)
        # DAYS
        for root, spec, probes in (
            ("tz::timezone::rule::Julian1WithoutLeap::new", {("Ok",): {"day": D.rng(1, 365)}, ("Err", "InvalidRuleDayJulianDay"): {"day": D.norm([(0, 0), (366, 65535)])}}, {"day": (0,)}),
            ("tz::timezone::rule::Julian0WithLeap::new", {("Ok",): {"day": D.rng(0, 365)}, ("Err", "InvalidRuleDayJulianDay"): {"day": D.rng(366, 65535)}}, {"day": (0,)}),
            ("tz::timezone::rule::MonthWeekDay::new", {("Ok",): {"month": D.rng(1, 12), "week": D.rng(1, 5), "week_day": D.rng(0, 6)}, ("Err", "InvalidRuleDayMonth"): {"month": D.norm([(0, 0), (13, 255)])}, ("Err", "InvalidRuleDayWeek"): {"month": D.rng(1, 12), "week": D.norm([(0, 0), (6, 255)])}, ("Err", "InvalidRuleDayWeekDay"): {"week": D.rng(1, 5), "week_day": D.rng(7, 255)}}, {"month": (0,), "week": (1,), "week_day": (2,)}),
        ):
            total += check_regions(run, "DAYS", cfg, root, accept.analyse(f, root), spec, probes, f.item_by_path.get(root, {}).get("span"))
    run.rule("RANGE+COMPLETE+DAYS", total)
    run.floor("regions_compared", total, 50)
    run.trusted += ["E-AI (see C07)", "limits transcribed from POSIX (hh <= 24, mm, ss <= 59) and RFC 8536 §3.3.1 (-167 <= hh <= 167)"]
    run.explanation = EXPLANATION
    run.extra["not_decided"] = ["sign of a particular offset (the range is symmetric)", "the 02:00:00 default (inside the window)", "which designation goes to which half", "quoted vs alphabetic name syntax"]
