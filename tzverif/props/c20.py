"""C20 (clauses) — TZ value resolution: which files may be asked for, with which names, in which
order relative to the string decoder.  Decided on TimeZoneSettings::parse_posix_tz / parse_local by
an interprocedural origin analysis (E-FLOW, tzverif/oflow.py), CFG path rules on the entry point
and one box theorem of the abstract interpreter (empty value).  NOT decided: the value-level
content of the clauses (that trimming strips exactly ASCII whitespace; which error kind a failure
maps to beyond pass-through), directory order beyond "forward iteration, first hit"."""
from ..ai import domain as D
from ..ai.exec import Exec
from ..ai.invariants import INVARIANTS
from ..ai.models import M
from ..ai.models3 import EXACT_ON_FIRST_BYTE
from ..ai.values import Enum, Ref, Seq
from ..epath import CFG
from ..oflow import FAILURE_ARG, ROUTERS, OFlow, decode_fmt_template, flatten
from .c09 import find_parser
from .common import fixture_facts, get_facts

ROOT = "tz::timezone::TimeZoneSettings::<'_>::parse_posix_tz"
LOCAL = "tz::timezone::TimeZoneSettings::<'_>::parse_local"

EXPLANATION_PREFIX = (
    " PREFIX (box theorems on the entry point, abstract interpreter; the value is marked and its first byte fixed): "
    "for a value beginning with ':' no name handed to the reader directly is the whole value and the string decoder is "
    "unreachable; for a value beginning with '/' the only name handed to the reader directly is the whole value (never a "
    "part of it, a constant or a name built from a directory); for any other first byte no name handed to the reader "
    "directly is the value or a part of it. Three-valued: a refutation is reported only if every foreign function that "
    "was given (a part of) the value on the way is on the list of functions modelled exactly for the first byte "
    "(tzverif/ai/models3.py EXACT_ON_FIRST_BYTE) and none answered imprecisely; otherwise INCONCLUSIVE is printed and "
    "recorded, and nothing is reported."
)
EXPLANATION = (
    "READ = call through a function pointer (the injectable file reader); RESOLVE = READ or a crate function that may "
    "READ; PFILE = the TZif decoder ((&[u8]) -> Result<TimeZone, TzError>); PSTR = the string decoder (found by "
    "signature as in C09). E-FLOW computes for every value the set of origins it can be derived from (parameters, "
    "constants, results of READ / decoders / other calls), through crate functions and closures by summaries and "
    "through an explicit list of carrier functions (ok, map_err, ?, Deref, chars/as_str, format!, slice::iter + "
    "find_map); any other function is an origin of its own. Rules: SOURCES — the name given to every READ derives "
    "from nothing but the TZ parameter, the settings (directories), the constant \"/etc/localtime\" and a format "
    "template whose only literal is \"/\" (so no trimming, case folding, $TZDIR, extra directory, reversed or "
    "filtered directory list before a lookup); READ-SITES — every call through a reader-typed pointer in the crate "
    "lies in a function reached from the entry point; CONTENT — bytes returned by a READ reach only carriers and "
    "PFILE (nothing inspects a file's content to decide whether it counts: first readable file wins); PSTR-ARG — the "
    "string decoder gets the parameter, possibly through one str::trim* call applied to the parameter; EXT-OFF — its "
    "mode argument is the constant false; EMPTY (box theorem, abstract interpreter): with len(value) = 0 the entry "
    "point returns only Err and reaches no READ and no decoder; LITERAL — the READ of \"/etc/localtime\" is "
    "dominated by the true edge of the comparison of the parameter with \"localtime\", and no other RESOLVE is; "
    "ONE-RESOLUTION — no path has two RESOLVE sites (no fallback to a second lookup); NO-FALLBACK-AFTER-FILE — no "
    "path from a PFILE site to PSTR or RESOLVE; STR-ONLY-AFTER-FAILED-READ — every PSTR site is dominated by the "
    "failure edge of a RESOLVE that was given the whole parameter (a reborrow of it, not a suffix); JOIN-ORDER — "
    "when the name is built by format!, the template is {dir}/{value} in that order; LOCAL — parse_local (unix) has "
    "no effect except one call of the entry point with the constant \"localtime\"."
)


def ty_sig(f, inst):
    body = inst["body"]
    return [f.ty_canon(body["locals"][i + 1]["ty"]) for i in range(body["arg_count"])], f.ty_canon(body["locals"][0]["ty"])


def tz_sinks(f):
    pstr = {i["id"] for i in find_parser(f)}
    pfile = set()
    for inst in f.instances:
        if inst.get("closure"):
            continue
        ins, o = ty_sig(f, inst)
        if ins == ["&[u8]"] and o == "core::result::Result<tz::timezone::TimeZone, tz::error::TzError>":
            pfile.add(inst["id"])

    def is_sink(inst):
        if inst["id"] in pstr:
            return "PSTR"
        if inst["id"] in pfile:
            return "PFILE"
        return None

    return is_sink, pstr, pfile


def has_read(events):
    return any(e[0] == "PTRCALL" for e in flatten(events))


def reborrow_of(body, local, param):
    """True if `local` is the parameter itself through copies / reborrows only (single definitions)."""
    seen = set()
    while local != param:
        if local in seen:
            return False
        seen.add(local)
        defs = []
        for b in body["blocks"]:
            for st in b["stmts"]:
                if st["k"] == "assign" and st["place"]["l"] == local and not st["place"]["p"]:
                    defs.append(st["rv"])
            t = b["term"]
            if t["k"] == "call" and t["dest"]["l"] == local:
                return False
        if len(defs) != 1:
            return False
        rv = defs[0]
        if rv["k"] == "use":
            pl = rv["op"].get("c") or rv["op"].get("m")
        elif rv["k"] == "ref":
            pl = rv["place"]
        else:
            return False
        if pl is None or any(p != "deref" for p in pl["p"]):
            return False
        local = pl["l"]
    return True


IRRELEVANT = "irrelevant"  # chase: the place can only hold other variants than the one asked for


def chase(body, place, depth=0, facts=None):
    """Parameter a place is a (re)borrow / copy / tuple field / enum payload of, following definitions
    field-sensitively through tuple and enum aggregates; None if it is anything else (or ambiguous)."""
    if depth > 14:
        return None
    l = place["l"]
    proj = [p for p in place["p"] if p != "deref"]
    if 1 <= l <= body["arg_count"]:
        return l
    defs = []
    for b in body["blocks"]:
        for st in b["stmts"]:
            if st["k"] == "assign" and st["place"]["l"] == l and not st["place"]["p"]:
                defs.append(st["rv"])
        t = b["term"]
        if t["k"] == "call" and t["dest"]["l"] == l:
            r = (t["f"]["resolved"] or t["f"]["declared"]) if t["f"]["k"] == "item" else None
            if r is None or not t["args"]:
                return None
            # `?`: the Continue payload of Try::branch(x) is the Ok / Some payload of x
            if r["def"].endswith("::Try>::branch") and len(proj) >= 2 and isinstance(proj[0], dict) and proj[0].get("dc") == "Continue":
                q = t["args"][0].get("c") or t["args"][0].get("m")
                if q is None:
                    return None
                okv = "Some" if "option::Option" in r["def"] else "Ok"
                return chase(body, {"l": q["l"], "p": list(q["p"]) + [{"dc": okv}] + proj[1:]}, depth + 1, facts)
            # a crate function: what it returns (every `_0 = ..` must agree), mapped back to this call's arguments
            if facts is not None and r.get("local") and "inst" in r:
                callee = facts.instances[r["inst"]]
                if callee.get("body") is None or callee.get("closure"):
                    return None
                k = chase(callee["body"], {"l": 0, "p": proj}, depth + 1, facts)
                if k == IRRELEVANT:
                    return IRRELEVANT
                if k is None or k - 1 >= len(t["args"]):
                    return None
                q = t["args"][k - 1].get("c") or t["args"][k - 1].get("m")
                return chase(body, q, depth + 1, facts) if q is not None else None
            return None
    if not defs:
        return None
    plain = len(defs) == 1 and (defs[0]["k"] == "ref" or (defs[0]["k"] == "use" and ("c" in defs[0]["op"] or "m" in defs[0]["op"])))
    if not plain and proj and isinstance(proj[0], dict) and "dc" in proj[0]:
        # payload of an enum variant: every construction of *that* variant must agree; constructions of other
        # variants (and unit-variant constants) are not what the downcast looks at
        want = proj[0]["dc"]
        aggs = [rv for rv in defs if rv["k"] == "aggregate" and rv.get("variant") == want]
        others = [rv for rv in defs if not (rv["k"] == "aggregate" and rv.get("variant")) and not (rv["k"] == "use" and "k" in rv["op"])]
        if others or len(proj) < 2 or not (isinstance(proj[1], dict) and "f" in proj[1]):
            return None
        if not aggs:
            return IRRELEVANT
        res = set()
        for rv in aggs:
            if proj[1]["f"] >= len(rv["ops"]):
                return None
            q = rv["ops"][proj[1]["f"]]
            q = q.get("c") or q.get("m")
            if q is None:
                res.add(IRRELEVANT if proj[2:] else None)
                continue
            res.add(chase(body, {"l": q["l"], "p": list(q["p"]) + proj[2:]}, depth + 1, facts))
        res.discard(IRRELEVANT)
        if not res:
            return IRRELEVANT
        return res.pop() if len(res) == 1 else None
    if len(defs) != 1:
        return None
    rv = defs[0]
    if rv["k"] == "use":
        q = rv["op"].get("c") or rv["op"].get("m")
        if q is None:
            return None
        return chase(body, {"l": q["l"], "p": list(q["p"]) + proj}, depth + 1, facts)
    if rv["k"] == "ref":
        q = rv["place"]
        return chase(body, {"l": q["l"], "p": list(q["p"]) + proj}, depth + 1, facts)
    if rv["k"] == "aggregate" and not rv.get("variant") and proj and isinstance(proj[0], dict) and "f" in proj[0] and proj[0]["f"] < len(rv["ops"]):
        q = rv["ops"][proj[0]["f"]]
        q = q.get("c") or q.get("m")
        if q is None:
            return None
        return chase(body, {"l": q["l"], "p": list(q["p"]) + proj[1:]}, depth + 1, facts)
    return None


def producer_call(f, body, local, depth=0):
    """The call to a crate function whose (Ok / Some payload of the) result the local holds, through plain copies
    and `?`; returns (callee instance, call terminator) or None."""
    if depth > 8:
        return None
    defs = []
    for b in body["blocks"]:
        for st in b["stmts"]:
            if st["k"] == "assign" and st["place"]["l"] == local and not st["place"]["p"]:
                defs.append(st["rv"])
        t = b["term"]
        if t["k"] == "call" and t["dest"]["l"] == local:
            r = (t["f"]["resolved"] or t["f"]["declared"]) if t["f"]["k"] == "item" else None
            if r is None:
                return None
            if r["def"].endswith("::Try>::branch") and t["args"]:
                q = t["args"][0].get("c") or t["args"][0].get("m")
                return producer_call(f, body, q["l"], depth + 1) if q is not None and not q["p"] else None
            if r.get("local") and "inst" in r and f.instances[r["inst"]].get("body") is not None:
                return f.instances[r["inst"]], t
            return None
    if len(defs) != 1 or defs[0]["k"] != "use":
        return None
    q = defs[0]["op"].get("c") or defs[0]["op"].get("m")
    if q is None:
        return None
    return producer_call(f, body, q["l"], depth + 1)


def proxy_guard_via_classifier(f, o, root, site_bi, literal, sparam):
    """Guard by proxy where the classification happens in a crate function: the site sits in the arm for variant V
    of a value returned by classifier(value); inside the classifier every construction of V lies under the
    comparison of its parameter with the literal."""
    cfg = CFG(root)
    body = root["body"]
    for i, b in enumerate(cfg.blocks):
        dl, src = None, None
        for st in b["stmts"]:
            if st["k"] == "assign" and st["rv"]["k"] == "discr" and not st["rv"]["place"]["p"]:
                dl, src = st["place"]["l"], st["rv"]["place"]["l"]
        t = b["term"]
        if dl is None or t["k"] != "switch":
            continue
        pl = t["op"].get("m") or t["op"].get("c")
        if pl is None or pl["l"] != dl:
            continue
        for val, tgt in t["cases"]:
            if not cfg.dominated_by(site_bi, tgt) or tgt == t["otherwise"]:
                continue
            pc = producer_call(f, body, src)
            if pc is None:
                continue
            F, call = pc
            ty = f.ty(body["locals"][src]["ty"])
            adt_path = ty.get("path") if ty["k"] == "adt" else None
            sF = o.summary(F)
            cF = CFG(F)
            for e in sF.events:
                if not (e[0] == "USE" and e[1].endswith("::eq") and len(e[3]) == 2):
                    continue
                sides = [frozenset(e[3][0]), frozenset(e[3][1])]
                if frozenset({("const", literal)}) not in sides:
                    continue
                other = [x for x in sides if x != frozenset({("const", literal)})]
                if len(other) != 1 or len(other[0]) != 1:
                    continue
                (tok,) = other[0]
                if tok[0] != "param" or tok[1] - 1 >= len(call["args"]):
                    continue
                q = call["args"][tok[1] - 1].get("c") or call["args"][tok[1] - 1].get("m")
                if q is None or chase(body, q, 0, f) != sparam:
                    continue
                tt = nonzero_target(cF, e[4])
                cons = []
                for j, bb in enumerate(cF.blocks):
                    for st in bb["stmts"]:
                        if st["k"] == "assign" and st["rv"]["k"] == "aggregate" and st["rv"].get("path") == adt_path and st["rv"].get("vi") == val:
                            cons.append(j)
                if cons and tt and all(all(cF.dominated_by(j, g) for g in tt) for j in cons):
                    return True
    return False


def proxy_guard(cfg, body, site_bi, guard_targets):
    """The site is reached only through the arm of a `match x { V => .. }` and x is made a V only under the guard:
    a classification enum carries the result of the test to the place where it is acted upon."""
    for i, b in enumerate(cfg.blocks):
        dl, src = None, None
        for st in b["stmts"]:
            if st["k"] == "assign" and st["rv"]["k"] == "discr" and not st["rv"]["place"]["p"]:
                dl, src = st["place"]["l"], st["rv"]["place"]["l"]
        t = b["term"]
        if dl is None or t["k"] != "switch":
            continue
        pl = t["op"].get("m") or t["op"].get("c")
        if pl is None or pl["l"] != dl:
            continue
        for val, tgt in t["cases"]:
            if not cfg.dominated_by(site_bi, tgt) or tgt == t["otherwise"]:
                continue
            # every construction of variant `val` of local src lies under the guard
            cons = []
            other_defs = False
            for j, bb in enumerate(cfg.blocks):
                for st in bb["stmts"]:
                    if st["k"] == "assign" and st["place"]["l"] == src and not st["place"]["p"]:
                        if st["rv"]["k"] == "aggregate" and st["rv"].get("variant") is not None:
                            if st["rv"].get("vi") == val:
                                cons.append(j)
                        else:
                            other_defs = True
                tt_ = bb["term"]
                if tt_["k"] == "call" and tt_["dest"]["l"] == src:
                    other_defs = True
            if cons and not other_defs and guard_targets and all(all(cfg.dominated_by(j, g) for g in guard_targets) for j in cons):
                return True
    return False


def nonzero_target(cfg, call_block, ok_when_true=True):
    """Block entered when the bool returned by the call in `call_block` is true (false)."""
    t = cfg.blocks[call_block]["term"]
    holders = cfg.copies_of(t["dest"]["l"])
    out = []
    for i, b in enumerate(cfg.blocks):
        tt = b["term"]
        if tt["k"] == "switch":
            pl = tt["op"].get("m") or tt["op"].get("c")
            if pl is not None and not pl["p"] and pl["l"] in holders:
                zero = [c[1] for c in tt["cases"] if c[0] == 0]
                if ok_when_true:
                    out.append(tt["otherwise"] if zero else None)
                else:
                    out.extend(zero)
    return [x for x in out if x is not None]


def resolution_rules(f, root, is_sink, sparam=2, literal="localtime", literal_path="/etc/localtime", sep="/"):
    """Returns (findings [(rule, key, message, span)], stats dict)."""
    out = []
    o = OFlow(f, is_sink)
    s = o.summary(root)
    leaves = list(flatten(s.events))
    reads = [e for e in leaves if e[0] == "PTRCALL"]
    sinks = [e for e in leaves if e[0] == "SINK"]
    uses = [e for e in leaves if e[0] == "USE"]
    stats = {"functions reached": len(o.visited), "READ sites (with context)": len(reads), "decoder call sites": len(sinks), "other consumers examined": len(uses)}
    P = ("param", sparam)

    def allowed_origin(t):
        if t == P or t == ("param", 1):
            return True
        if t[0] == "const" and t[1] in (literal_path, sep):
            return True
        if t == ("int", ord(sep)):
            return True
        if t[0] == "bytes":
            pieces = decode_fmt_template(t[1])
            return pieces is not None and all(p[0] == "arg" or p[1] == sep for p in pieces)
        return False

    # SOURCES
    for e in reads:
        bad = sorted(t for t in e[3][0] if not allowed_origin(t)) if e[3] else [("no-argument",)]
        if bad:
            out.append(("SOURCES", "read@%s|%s" % (fn_of(f, e), ";".join(map(tok_str, bad))), "the name handed to the file reader can derive from %s — only the TZ value itself, the configured directories, \"%s\" and \"%s\" are allowed" % (", ".join(map(tok_str, bad)), literal_path, sep), e[2]))
    # CONTENT
    for e in uses + reads:
        tainted = [t for a in e[3] for t in a if t[0] == "read"]
        if tainted:
            out.append(("CONTENT", "consumer|%s" % e[1], "the bytes returned by the file reader are consumed by %s before/besides the TZif decoder — whether a readable file counts must not depend on its content" % e[1], e[2]))
    for e in sinks:
        if e[1] == "PSTR":
            a0 = e[3][0] if e[3] else frozenset()
            trims = {t for t in a0 if t[0] == "call" and "::trim" in t[1] and t[1].startswith("core::str::")}
            rest = [t for t in a0 if t != P and t not in trims]
            if rest or not a0:
                out.append(("PSTR-ARG", "pstr-arg|%s" % ";".join(map(tok_str, sorted(rest))), "the string decoder is given something other than the (trimmed) TZ value: %s" % ", ".join(map(tok_str, sorted(rest))), e[2]))
            # every trim in the chain is applied to the value or to another trim of it
            trim_defs = {t[1] for t in trims}
            for u in uses:
                if u[1].startswith("core::str::") and "::trim" in u[1] and u[3]:
                    bad_src = [t for t in u[3][0] if t != P and not (t[0] == "call" and t[1].startswith("core::str::") and "::trim" in t[1])]
                    if bad_src and u[1] in trim_defs:
                        out.append(("PSTR-ARG", "trim-of|%s" % u[1], "%s is applied to something other than the TZ value" % u[1], u[2]))
            a1 = e[3][1] if len(e[3]) > 1 else frozenset()
            if a1 != {("int", 0)}:
                out.append(("EXT-OFF", "ext-mode|%s" % ";".join(map(tok_str, sorted(a1))), "the string decoder's extension mode is not the constant false (origins: %s)" % ", ".join(map(tok_str, sorted(a1))), e[2]))
    # ------------------------------------------------------------------ path rules, per function reached
    # A *site* is a call in some function reached from the entry point that (transitively) contains effects; its
    # kinds are the effect kinds inside it. Ordering rules are checked in every function over its own sites, which
    # makes them independent of how the resolution is split into helpers and closures.
    def kinds_of(evs):
        ks = set()
        for x in flatten(evs):
            if x[0] == "PTRCALL":
                ks.add("READ")
            elif x[0] == "SINK":
                ks.add(x[1])
        return ks

    def sites_of(inst):
        out_ = []
        for e in o.summary(inst).events:
            ks = kinds_of([e])
            if ks:
                out_.append({"bi": e[4], "kinds": ks, "event": e, "span": e[2], "paths": [x[3][0] for x in flatten([e]) if x[0] == "PTRCALL" and x[3]]})
        return out_

    all_sites = {}
    for iid in sorted(o.visited):
        inst = f.instances[iid]
        if is_sink(inst) is None:
            ss = sites_of(inst)
            if ss:
                all_sites[iid] = ss
    root_sites = all_sites.get(root["id"], [])
    stats.update({"functions with effect sites": len(all_sites), "sites in the entry point": len(root_sites), "PFILE leaves": len([x for x in sinks if x[1] == "PFILE"]), "PSTR leaves": len([x for x in sinks if x[1] == "PSTR"])})

    def exclusive_parts(site):
        """For a routing combinator the closures are alternatives (at most one runs): [(arg index, kinds)]"""
        e = site["event"]
        d = e[6] if e[0] == "LOCAL" and len(e) > 6 else (e[1] if e[0] == "USE" else None)
        pc = e[7] if e[0] == "LOCAL" and len(e) > 7 else (e[6] if e[0] == "USE" and len(e) > 6 else None)
        if d in ROUTERS and pc:
            return d, [(ai, kinds_of(evs)) for ai, _, evs in pc]
        return d, None

    guarded_fns = {}  # instance id -> True if every PSTR inside is reached only after a failed whole-value lookup

    for iid, ss in all_sites.items():
        inst = f.instances[iid]
        cfg = CFG(inst)

        def after(bi):
            return cfg.reachable_from(cfg.succ.get(bi, []))

        by_block = {s_["bi"]: s_ for s_ in ss}
        for s_ in ss:
            later = [by_block[b] for b in sorted(after(s_["bi"])) if b in by_block and b != s_["bi"] or (b == s_["bi"] and False)]
            d, parts = exclusive_parts(s_)
            # ONE-RESOLUTION
            if "READ" in s_["kinds"]:
                for t_ in later:
                    if "READ" in t_["kinds"]:
                        out.append(("ONE-RESOLUTION", "second-lookup|%s" % inst["name"].rsplit("::", 1)[-1], "a second file lookup (%s) can follow the lookup at %s — a failed lookup must not fall back to another one" % (t_["span"], s_["span"]), s_["span"]))
                        break
            # NO-FALLBACK-AFTER-FILE
            if "PFILE" in s_["kinds"]:
                for t_ in later:
                    if t_["kinds"] & {"PSTR", "READ"}:
                        out.append(("NO-FALLBACK-AFTER-FILE", "after-decode|%s" % inst["name"].rsplit("::", 1)[-1], "after the TZif decoder ran on a file that was read (%s), the string decoder or another lookup can still be reached (%s)" % (s_["span"], t_["span"]), s_["span"]))
                        break
            # a higher-order call that is not a routing combinator may run its closures repeatedly and in any order
            if parts is None and s_["event"][0] in ("LOCAL", "USE") and (s_["event"][1] is None or s_["event"][0] == "USE"):
                if "PFILE" in s_["kinds"] and (s_["kinds"] & {"PSTR", "READ"}):
                    out.append(("NO-FALLBACK-AFTER-FILE", "unordered|%s" % (d or "?"), "the TZif decoder and a lookup / the string decoder run inside closures of %s, whose order of invocation is not known" % d, s_["span"]))

    # STR-ONLY-AFTER-FAILED-READ: walk up from every PSTR leaf
    def whole_value_arg(inst, term):
        body_ = inst["body"]
        for a_ in term["args"]:
            pl = a_.get("m") or a_.get("c")
            if pl is not None and not pl["p"] and (reborrow_of(body_, pl["l"], sparam) or chase(body_, pl, 0, f) == sparam):
                return True
        return False

    def pstr_guard(iid, depth=0):
        """None if every PSTR inside function iid is properly guarded *within* it; else list of unguarded sites
        (bi, span, why) that need a guard further up."""
        inst = f.instances[iid]
        cfg = CFG(inst)
        ss = all_sites.get(iid, [])
        need = []
        for s_ in ss:
            if "PSTR" not in s_["kinds"]:
                continue
            ok_here = False
            why = "not behind a failed lookup"
            # (a) dominated by the failure edge of a lookup site in this function
            for r_ in ss:
                if "READ" in r_["kinds"] and r_ is not s_:
                    for ft in cfg.failure_targets(r_["bi"]):
                        if cfg.dominated_by(s_["bi"], ft):
                            if iid == root["id"] and not whole_value_arg(inst, cfg.blocks[r_["bi"]]["term"]):
                                why = "the lookup whose failure leads here was not given the whole TZ value"
                            else:
                                ok_here = True
            # (b) failure-position closure of a routing combinator applied to a lookup result
            d, parts = exclusive_parts(s_)
            if not ok_here and parts is not None:
                e = s_["event"]
                argo = e[5] if e[0] == "LOCAL" else e[3]
                fa = FAILURE_ARG.get(d)
                recv_is_lookup = bool(argo) and any(t[0] == "read" for t in argo[0])
                if fa is not None and recv_is_lookup and all(("PSTR" not in ks) or ai == fa for ai, ks in parts):
                    # the lookup that produced the receiver: a READ site of this function reaching this block
                    prods = [r_ for r_ in ss if "READ" in r_["kinds"] and r_ is not s_ and s_["bi"] in cfg.reachable_from(cfg.succ.get(r_["bi"], []))]
                    if iid != root["id"] or any(whole_value_arg(inst, cfg.blocks[r_["bi"]]["term"]) for r_ in prods):
                        ok_here = True
                    else:
                        why = "the lookup whose failure leads here was not given the whole TZ value"
            # (c) the PSTR is inside a local callee / closure of this site: ask that function
            if not ok_here:
                e = s_["event"]
                inner = []
                if e[0] == "LOCAL" and e[1] is not None:
                    inner = [e[1]]
                else:
                    pc = e[7] if e[0] == "LOCAL" and len(e) > 7 else (e[6] if e[0] == "USE" and len(e) > 6 else [])
                    inner = [cid for _, cid, evs in (pc or []) if "PSTR" in kinds_of(evs)]
                if inner and depth < 6 and all(is_sink(f.instances[c]) is None and pstr_guard(c, depth + 1) is None for c in inner):
                    ok_here = True
            if not ok_here:
                need.append((s_["bi"], s_["span"], why))
        return need or None

    ng = pstr_guard(root["id"])
    if ng:
        for bi, span, why in ng:
            out.append(("STR-ONLY-AFTER-FAILED-READ", "unguarded-pstr" if "whole" not in why else "fallback-not-whole-value", "the string decoder can be reached %s" % why if "whole" not in why else why, span))
    # LITERAL: "/etc/localtime" is read exactly in the case value == "localtime"
    cfg = CFG(root)
    lit_sites = [s_ for s_ in root_sites if any(("const", literal_path) in p_ for p_ in s_["paths"])]
    tests = []
    for e in s.events:
        if e[0] == "USE" and e[1].endswith("::eq") and len(e[3]) == 2 and {frozenset(e[3][0]), frozenset(e[3][1])} == {frozenset({P}), frozenset({("const", literal)})}:
            tests.append(e[4])
    nested_lit = [x for x in reads if x[3] and ("const", literal_path) in x[3][0]]
    if not nested_lit:
        out.append(("LITERAL", "no-literal-read", "no READ of \"%s\" is reachable from the entry point" % literal_path, root.get("span")))
    elif len(tests) == 0 and lit_sites and all(proxy_guard_via_classifier(f, o, root, s_["bi"], literal, sparam) for s_ in lit_sites) and all(p_ == {("const", literal_path)} for s_ in lit_sites for p_ in s_["paths"]):
        pass  # the test lives in a classification function whose result is matched here
    elif len(tests) != 1 or not lit_sites:
        out.append(("LITERAL", "no-literal-test", "the comparison of the TZ value with \"%s\" guarding the read of \"%s\" was not found in the entry point (%d candidates)" % (literal, literal_path, len(tests)), root.get("span")))
    else:
        tt = nonzero_target(cfg, tests[0])
        for s_ in lit_sites:
            if not (tt and all(cfg.dominated_by(s_["bi"], x) for x in tt)) and not proxy_guard(cfg, root["body"], s_["bi"], tt):
                out.append(("LITERAL", "literal-read-unguarded", "the READ of \"%s\" is not confined to the case value == \"%s\"" % (literal_path, literal), s_["span"]))
            elif any(p_ != {("const", literal_path)} for p_ in s_["paths"]):
                out.append(("LITERAL", "literal-path-mixed", "the literal case reads something besides \"%s\"" % literal_path, s_["span"]))
        for s_ in root_sites:
            if "READ" in s_["kinds"] and s_ not in lit_sites and tt and all(cfg.dominated_by(s_["bi"], x) for x in tt):
                out.append(("LITERAL", "literal-other-lookup", "in the case value == \"%s\" a lookup other than \"%s\" is made" % (literal, literal_path), s_["span"]))
    # JOIN-ORDER (only when the format! idiom is present)
    join = "not applicable (name not built by format!)"
    for iid in sorted(x for x in o.visited):
        inst = f.instances[iid]
        b = inst["body"]
        org = o.origins(inst)
        for blk in b["blocks"]:
            t = blk["term"]
            if t["k"] == "call" and t["f"]["k"] == "item" and (t["f"]["resolved"] or t["f"]["declared"])["def"] == "core::fmt::Arguments::<'a>::new" and not blk.get("cleanup"):
                a0 = OFlow.operand_origins(o, t["args"][0], org)
                tpl = [x for x in a0 if x[0] == "bytes"]
                pieces = decode_fmt_template(tpl[0][1]) if len(tpl) == 1 else None
                if pieces is None:
                    continue
                # the argument array: aggregate of new_display results
                arr = None
                pl = t["args"][1].get("m") or t["args"][1].get("c")
                cur = pl["l"]
                for _ in range(4):
                    nxt = None
                    for bb in b["blocks"]:
                        for st in bb["stmts"]:
                            if st["k"] == "assign" and st["place"]["l"] == cur and not st["place"]["p"]:
                                if st["rv"]["k"] == "aggregate":
                                    arr = st["rv"]
                                elif st["rv"]["k"] == "ref":
                                    nxt = st["rv"]["place"]["l"]
                    if arr is not None or nxt is None:
                        break
                    cur = nxt
                if arr is None:
                    continue
                elems = []
                for op in arr["ops"]:
                    l = (op.get("m") or op.get("c"))["l"]
                    src = None
                    for bb in b["blocks"]:
                        tt2 = bb["term"]
                        if tt2["k"] == "call" and tt2["dest"]["l"] == l:
                            pl2 = tt2["args"][0].get("m") or tt2["args"][0].get("c")
                            base = chase(b, pl2) if pl2 is not None else None
                            src = {("param", base)} if base is not None else OFlow.operand_origins(o, tt2["args"][0], org)
                    elems.append(src)
                # which of them flows into a READ?  (only templates whose result is a READ name matter)
                feeds = any(tpl[0] in e[3][0] for e in reads if e[3])
                if not feeds:
                    continue
                shape = [p if p[0] == "lit" else ("arg",) for p in pieces]
                ok = shape == [("arg",), ("lit", sep), ("arg",)] and len(elems) == 2 and elems[0] is not None and elems[1] is not None
                if ok and inst.get("closure"):
                    # closure: parameter 2 is the directory, the environment (1) holds the value
                    ok = elems[0] == {("param", 2)} and elems[1] == {("param", 1)}
                join = "format template %s with arguments %s" % (pieces, [sorted(map(tok_str, e)) if e else None for e in elems])
                if not ok:
                    out.append(("JOIN-ORDER", "join-order", "the looked-up name is not <directory>%s<value>: %s" % (sep, join), inst.get("span")))
    stats["JOIN-ORDER"] = join
    return out, stats, o


def tok_str(t):
    if t[0] == "param":
        return "parameter %d" % t[1]
    if t[0] == "call":
        return "result of " + t[1]
    if t[0] == "const":
        return "constant %r" % (t[1],)
    if t[0] == "bytes":
        p = decode_fmt_template(t[1])
        return "format template %s" % (p,) if p is not None else "bytes %r" % (bytes(t[1]),)
    if t[0] == "read":
        return "file content (READ at %s)" % t[1]
    if t[0] == "sink":
        return "result of the %s decoder" % t[1]
    return "%s %s" % (t[0], t[1] if len(t) > 1 else "")


def fn_of(f, e):
    return (e[2] or "?").rsplit(":", 2)[0]


def read_sites_rule(f, o, reader_ty=None):
    """Every call through a function pointer in the crate lies in a function reached from the entry point."""
    out, n = [], 0
    for inst in f.instances:
        for b in inst["body"]["blocks"]:
            t = b["term"]
            if t["k"] == "call" and t["f"]["k"] != "item" and not b.get("cleanup"):
                if reader_ty is not None and f.ty_canon(t["f"].get("ty")) != reader_ty:
                    continue
                n += 1
                if inst["id"] not in o.visited:
                    out.append(("READ-SITES", "read-outside|%s" % inst["name"], "%s calls the file reader but is not part of the resolution reached from the entry point" % inst["name"], t.get("span")))
    return out, n


def local_rule(f, o, local_inst, root, literal="localtime"):
    s = o.summary(local_inst)
    out = []
    calls = [e for e in s.events if e[0] == "LOCAL" and e[1] == root["id"]]
    other = [e for e in s.events if not (e[0] == "LOCAL" and e[1] == root["id"]) and (e[0] in ("PTRCALL", "SINK") or (e[0] == "LOCAL" and (has_read(e[3]) or any(x[0] == "SINK" for x in flatten(e[3])))))]
    if len(calls) != 1:
        out.append(("LOCAL", "local-calls", "parse_local calls the entry point %d times (expected once)" % len(calls), local_inst.get("span")))
    else:
        a = calls[0][5][1] if len(calls[0]) > 5 and len(calls[0][5]) > 1 else None
        if a != {("const", literal)}:
            out.append(("LOCAL", "local-arg", "parse_local does not pass the constant \"%s\" (origins: %s)" % (literal, sorted(map(tok_str, a or []))), calls[0][2]))
    for e in other:
        out.append(("LOCAL", "local-extra-effect", "parse_local reads or decodes on its own (%s at %s) instead of going through the entry point only" % (e[0], e[2]), e[2]))
    return out


def empty_rule(f, root, is_sink, sparam_index=1):
    """Box theorem: len(value) = 0  =>  only Err, no READ, no decoder."""
    effects = []

    def hook(ev, **kw):
        if ev == "env_call":
            effects.append("READ at %s" % kw["term"].get("span"))
        if ev == "enter" and is_sink(kw["inst"]) is not None:
            effects.append("%s entered" % kw["inst"]["name"])

    def mk(I, S, inst, args):
        a = args[sparam_index]
        v = I.read(S, a.cell, a.path, ("empty",))
        if isinstance(v, Seq):
            S.set_iv(v.len, D.point(0)) if hasattr(S, "set_iv") else S.refine(v.len, D.point(0))
        return args

    I = Exec(f, M, INVARIANTS)
    I.hooks.append(hook)
    R, frame, args = I.analyse_root(root, mk)
    variants = None
    if R is not None:
        ret = R.cells.get((frame, 0))
        if isinstance(ret, Enum):
            variants = sorted(ret.variants)
    return variants, effects


PREFIX_BOXES = [
    # (name, first byte of the value, classes a directly read name may have, may the string decoder be reached)
    ("colon", D.point(0x3A), {"PART", "UNMARKED"}, False),
    ("slash", D.point(0x2F), {"WHOLE"}, True),
    ("plain", D.remove_point(D.remove_point(D.rng(0, 255), 0x3A), 0x2F), {"UNMARKED"}, True),
]
PREFIX_TEXT = {
    "colon": "a value beginning with ':'",
    "slash": "a value beginning with '/'",
    "plain": "a value beginning with neither ':' nor '/'",
}
CLASS_TEXT = {
    "WHOLE": "the value itself, as is",
    "PART": "a part of the value (a suffix or a trimmed form)",
    "UNMARKED": "a name that is not the value (a constant, or a string built from a directory)",
}


def prefix_rule(f, root, is_sink, sparam_index=1):
    """Box theorems on the entry point (abstract interpreter), one per class of first byte: which names can be handed
    to the file reader *directly*, and whether the string decoder can be reached.  Three-valued: proven / refuted /
    inconclusive (an expectation fails but the interpreter took an imprecise step on the value on the way)."""
    out = []
    for name, b0iv, allowed, pstr_ok in PREFIX_BOXES:
        seen = {"reads": [], "pstr": [], "inexact": [], "param_len": None}

        def marked_seq(I, S, a, depth=0):
            v = a
            for _ in range(5):
                if isinstance(v, Ref) and v.cell is not None:
                    v = I.read(S, v.cell, v.path, ("pfx", depth))
                else:
                    break
            return v if isinstance(v, Seq) else None

        def hook(ev, **kw):
            I = kw.get("interp")
            if ev == "env_call":
                S = kw["state"]
                for a in kw["args"]:
                    v = marked_seq(I, S, a)
                    if v is None:
                        continue
                    if ("tzvalue",) not in v.prov:
                        cls = "UNMARKED"
                    elif seen["param_len"] is not None and (v.len == seen["param_len"] or (S.entails(S.term(v.len).sub(S.term(seen["param_len"]))) and S.entails(S.term(seen["param_len"]).sub(S.term(v.len))))):
                        cls = "WHOLE"
                    else:
                        cls = "PART"
                    seen["reads"].append((cls, kw["term"].get("span")))
            elif ev == "enter":
                k = is_sink(kw["inst"])
                if k == "PSTR":
                    seen["pstr"].append(kw["inst"]["name"])
                if k is not None:
                    kw["state"].dead = True  # what the decoders do is not this rule's business
            elif ev == "inexact":
                S = kw["state"]
                if not kw["callee"].startswith("core::fmt::") and any((lambda v: v is not None and ("tzvalue",) in v.prov)(marked_seq(I, S, a)) for a in kw["args"]):
                    seen["inexact"].append("%s (%s)" % (kw["callee"], kw["why"]))
            elif ev == "model_call":
                # a foreign function that is given (a part of) the value and is not on the vetted list
                if kw["callee"] not in EXACT_ON_FIRST_BYTE and not kw["callee"].startswith("core::fmt::"):
                    S = kw["state"]
                    if any((lambda v: v is not None and ("tzvalue",) in v.prov)(marked_seq(I, S, a)) for a in kw["args"]):
                        seen["inexact"].append("%s (not on the list of functions modelled exactly for this rule)" % kw["callee"])

        def mk(I, S, inst, args):
            a = args[sparam_index]
            v = I.read(S, a.cell, a.path, ("pfxv",))
            if isinstance(v, Seq):
                I.write(S, a.cell, a.path, Seq(v.kind, v.len, v.elem, v.efacts, v.data, v.prov | frozenset([("tzvalue",)])), ("pfxm",))
                seen["param_len"] = v.len
                S.add_fact(D.Lin.const(1).sub(S.term(v.len)))  # len >= 1 (the empty value is EMPTY's business)
                b0 = I.read(S, a.cell, tuple(a.path) + (("ci", 0, 1, False),), ("pfxb0",))
                if hasattr(b0, "sym"):
                    S.assume_sym(b0.sym, D.meet(S.ivof(b0.sym), b0iv))
            return args

        I = Exec(f, M, INVARIANTS)
        I.hooks.append(hook)
        try:
            I.analyse_root(root, mk)
        except Exception as e:  # the interpreter could not follow the entry point: nothing decided
            out.append((name, "inconclusive", "abstract interpreter: %s" % e, seen))
            continue
        if seen["param_len"] is None:
            out.append((name, "inconclusive", "the TZ value parameter is not a tracked string", seen))
            continue
        bad = sorted({(c, sp) for c, sp in seen["reads"] if c not in allowed})
        problems = ["for %s the file reader is given %s (at %s)" % (PREFIX_TEXT[name], CLASS_TEXT[c], sp) for c, sp in bad]
        if seen["pstr"] and not pstr_ok:
            problems.append("for %s the string decoder can be reached: ':' forces a file lookup with no fallback" % PREFIX_TEXT[name])
        if not problems:
            out.append((name, "proven", None, seen))
        elif seen["inexact"]:
            out.append((name, "inconclusive", "%s — but on the way the interpreter could not evaluate %s" % ("; ".join(problems), sorted(set(seen["inexact"]))[:3]), seen))
        else:
            out.append((name, "refuted", "; ".join(problems), seen))
    return out


def check(run, tier):
    configs = ["std"] if tier == "quick" else ["std", "alloc"]
    facts = get_facts(run, configs)
    for cfg in configs:
        f = facts[cfg]
        roots = [i for i in f.instances if i["name"] == ROOT]
        if len(roots) != 1:
            run.obligation(False)
            run.finding("ANCHOR-MISSING", "%s|root" % cfg, "TimeZoneSettings::parse_posix_tz not found")
            continue
        root = roots[0]
        is_sink, pstr, pfile = tz_sinks(f)
        if len(pstr) != 1 or len(pfile) < 1:
            run.obligation(False)
            run.finding("ANCHOR-MISSING", "%s|decoders" % cfg, "expected exactly one string decoder and at least one TZif decoder by signature; found %d / %d" % (len(pstr), len(pfile)))
            continue
        fnd, stats, o = resolution_rules(f, root, is_sink)
        n_rules = ["SOURCES", "CONTENT", "PSTR-ARG", "EXT-OFF", "ONE-RESOLUTION", "NO-FALLBACK-AFTER-FILE", "STR-ONLY-AFTER-FAILED-READ", "LITERAL", "JOIN-ORDER", "ANCHOR"]
        fired = {x[0] for x in fnd}
        for r in n_rules:
            if r != "ANCHOR" or "ANCHOR" in fired:
                run.obligation(r not in fired)
        for rule, key, msg, span in fnd:
            run.finding(rule, "%s|%s" % (cfg, key), msg, span)
        rs, n_sites = read_sites_rule(f, o)
        run.obligation(not rs)
        for rule, key, msg, span in rs:
            run.finding(rule, "%s|%s" % (cfg, key), msg, span)
        stats["function-pointer call sites in the crate"] = n_sites
        run.floor("%s: READ sites" % cfg, stats["READ sites (with context)"], 2)
        run.floor("%s: TZif decoder reached" % cfg, stats["PFILE leaves"], 1)
        run.floor("%s: string decoder reached" % cfg, stats["PSTR leaves"], 1)
        locs = [i for i in f.instances if i["name"] == LOCAL]
        if locs:
            lf = local_rule(f, o, locs[0], root)
            run.obligation(not lf)
            for rule, key, msg, span in lf:
                run.finding(rule, "%s|%s" % (cfg, key), msg, span)
        else:
            run.obligation(False)
            run.finding("ANCHOR-MISSING", "%s|parse_local" % cfg, "TimeZoneSettings::parse_local not found")
        variants, effects = empty_rule(f, root, is_sink)
        ok = variants == ["Err"] and not effects
        run.obligation(ok)
        stats["EMPTY"] = {"return variants with len(value) = 0": variants, "effects reached": effects}
        if not ok:
            run.finding("EMPTY", "%s|empty" % cfg, "with an empty TZ value the entry point can return %s and reaches %s — an empty value must be refused before anything is read or decoded" % (variants, effects or "no effect"), root.get("span"))
        pres = prefix_rule(f, root, is_sink)
        stats["PREFIX"] = {}
        for bname, verdict, why, seen in pres:
            stats["PREFIX"][bname] = {"verdict": verdict, "direct reads (class, site)": sorted({(c, sp) for c, sp in seen["reads"]}), "string decoder reached": bool(seen["pstr"])}
            if verdict == "inconclusive":
                print("INCONCLUSIVE property=C20 box=%s %s" % (bname, why))
                run.extra.setdefault("inconclusive", []).append({"config": cfg, "box": bname, "why": why})
                run.obligation(True)  # counted, reported as inconclusive in the evidence, never as a finding
                continue
            run.obligation(verdict == "proven")
            if verdict == "refuted":
                run.finding("PREFIX", "%s|%s" % (cfg, bname), why, root.get("span"))
        run.sample(dict({"config": cfg}, **stats))
    # ---------------- controls
    fx = fixture_facts()

    def fx_sink(inst):
        if inst["name"] == "badcrate::resolve::decode_file":
            return "PFILE"
        if inst["name"] == "badcrate::resolve::decode_string":
            return "PSTR"
        return None

    def fx_inst(n):
        return [i for i in fx.instances if i["name"] == n][0]

    bad, _, ob = resolution_rules(fx, fx_inst("badcrate::resolve::Resolver::<'_>::bad_resolve"), fx_sink)
    okf, _, oo = resolution_rules(fx, fx_inst("badcrate::resolve::Resolver::<'_>::ok_resolve"), fx_sink)
    fired = {x[0] for x in bad}
    for r in ("SOURCES", "CONTENT", "EXT-OFF", "ONE-RESOLUTION", "NO-FALLBACK-AFTER-FILE", "STR-ONLY-AFTER-FAILED-READ"):
        run.control("%s fires on the faulty resolver" % r, r in fired)
    lit, _, _ = resolution_rules(fx, fx_inst("badcrate::resolve::Resolver::<'_>::bad_literal"), fx_sink)
    run.control("LITERAL fires when /etc/localtime is read for other values too", {x[0] for x in lit} == {"LITERAL"})
    run.control("all rules silent on the correct twin resolver", not okf)
    if okf:
        run.extra["control_detail"] = [x[:3] for x in okf]
    run.control("LOCAL fires on a parse_local that reads /etc/timezone itself", bool(local_rule(fx, oo, fx_inst("badcrate::resolve::Resolver::<'_>::bad_local"), fx_inst("badcrate::resolve::Resolver::<'_>::ok_resolve"))))
    run.control("LOCAL silent on the twin", not local_rule(fx, oo, fx_inst("badcrate::resolve::Resolver::<'_>::ok_local"), fx_inst("badcrate::resolve::Resolver::<'_>::ok_resolve")))
    v, eff = empty_rule(fx, fx_inst("badcrate::resolve::Resolver::<'_>::bad_resolve"), fx_sink)
    run.control("EMPTY fires on a resolver without emptiness test", v != ["Err"] or bool(eff))
    v, eff = empty_rule(fx, fx_inst("badcrate::resolve::Resolver::<'_>::ok_resolve"), fx_sink)
    run.control("EMPTY silent on the twin", v == ["Err"] and not eff)
    pv = {b: v for b, v, _, _ in prefix_rule(fx, fx_inst("badcrate::resolve::Resolver::<'_>::bad_prefix"), fx_sink)}
    run.control("PREFIX refutes a resolver that opens a relative name containing '/' as is", pv.get("plain") == "refuted" and pv.get("slash") == "proven")
    pv = {b: v for b, v, _, _ in prefix_rule(fx, fx_inst("badcrate::resolve::Resolver::<'_>::ok_resolve"), fx_sink)}
    run.control("PREFIX proves all three boxes on the twin", set(pv.values()) == {"proven"})
    pv = {b: v for b, v, _, _ in prefix_rule(fx, fx_inst("badcrate::resolve::Resolver::<'_>::bad_resolve"), fx_sink)}
    run.control("PREFIX does not prove the ':' box of a resolver that falls back to the string after a failed ':' lookup", pv.get("colon") in ("refuted", "inconclusive"))
    run.floor("obligations", run.obligations, 15)
    run.trusted += ["E-FLOW carrier list (tzverif/oflow.py TRANSPARENT): these std functions return nothing but (parts of) their arguments", "E-AI (see C07) for the EMPTY box theorem", "C15: no ambient file access outside the default reader"]
    run.explanation = EXPLANATION + EXPLANATION_PREFIX
    run.extra["not_decided"] = ["that the trimmed characters are exactly ASCII whitespace", "which error kind each failure yields", "directory order beyond forward iteration with first hit (slice::iter + find_map are carriers; rev/skip/filter are not)", "that exactly one character is removed from a ':' value (the rest is known to be a proper part of it, not which)", "the nested case ':' followed by '/' (the same test site decides it; the boxes constrain the first byte of the whole value only)"]
