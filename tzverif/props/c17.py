"""C17 (clauses) — the premises of a parametricity argument for find_n == find on every buffer:
(1) both entry points run the same generic search on the same eight values and return its error
unchanged; (2) the search can touch its result list only through a private one-method trait;
(3) the buffer list's push counts always, writes at most one slot, only at current_index, only if in
bounds, then advances; data() is buf[..current_index]; is_exhaustive is current_index == count; all
other readers of the buffer list go through data().  NOT decided: unique/earliest/latest of the two
list types agree (separate code, value level)."""
from ..ai import pipeline
from ..ai import domain as D
from ..ai.domain import Lin
from ..ai.exec import Exec
from ..ai.invariants import INVARIANTS
from ..ai.models import M
from ..ai.values import Enum, Ref, Scalar, Seq, Struct
from ..epath import CFG
from .c13 import same_shape
from .common import fixture_facts, get_facts

FIND = "tz::datetime::DateTime::find"
FIND_N = "tz::datetime::DateTime::find_n"
LIST = "tz::datetime::find::FoundDateTimeListRefMut"

EXPLANATION = (
    "PARAM: DateTime::find and DateTime::find_n call monomorphic instances of one generic function G; in G's "
    "polymorphic MIR the list parameter (&mut L) is used only as the receiver of calls to a method of a trait that is "
    "not reachable from outside the crate and has exactly one method fn(&mut self, FoundDateTimeKind) -> (); hence G "
    "cannot observe which list it has and the sequence of pushed results is the same for both. ENTRY: at G's entry "
    "(abstract-interpreter hook) the eight value arguments are the entry point's own parameters, in order; the buffer "
    "list is freshly built on the caller's buffer with both counters = 0; the entry point's Err is G's Err. PUSH "
    "(buffer impl, two box theorems): with current_index < len(buf): exactly one buffer write, at index "
    "current_index, and current_index' = current_index + 1; with current_index >= len(buf): no write and "
    "current_index unchanged; in both count' = count + 1 (linear term). The Vec impl performs exactly one Vec::push "
    "of its argument. VIEW: data() returns a slice of the receiver's buffer of length current_index; count() returns "
    "the count field; is_exhaustive() is the comparison current_index == count; no other method of the buffer list "
    "reads the buffer field directly (earliest/latest/unique go through data()). INV[FoundDateTimeListRefMut]: "
    "current_index <= count and current_index <= len(buf) for every list handed out (C07)."
)


def param_rule(f, gpath):
    """(ok, why): in the polymorphic body of `gpath`, parameter 1 (&mut L) is used only as receiver of
    calls of exactly one method, returning (), of a crate-private trait without associated consts/types."""
    poly = [b for b in f.bodies if b["path"] == gpath]
    traits = {t["path"]: t for t in f.d["traits"]}
    okp = False
    why = "polymorphic body not found"
    if poly:
        body = poly[0]["body"]
        c = CFG({"body": body})
        holders = set()
        # reborrows `&mut (*_1)` and copies of the list parameter
        frontier = {1}
        while frontier:
            nxt = set()
            for b in body["blocks"]:
                for st in b["stmts"]:
                    if st["k"] == "assign" and not st["place"]["p"]:
                        rv = st["rv"]
                        src = None
                        if rv["k"] == "use":
                            src = rv["op"].get("c") or rv["op"].get("m")
                        elif rv["k"] == "ref":
                            src = rv["place"]
                        if src is not None and src["l"] in frontier | holders and all(p == "deref" for p in src["p"]):
                            if st["place"]["l"] not in holders and st["place"]["l"] != 1:
                                nxt.add(st["place"]["l"])
            holders |= frontier
            frontier = nxt - holders
        uses_ok = True
        n_push = 0
        called = set()
        trait_paths = set()
        bad_use = None

        def mentions(x):
            if isinstance(x, dict):
                if "l" in x and "p" in x and len(x) == 2:
                    return x["l"] in holders
                return any(mentions(v) for v in x.values())
            if isinstance(x, list):
                return any(mentions(v) for v in x)
            return False

        for bi, b in enumerate(body["blocks"]):
            if b.get("cleanup"):
                continue
            for st in b["stmts"]:
                if st["k"] == "assign":
                    # allowed: reborrow / copy into another holder
                    if st["place"]["l"] in holders and not st["place"]["p"]:
                        continue
                    if mentions(st["rv"]) or (mentions(st["place"]) and st["place"]["l"] not in holders):
                        uses_ok = False
                        bad_use = "bb%d statement" % bi
            t = b["term"]
            if t["k"] == "call":
                argm = [mentions(a) for a in t["args"]]
                if any(argm):
                    fdesc = t["f"]
                    dec = fdesc.get("declared") if fdesc["k"] == "item" else None
                    tr = dec["def"].rsplit("::", 1)[0] if dec else None
                    if dec is None or tr not in traits or argm[0] is not True or any(argm[1:]):
                        uses_ok = False
                        bad_use = "bb%d call %s" % (bi, dec["def"] if dec else "?")
                    else:
                        n_push += 1
                        called.add(dec["def"].rsplit("::", 1)[1])
                        trait_paths.add(tr)
            elif t["k"] in ("switch", "assert") and mentions(t):
                uses_ok = False
                bad_use = "bb%d %s" % (bi, t["k"])
        why = "list parameter used outside trait-method calls at %s" % bad_use if not uses_ok else ""
        if uses_ok and len(trait_paths) == 1:
            tr = traits[next(iter(trait_paths))]
            # the search may call exactly one method of the trait, and that method returns nothing;
            # associated consts/types (which could tell the lists apart) are not allowed
            fns = [it for it in tr["items"] if it["kind"] == "Fn" and it["name"] in called]
            one = all(it["kind"] == "Fn" for it in tr["items"]) and len(called) == 1 and len(fns) == 1 and fns[0]["inputs"][0] == "&mut Self" and len(fns[0]["inputs"]) == 2 and fns[0]["output"] == "()"
            private = not tr["reachable"]
            okp = one and private and n_push >= 1
            why = "trait %s: one method fn(&mut self, T) -> (): %s; private: %s; push sites: %d" % (tr["path"], one, private, n_push)
        elif uses_ok:
            why = "list used through %d traits" % len(trait_paths)
    return okp, why


def direct_buffer_readers(f, list_path, idx_buf, allowed=("new", "data")):
    offenders, n = [], 0
    for i in f.instances:
        if i["name"].startswith(list_path + "::") and not i.get("closure"):
            n += 1
            m = i["name"].rsplit("::", 1)[1]
            if m in allowed or i["body"]["arg_count"] < 1:
                continue
            if idx_buf in CFG(i).field_reads(1):
                offenders.append(i["name"])
    return offenders, n


def field_index(f, adt_path, name_pred):
    a = f.adt_by_path.get(adt_path)
    if not a:
        return None
    for i, fl in enumerate(a["variants"][0]["fields"]):
        if name_pred(fl, f):
            return i
    return None


def check(run, tier):
    configs = ["std"] if tier == "quick" else ["std", "alloc", "nofeat"]
    facts = get_facts(run, configs)
    for cfg in configs:
        f = facts[cfg]
        insts = {i["name"]: i for i in f.instances}
        entries = [e for e in (FIND, FIND_N) if e in insts]
        if FIND_N not in insts:
            run.obligation(False)
            run.finding("ANCHOR-MISSING", "%s|find_n" % cfg, "DateTime::find_n not found")
            continue
        # ---------------- PARAM
        gs = {}
        for e in entries:
            c = CFG(insts[e])
            cands = [f.instances[r["inst"]] for _, _, r in c.calls() if r is not None and r.get("local") and "inst" in r and f.instances[r["inst"]]["args"] and f.instances[r["inst"]]["body"]["arg_count"] == 9]
            gs[e] = cands
        ok = all(len(v) == 1 for v in gs.values()) and len({v[0]["path"] for v in gs.values() if v}) == 1
        run.obligation(ok)
        if not ok:
            run.finding("PARAM", "%s|shared-generic" % cfg, "find / find_n do not each call exactly one instance of one shared 9-argument generic search (found %s)" % {k: [x["name"] for x in v] for k, v in gs.items()})
            continue
        G = {e: v[0] for e, v in gs.items()}
        gpath = G[FIND_N]["path"]
        okp, why = param_rule(f, gpath)
        run.obligation(okp)
        run.sample({"rule": "PARAM", "generic search": gpath, "verdict": why})
        if not okp:
            run.finding("PARAM", "%s|%s|param" % (cfg, gpath), "the generic search can observe its result list beyond a private one-method push trait: %s" % why, G[FIND_N].get("span"))
        # ---------------- ENTRY
        for e in entries:
            seen = {}

            def hook(ev, **kw):
                if ev == "enter" and kw["inst"]["id"] == G[e]["id"] and "args" not in seen:
                    seen["args"] = list(kw["args"])
                    a0 = kw["args"][0]
                    seen["list"] = kw["interp"].read(kw["state"], a0.cell, a0.path, ("entry",)) if isinstance(a0, Ref) and a0.cell is not None else (a0 if isinstance(a0, Struct) else None)
                    if e == FIND_N and isinstance(seen["list"], Struct):
                        for x in seen["list"].fields:
                            if isinstance(x, Ref) and x.cell is not None:
                                seen["buf"] = kw["interp"].read(kw["state"], x.cell, x.path, ("entrybuf",))
                    seen["state"] = kw["state"].copy()
                if ev == "leave" and kw["inst"]["id"] == G[e]["id"]:
                    seen["ret"] = kw["ret"]

            I = Exec(f, M, INVARIANTS)
            I.hooks.append(hook)
            buf0 = {}

            def mk0(I_, S, inst, args_):
                if e == FIND_N and isinstance(args_[0], Ref) and args_[0].cell is not None:
                    buf0["v"] = I_.read(S, args_[0].cell, args_[0].path, ("buf0",))
                return args_

            R, frame, args = I.analyse_root(insts[e], mk0)
            off = 1 if e == FIND_N else 0
            ga = seen.get("args")
            ok_args = ga is not None and len(ga) == 9 and all(same_shape(ga[1 + i], args[off + i]) for i in range(8))
            run.obligation(ok_args)
            if not ok_args:
                run.finding("ENTRY", "%s|%s|args" % (cfg, e), "%s does not pass its eight value parameters, in order, to the shared search" % e, insts[e].get("span"))
            # fresh list
            lst = seen.get("list")
            S0 = seen.get("state")
            fresh = False
            if e == FIND_N and isinstance(lst, Struct) and S0 is not None:
                refs = [x for x in lst.fields if isinstance(x, Ref)]
                scal = [x for x in lst.fields if isinstance(x, Scalar)]
                b0, b1 = buf0.get("v"), seen.get("buf")
                untouched = isinstance(b0, Seq) and isinstance(b1, Seq) and b0.len == b1.len and b0.elem is b1.elem
                fresh = len(refs) == 1 and isinstance(args[0], Ref) and refs[0].cell == args[0].cell and refs[0].path == args[0].path and len(scal) == 2 and all(S0.ivof(x.sym) == D.point(0) for x in scal) and untouched
            elif e == FIND and isinstance(lst, Struct) and S0 is not None:
                v = lst.fields[0] if lst.fields else None
                fresh = isinstance(v, Seq) and S0.ivof(v.len) == D.point(0)
            run.obligation(fresh)
            if not fresh:
                run.finding("ENTRY", "%s|%s|fresh-list" % (cfg, e), "%s does not hand the search a freshly built, empty result list (on the caller's buffer, left as the caller passed it, counters 0)" % e, insts[e].get("span"))
            # every Ok return comes after the search succeeded
            ce = CFG(insts[e])
            gb = [bi for bi, _, r in ce.calls() if r is not None and r.get("inst") == G[e]["id"]]
            oks = ce.ok_return_blocks()
            st_ = ce.success_targets(gb[0]) if len(gb) == 1 else []
            through = len(gb) == 1 and bool(oks) and bool(st_) and all(any(ce.dominated_by(b, t) for t in st_) for b in oks)
            run.obligation(through)
            if not through:
                run.finding("ENTRY", "%s|%s|ok-without-search" % (cfg, e), "%s can return Ok without the shared search having succeeded (an early return bypasses it, so count/exhaustiveness/errors differ from the other entry point)" % e, insts[e].get("span"))
            # error unchanged
            errok = False
            ret = R.cells.get((frame, 0)) if R is not None else None
            gret = seen.get("ret")
            if isinstance(ret, Enum) and isinstance(gret, Enum) and "Err" in ret.variants and "Err" in gret.variants:
                errok = same_shape(ret.variants["Err"][0], gret.variants["Err"][0])
            run.obligation(errok)
            run.sample({"rule": "ENTRY", "entry": e, "arguments in order": ok_args, "fresh list": fresh, "error passed through": errok})
            if not errok:
                run.finding("ENTRY", "%s|%s|error" % (cfg, e), "%s does not return the shared search's error unchanged" % e, insts[e].get("span"))
        # ---------------- PUSH
        lt = f.adt_by_path.get(LIST)
        idx_buf = field_index(f, LIST, lambda fl, f_: f_.ty(fl["ty"])["k"] == "ref")
        cnt_getter = [i for i in f.instances if i["name"].startswith(LIST + "::") and i["name"].endswith("::count")]
        from .c14 import getter_field

        idx_count = getter_field(f, cnt_getter[0]["name"]) if cnt_getter else None
        idx_ci = None
        if lt and idx_buf is not None and idx_count is not None:
            rest = [i for i in range(len(lt["variants"][0]["fields"])) if i not in (idx_buf, idx_count)]
            idx_ci = rest[0] if len(rest) == 1 else None
        pushes = [i for i in f.instances if i["name"].startswith("<" + LIST) and i["name"].endswith("::push")]
        if None in (idx_buf, idx_count, idx_ci) or len(pushes) != 1:
            run.obligation(False)
            run.finding("ANCHOR-MISSING", "%s|buffer-list-shape" % cfg, "buffer list fields (buffer reference, count via count(), current index) or its push impl not identified")
        else:
            push = pushes[0]
            for box in ("in-bounds", "full"):
                writes = []

                def mk(I_, S, inst, args):
                    st = I_.read(S, args[0].cell, args[0].path, ("push",))
                    ci = st.fields[idx_ci].sym
                    bufref = st.fields[idx_buf]
                    buf = I_.read(S, bufref.cell, bufref.path, ("pushbuf",))
                    d = Lin.var(ci).sub(S.term(buf.len))
                    if box == "in-bounds":
                        S.add_fact(d.addc(1))
                    else:
                        S.add_fact(d.scale(-1))
                    return args

                I = Exec(f, M, INVARIANTS)
                orig_write = I.write

                def logging_write(S, cell, path, val, site, weak=False, _o=orig_write):
                    for pe in path:
                        if pe[0] == "idx":
                            writes.append((cell, pe[1], site))
                    return _o(S, cell, path, val, site, weak)

                I.write = logging_write
                R, frame, args = I.analyse_root(push, mk)
                st0 = None
                okb = False
                detail = {}
                if R is not None:
                    st1 = I.read(R, args[0].cell, args[0].path, ("push1",))
                    # the input symbols are the ones created by top(): recover them from the ghost naming
                    ci1, cnt1 = st1.fields[idx_ci], st1.fields[idx_count]
                    # original symbols: the struct at entry was the ghost cell's initial value
                    ci0 = I.st.ids.get(("top", "arg", push["id"], 0, "*", idx_ci))
                    cnt0 = I.st.ids.get(("top", "arg", push["id"], 0, "*", idx_count))
                    lin_cnt = R.term(cnt1.sym) if isinstance(cnt1, Scalar) else None
                    lin_ci = R.term(ci1.sym) if isinstance(ci1, Scalar) else None
                    sites = {w[2][:3] for w in writes}
                    widx = {R.term(w[1]) == Lin.var(ci0) for w in writes} if ci0 is not None else {False}
                    detail = {"count'": repr(lin_cnt), "current_index'": repr(lin_ci), "buffer write sites": len(sites)}
                    okc = cnt0 is not None and lin_cnt == Lin({cnt0: 1}, 1)
                    if box == "in-bounds":
                        okb = okc and ci0 is not None and lin_ci == Lin({ci0: 1}, 1) and len(sites) == 1 and widx == {True}
                    else:
                        okb = okc and ci0 is not None and lin_ci == Lin.var(ci0) and len(sites) == 0
                run.obligation(okb)
                run.sample(dict({"rule": "PUSH", "box": box}, **detail))
                if not okb:
                    run.finding("PUSH", "%s|push|%s" % (cfg, box), "buffer list push, case %s: expected %s; got %s" % (box, "one write at current_index, index + 1, count + 1" if box == "in-bounds" else "no write, index unchanged, count + 1", detail), push.get("span"))
            # Vec impl
            vp = [i for i in f.instances if i["name"].startswith("<tz::datetime::find::FoundDateTimeList as") and i["name"].endswith("::push")]
            if vp:
                c = CFG(vp[0])
                pcs = [r for _, _, r in c.calls() if r is not None and r["def"] == "alloc::vec::Vec::<T, A>::push"]
                allc = [r for _, _, r in c.calls()]
                okv = len(pcs) == 1 and len(allc) == 1 and not any(b["term"]["k"] == "switch" for b in c.blocks if not b.get("cleanup"))
                run.obligation(okv)
                if not okv:
                    run.finding("PUSH", "%s|vec-push" % cfg, "the allocating list's push is not exactly one unconditional Vec::push", vp[0].get("span"))
            # ---------------- VIEW
            def root(name):
                xs = [i for i in f.instances if i["name"].startswith(LIST + "::") and i["name"].endswith("::" + name)]
                return xs[0] if xs else None

            dinst = root("data")
            okd = False
            if dinst:
                I = Exec(f, M, INVARIANTS)
                R, frame, args = I.analyse_root(dinst)
                st = I.read(R, args[0].cell, args[0].path, ("data",)) if R is not None else None
                retv = R.cells.get((frame, 0)) if R is not None else None
                if isinstance(retv, Ref) and isinstance(st, Struct):
                    out = I.read(R, retv.cell, retv.path, ("dataret",))
                    bufref = st.fields[idx_buf]
                    buf = I.read(R, bufref.cell, bufref.path, ("databuf",))
                    ci = st.fields[idx_ci]
                    okd = isinstance(out, Seq) and isinstance(buf, Seq) and isinstance(ci, Scalar) and R.term(out.len) == R.term(ci.sym) and out.elem is buf.elem
                fails = [o for o in I.obls.values() if o.fail]
                okd = okd and not fails
            run.obligation(okd)
            if not okd:
                run.finding("VIEW", "%s|data" % cfg, "data() is not proven to be the receiver's buffer restricted to [0, current_index)", dinst.get("span") if dinst else None)
            einst = root("is_exhaustive")
            oke = False
            if einst:
                I = Exec(f, M, INVARIANTS)
                R, frame, args = I.analyse_root(einst)
                st = I.read(R, args[0].cell, args[0].path, ("ex",)) if R is not None else None
                rv = R.cells.get((frame, 0)) if R is not None else None
                if isinstance(rv, Scalar) and isinstance(st, Struct) and rv.sym in R.cmpd:
                    op, a, b = R.cmpd[rv.sym]
                    ci, cn = R.term(st.fields[idx_ci].sym), R.term(st.fields[idx_count].sym)
                    oke = op == "Eq" and ((a == ci and b == cn) or (a == cn and b == ci))
            run.obligation(oke)
            if not oke:
                run.finding("VIEW", "%s|is_exhaustive" % cfg, "is_exhaustive() is not the comparison current_index == count", einst.get("span") if einst else None)
            # VIEW-ONLY: other methods never read the buffer field directly
            offenders, n_methods = direct_buffer_readers(f, LIST, idx_buf)
            run.obligation(not offenders)
            run.sample({"rule": "VIEW", "data() is buf[..current_index]": okd, "is_exhaustive is current_index == count": oke, "methods reading the buffer directly": offenders, "methods examined": n_methods})
            if offenders:
                run.finding("VIEW", "%s|direct-buffer-read|%s" % (cfg, ",".join(sorted(o.rsplit("::", 1)[1] for o in offenders))), "methods of the buffer list read the raw buffer instead of data(): %s — they can observe slots beyond current_index (stale entries)" % offenders)
        # INV
        res = pipeline.run_pipeline(f)
        badl = [c for c in res["inv"] if not c.get("ok") and c["type"] == LIST]
        run.obligation(not badl)
        for c in badl:
            run.finding("INV", "%s|%s|%s" % (cfg, c["root"], c["problem"][:40]), "%s hands out a buffer list with: %s" % (c["root"], c["problem"]))
    fx = fixture_facts()
    run.control("PARAM fires on a search that asks its list whether it is full", not param_rule(fx, "badcrate::list::bad_search")[0])
    run.control("PARAM silent on the push-only twin", param_rule(fx, "badcrate::list::ok_search")[0])
    off, _ = direct_buffer_readers(fx, "badcrate::list::BufSink", 0)
    names = sorted(o.rsplit("::", 1)[1] for o in off)
    run.control("VIEW fires on a reader of the raw buffer and not on its data() twin", names == ["bad_first"])
    run.floor("obligations", run.obligations, 16)
    run.trusted += ["E-AI (see C07)", "rustc's parametricity: a generic function can use a type parameter only through its declared bounds (no specialisation, no Any, no size_of on L in the body: checked)"]
    run.explanation = EXPLANATION
    run.extra["not_decided"] = ["unique/earliest/latest of the two list types agree (beyond going through data())", "the search's results themselves (C05/C06)"]
