"""C17 (clauses) — the premises of a parametricity argument for find_n == find on every buffer:
(1) both entry points run the same generic search on the same eight values and return its error
unchanged; (2) the search can touch its result list only through a private one-method trait;
(3) the buffer list's push counts always, writes at most one slot, only at current_index, only if in
bounds, then advances; data() is buf[..current_index]; is_exhaustive is current_index == count; all
other readers of the buffer list go through data().  NOT decided: unique/earliest/latest of the two
list types agree (separate code, value level)."""
from ..ai import pipeline
from ..ai import domain as D
from ..ai.domain import Lin
from ..ai.exec import Exec
from ..ai.invariants import INVARIANTS
from ..ai.models import M
from ..ai.values import Enum, Ref, Scalar, Seq, Struct
from ..epath import CFG
from .c13 import same_shape
from .common import fixture_facts, get_facts

FIND = "tz::datetime::DateTime::find"
FIND_N = "tz::datetime::DateTime::find_n"
LIST = "tz::datetime::find::FoundDateTimeListRefMut"

EXPLANATION = (
    "PARAM: DateTime::find and DateTime::find_n call monomorphic instances of one generic function G; in G's "
    "polymorphic MIR the list parameter (&mut L) is used only as the receiver of calls to a method of a trait that is "
    "not reachable from outside the crate and has exactly one method fn(&mut self, FoundDateTimeKind) -> (); hence G "
    "cannot observe which list it has and the sequence of pushed results is the same for both. ENTRY: at G's entry "
    "(abstract-interpreter hook) the eight value arguments are the entry point's own parameters, in order; the buffer "
    "list is freshly built on the caller's buffer with both counters = 0; the entry point's Err is G's Err. PUSH "
    "(buffer impl, two box theorems): with current_index < len(buf): exactly one buffer write, at index "
    "current_index, and current_index' = current_index + 1; with current_index >= len(buf): no write and "
    "current_index unchanged; in both count' = count + 1 (linear term). The Vec impl performs exactly one Vec::push "
    "of its argument. VIEW: data() returns a slice of the receiver's buffer of length current_index; count() returns "
    "the count field; is_exhaustive() is the comparison current_index == count; no other method of the buffer list "
    "reads the buffer field directly (earliest/latest/unique go through data()). INV[FoundDateTimeListRefMut]: "
    "current_index <= count and current_index <= len(buf) for every list handed out (C07)."
)


TYPE_PROBES = ("core::mem::size_of", "core::mem::align_of", "core::any::type_name", "core::any::TypeId::of", "core::mem::needs_drop", "core::intrinsics::")


def mentions_param(f, tid, seen=None):
    """Does the type mention a generic type parameter?"""
    seen = seen if seen is not None else set()
    if tid in seen or tid is None:
        return False
    seen.add(tid)
    t = f.ty(tid)
    k = t["k"]
    if k == "param":
        return True
    for key in ("to", "elem"):
        if key in t and isinstance(t[key], int) and mentions_param(f, t[key], seen):
            return True
    for key in ("elems", "inputs", "upvars"):
        for x in t.get(key) or []:
            if isinstance(x, int) and mentions_param(f, x, seen):
                return True
    for a in t.get("args") or []:
        if isinstance(a, dict) and "t" in a and mentions_param(f, a["t"], seen):
            return True
    if "output" in t and isinstance(t["output"], int) and mentions_param(f, t["output"], seen):
        return True
    return False


def closure_body_of(f, body, operand, bodies):
    """Path of the crate closure body if the operand is a whole local holding a closure (possibly by reference)."""
    pl = None
    if isinstance(operand, dict):
        if "l" in operand and "p" in operand and len(operand) == 2:
            pl = operand
        else:
            inner = [v for v in operand.values() if isinstance(v, dict) and "l" in v and "p" in v and len(v) == 2]
            pl = inner[0] if len(inner) == 1 else None
    if pl is None or pl["p"]:
        return None
    t = f.ty(body["locals"][pl["l"]]["ty"])
    while t["k"] == "ref":
        t = f.ty(t["to"])
    if t["k"] == "closure" and t.get("path") in bodies:
        return t["path"]
    return None


def param_rule(f, gpath):
    """(ok, why, stats). Parametricity premise: in the generic search `gpath` and in every generic crate function
    it hands its list to, a value whose type mentions the type parameter is only moved, reborrowed, returned, or
    passed to (a) methods of one crate-private trait that return () and take no other `&mut`, (b) other generic
    crate functions satisfying the same rule, (c) that trait's provided methods, which no impl overrides. The
    trait has exactly one required method, no associated types/consts; no type-probing intrinsic is applied to
    the parameter. Then the search cannot behave differently for two implementors except through the one
    required method."""
    bodies = {b["path"]: b for b in f.bodies}
    traits = {t["path"]: t for t in f.d["traits"]}
    checked, methods, problems = set(), set(), []
    work = [gpath]
    while work:
        path = work.pop()
        if path in checked:
            continue
        checked.add(path)
        pb = bodies.get(path)
        if pb is None:
            problems.append("polymorphic body of %s not found" % path)
            continue
        body = pb["body"]
        tainted = {i for i, l in enumerate(body["locals"]) if mentions_param(f, l["ty"])}

        def uses(x):
            if isinstance(x, dict):
                if "l" in x and "p" in x and len(x) == 2:
                    return x["l"] in tainted
                return any(uses(v) for v in x.values())
            if isinstance(x, list):
                return any(uses(v) for v in x)
            return False

        for bi, b in enumerate(body["blocks"]):
            if b.get("cleanup"):
                continue
            for st in b["stmts"]:
                if st["k"] == "assign" and uses(st["rv"]):
                    if st["rv"]["k"] == "discr":
                        continue  # which variant a wrapper (Option/Result) is, not what the list is
                    if st["place"]["l"] not in tainted:
                        problems.append("%s bb%d: a value of the parameter's type flows into a plain value (%s)" % (path, bi, st["rv"]["k"]))
            t = b["term"]
            if t["k"] == "call":
                fd = t["f"]
                dec = fd.get("declared") if fd["k"] == "item" else None
                argm = [uses(a) for a in t["args"]]
                if dec is not None and any(dec["def"].startswith(p) for p in TYPE_PROBES) and any(isinstance(a, dict) and "t" in a and mentions_param(f, a["t"]) for a in dec.get("args") or []):
                    problems.append("%s bb%d: %s is applied to the type parameter" % (path, bi, dec["def"]))
                if not any(argm):
                    continue
                if dec is None:
                    problems.append("%s bb%d: the list is passed through a function pointer" % (path, bi))
                    continue
                ti = dec.get("trait_item")
                tr = ti.rsplit("::", 1)[0] if ti else None
                if tr in traits and dec.get("local"):
                    methods.add(ti)
                elif dec.get("local") and dec["def"] in bodies or dec.get("local") and dec.get("key") in {b_["key"] for b_ in f.bodies}:
                    tgt = dec["def"] if dec["def"] in bodies else [b_["path"] for b_ in f.bodies if b_["key"] == dec.get("key")][0]
                    work.append(tgt)
                else:
                    # a foreign function may be given the list only inside a closure of this crate: all it can do with
                    # an opaque closure is call it (or not), and the closure's body is examined by this same rule
                    clos = []
                    for a, m_ in zip(t["args"], argm):
                        if m_:
                            clos.append(closure_body_of(f, body, a, bodies))
                    if clos and all(c is not None for c in clos):
                        work.extend(clos)
                    else:
                        problems.append("%s bb%d: the list is handed to %s" % (path, bi, dec["def"]))
            elif t["k"] in ("switch", "assert") and uses(t):
                problems.append("%s bb%d: control flow depends on a value of the parameter's type" % (path, bi))
        # provided methods reached through trait calls are generic code too
        for m in list(methods):
            tr = traits.get(m.rsplit("::", 1)[0])
            it = [x for x in tr["items"] if x["name"] == m.rsplit("::", 1)[1]] if tr else []
            if it and it[0].get("has_default") and m in bodies and m not in checked:
                work.append(m)
    tps = {m.rsplit("::", 1)[0] for m in methods}
    stats = {"generic functions examined": sorted(checked), "trait methods the list is passed to": sorted(methods)}
    if problems:
        return False, "; ".join(problems[:3]), stats
    if len(tps) != 1:
        return False, "the list is used through %d traits" % len(tps), stats
    tr = traits[next(iter(tps))]
    if tr["reachable"]:
        return False, "trait %s is nameable outside the crate" % tr["path"], stats
    if not all(it["kind"] == "Fn" for it in tr["items"]):
        return False, "trait %s has associated types or constants" % tr["path"], stats
    required = [it for it in tr["items"] if not it.get("has_default")]
    if len(required) != 1:
        return False, "trait %s has %d required methods (expected exactly one: the push)" % (tr["path"], len(required)), stats
    for m in methods:
        it = [x for x in tr["items"] if x["name"] == m.rsplit("::", 1)[1]][0]
        if it["output"] != "()" or any(x.startswith("&mut") and "Self" not in x for x in it["inputs"][1:]):
            return False, "trait method %s returns %s / takes %s: information can flow from the list back to the search" % (m, it["output"], it["inputs"]), stats
    called_provided = {m.rsplit("::", 1)[1] for m in methods} - {required[0]["name"]}
    for im in f.d["impls"]:
        if im.get("trait") == tr["path"]:
            over = {x.rsplit("::", 1)[1] for x in im["items"]} & called_provided
            if over:
                return False, "impl %s overrides the provided method(s) %s which the search calls: the two lists may react differently" % (im["trait_ref"], sorted(over)), stats
    stats["trait"] = tr["path"]
    stats["required method"] = required[0]["name"]
    return True, "trait %s: private, one required method %s%s -> (), %d provided, list only moved / passed to it or to generic helpers" % (tr["path"], required[0]["name"], tuple(required[0]["inputs"]), len(tr["items"]) - 1), stats


def direct_buffer_readers(f, list_path, idx_buf, allowed=("new", "data")):
    offenders, n = [], 0
    for i in f.instances:
        if i["name"].startswith(list_path + "::") and not i.get("closure"):
            n += 1
            m = i["name"].rsplit("::", 1)[1]
            if m in allowed or i["body"]["arg_count"] < 1:
                continue
            if idx_buf in CFG(i).field_reads(1):
                offenders.append(i["name"])
    return offenders, n


def field_index(f, adt_path, name_pred):
    a = f.adt_by_path.get(adt_path)
    if not a:
        return None
    for i, fl in enumerate(a["variants"][0]["fields"]):
        if name_pred(fl, f):
            return i
    return None


def check(run, tier):
    configs = ["std"] if tier == "quick" else ["std", "alloc", "nofeat"]
    facts = get_facts(run, configs)
    for cfg in configs:
        f = facts[cfg]
        insts = {i["name"]: i for i in f.instances}
        entries = [e for e in (FIND, FIND_N) if e in insts]
        if FIND_N not in insts:
            run.obligation(False)
            run.finding("ANCHOR-MISSING", "%s|find_n" % cfg, "DateTime::find_n not found")
            continue
        # ---------------- PARAM
        gs = {}
        for e in entries:
            c = CFG(insts[e])
            cands = [f.instances[r["inst"]] for _, _, r in c.calls() if r is not None and r.get("local") and "inst" in r and f.instances[r["inst"]]["args"] and f.instances[r["inst"]]["body"]["arg_count"] == 9]
            gs[e] = cands
        ok = all(len(v) == 1 for v in gs.values()) and len({v[0]["path"] for v in gs.values() if v}) == 1
        run.obligation(ok)
        if not ok:
            run.finding("PARAM", "%s|shared-generic" % cfg, "find / find_n do not each call exactly one instance of one shared 9-argument generic search (found %s)" % {k: [x["name"] for x in v] for k, v in gs.items()})
            continue
        G = {e: v[0] for e, v in gs.items()}
        gpath = G[FIND_N]["path"]
        okp, why, pstats = param_rule(f, gpath)
        run.obligation(okp)
        run.sample(dict({"rule": "PARAM", "generic search": gpath, "verdict": why}, **pstats))
        if not okp:
            run.finding("PARAM", "%s|%s|param" % (cfg, gpath), "the generic search can observe its result list beyond a private one-method push trait: %s" % why, G[FIND_N].get("span"))
        # ---------------- ENTRY
        for e in entries:
            seen = {}

            def hook(ev, **kw):
                if ev == "enter" and kw["inst"]["id"] == G[e]["id"] and "args" not in seen:
                    seen["args"] = list(kw["args"])
                    a0 = kw["args"][0]
                    seen["list"] = kw["interp"].read(kw["state"], a0.cell, a0.path, ("entry",)) if isinstance(a0, Ref) and a0.cell is not None else (a0 if isinstance(a0, Struct) else None)
                    if e == FIND_N and isinstance(seen["list"], Struct):
                        for x in seen["list"].fields:
                            if isinstance(x, Ref) and x.cell is not None:
                                seen["buf"] = kw["interp"].read(kw["state"], x.cell, x.path, ("entrybuf",))
                    seen["state"] = kw["state"].copy()
                if ev == "leave" and kw["inst"]["id"] == G[e]["id"]:
                    seen["ret"] = kw["ret"]

            I = Exec(f, M, INVARIANTS)
            I.hooks.append(hook)
            buf0 = {}

            def mk0(I_, S, inst, args_):
                if e == FIND_N and isinstance(args_[0], Ref) and args_[0].cell is not None:
                    buf0["v"] = I_.read(S, args_[0].cell, args_[0].path, ("buf0",))
                return args_

            R, frame, args = I.analyse_root(insts[e], mk0)
            off = 1 if e == FIND_N else 0
            ga = seen.get("args")
            ok_args = ga is not None and len(ga) == 9 and all(same_shape(ga[1 + i], args[off + i]) for i in range(8))
            run.obligation(ok_args)
            if not ok_args:
                run.finding("ENTRY", "%s|%s|args" % (cfg, e), "%s does not pass its eight value parameters, in order, to the shared search" % e, insts[e].get("span"))
            # fresh list
            lst = seen.get("list")
            S0 = seen.get("state")
            fresh = False
            if e == FIND_N and isinstance(lst, Struct) and S0 is not None:
                refs = [x for x in lst.fields if isinstance(x, Ref)]
                scal = [x for x in lst.fields if isinstance(x, Scalar)]
                b0, b1 = buf0.get("v"), seen.get("buf")
                untouched = isinstance(b0, Seq) and isinstance(b1, Seq) and b0.len == b1.len and b0.elem is b1.elem
                fresh = len(refs) == 1 and isinstance(args[0], Ref) and refs[0].cell == args[0].cell and refs[0].path == args[0].path and len(scal) == 2 and all(S0.ivof(x.sym) == D.point(0) for x in scal) and untouched
            elif e == FIND and isinstance(lst, Struct) and S0 is not None:
                v = lst.fields[0] if lst.fields else None
                fresh = isinstance(v, Seq) and S0.ivof(v.len) == D.point(0)
            run.obligation(fresh)
            if not fresh:
                run.finding("ENTRY", "%s|%s|fresh-list" % (cfg, e), "%s does not hand the search a freshly built, empty result list (on the caller's buffer, left as the caller passed it, counters 0)" % e, insts[e].get("span"))
            # every Ok return comes after the search succeeded
            ce = CFG(insts[e])
            gb = [bi for bi, _, r in ce.calls() if r is not None and r.get("inst") == G[e]["id"]]
            oks = ce.ok_return_blocks()
            st_ = ce.success_targets(gb[0]) if len(gb) == 1 else []
            through = len(gb) == 1 and bool(oks) and bool(st_) and all(any(ce.dominated_by(b, t) for t in st_) for b in oks)
            if len(gb) == 1 and not oks:
                # the search's result is returned as it is (`_0` is written by that call, or by `?` residuals, only)
                writers = []
                for bi_, b_ in enumerate(ce.blocks):
                    if b_.get("cleanup"):
                        continue
                    for st2 in b_["stmts"]:
                        if st2["k"] == "assign" and st2["place"]["l"] == 0:
                            writers.append(("stmt", bi_))
                    t2 = b_["term"]
                    if t2["k"] == "call" and t2["dest"]["l"] == 0:
                        r2 = (t2["f"]["resolved"] or t2["f"]["declared"]) if t2["f"]["k"] == "item" else None
                        kind2 = "search" if bi_ == gb[0] else ("residual" if r2 is not None and r2["def"].endswith("::from_residual") else "call")
                        # `search(..).map(|()| list)`: a Result combinator applied to the search's own result can
                        # turn Ok into Ok only when the search returned Ok
                        if kind2 == "call" and r2 is not None and r2["def"] in ("core::result::Result::<T, E>::map", "core::result::Result::<T, E>::and_then", "core::result::Result::<T, E>::map_err") and t2["args"]:
                            a0 = t2["args"][0].get("m") or t2["args"][0].get("c")
                            if a0 is not None and not a0["p"] and a0["l"] in ce.copies_of(ce.blocks[gb[0]]["term"]["dest"]["l"]):
                                kind2 = "search"
                        writers.append((kind2, bi_))
                through = bool(writers) and all(w[0] in ("search", "residual") for w in writers) and any(w[0] == "search" for w in writers)
            run.obligation(through)
            if not through:
                run.finding("ENTRY", "%s|%s|ok-without-search" % (cfg, e), "%s can return Ok without the shared search having succeeded (an early return bypasses it, so count/exhaustiveness/errors differ from the other entry point)" % e, insts[e].get("span"))
            # error unchanged
            errok = False
            ret = R.cells.get((frame, 0)) if R is not None else None
            gret = seen.get("ret")
            if isinstance(ret, Enum) and isinstance(gret, Enum) and "Err" in ret.variants and "Err" in gret.variants:
                errok = same_shape(ret.variants["Err"][0], gret.variants["Err"][0])
            run.obligation(errok)
            run.sample({"rule": "ENTRY", "entry": e, "arguments in order": ok_args, "fresh list": fresh, "error passed through": errok})
            if not errok:
                run.finding("ENTRY", "%s|%s|error" % (cfg, e), "%s does not return the shared search's error unchanged" % e, insts[e].get("span"))
        # ---------------- PUSH
        lt = f.adt_by_path.get(LIST)
        idx_buf = field_index(f, LIST, lambda fl, f_: f_.ty(fl["ty"])["k"] == "ref")
        cnt_getter = [i for i in f.instances if i["name"].startswith(LIST + "::") and i["name"].endswith("::count")]
        from .c14 import getter_field

        idx_count = getter_field(f, cnt_getter[0]["name"]) if cnt_getter else None
        idx_ci = None
        if lt and idx_buf is not None and idx_count is not None:
            rest = [i for i in range(len(lt["variants"][0]["fields"])) if i not in (idx_buf, idx_count)]
            idx_ci = rest[0] if len(rest) == 1 else None
        req = pstats.get("required method", "push")
        pushes = [i for i in f.instances if i["name"].startswith("<" + LIST) and i["name"].endswith("::" + req)]
        if None in (idx_buf, idx_count, idx_ci) or len(pushes) != 1:
            run.obligation(False)
            run.finding("ANCHOR-MISSING", "%s|buffer-list-shape" % cfg, "buffer list fields (buffer reference, count via count(), current index) or its push impl not identified")
        else:
            push = pushes[0]
            for box in ("in-bounds", "full"):
                writes = []

                def mk(I_, S, inst, args):
                    st = I_.read(S, args[0].cell, args[0].path, ("push",))
                    ci = st.fields[idx_ci].sym
                    bufref = st.fields[idx_buf]
                    buf = I_.read(S, bufref.cell, bufref.path, ("pushbuf",))
                    d = Lin.var(ci).sub(S.term(buf.len))
                    if box == "in-bounds":
                        S.add_fact(d.addc(1))
                    else:
                        S.add_fact(d.scale(-1))
                    return args

                I = Exec(f, M, INVARIANTS)
                orig_write = I.write

                def logging_write(S, cell, path, val, site, weak=False, _o=orig_write):
                    for pe in path:
                        if pe[0] == "idx":
                            writes.append((cell, pe[1], site))
                    return _o(S, cell, path, val, site, weak)

                I.write = logging_write
                R, frame, args = I.analyse_root(push, mk)
                st0 = None
                okb = False
                detail = {}
                if R is not None:
                    st1 = I.read(R, args[0].cell, args[0].path, ("push1",))
                    # the input symbols are the ones created by top(): recover them from the ghost naming
                    ci1, cnt1 = st1.fields[idx_ci], st1.fields[idx_count]
                    # original symbols: the struct at entry was the ghost cell's initial value
                    ci0 = I.st.ids.get(("top", "arg", push["id"], 0, "*", idx_ci))
                    cnt0 = I.st.ids.get(("top", "arg", push["id"], 0, "*", idx_count))
                    lin_cnt = R.term(cnt1.sym) if isinstance(cnt1, Scalar) else None
                    lin_ci = R.term(ci1.sym) if isinstance(ci1, Scalar) else None
                    sites = {w[2][:3] for w in writes}
                    widx = {R.term(w[1]) == Lin.var(ci0) for w in writes} if ci0 is not None else {False}
                    detail = {"count'": repr(lin_cnt), "current_index'": repr(lin_ci), "buffer write sites": len(sites)}
                    okc = cnt0 is not None and lin_cnt == Lin({cnt0: 1}, 1)
                    if box == "in-bounds":
                        okb = okc and ci0 is not None and lin_ci == Lin({ci0: 1}, 1) and len(sites) == 1 and widx == {True}
                    else:
                        okb = okc and ci0 is not None and lin_ci == Lin.var(ci0) and len(sites) == 0
                run.obligation(okb)
                run.sample(dict({"rule": "PUSH", "box": box}, **detail))
                if not okb:
                    run.finding("PUSH", "%s|push|%s" % (cfg, box), "buffer list push, case %s: expected %s; got %s" % (box, "one write at current_index, index + 1, count + 1" if box == "in-bounds" else "no write, index unchanged, count + 1", detail), push.get("span"))
            # Vec impl
            vp = [i for i in f.instances if i["name"].startswith("<tz::datetime::find::FoundDateTimeList as") and i["name"].endswith("::" + req)]
            if vp:
                c = CFG(vp[0])
                pcs = [r for _, _, r in c.calls() if r is not None and r["def"] == "alloc::vec::Vec::<T, A>::push"]
                allc = [r for _, _, r in c.calls()]
                okv = len(pcs) == 1 and len(allc) == 1 and not any(b["term"]["k"] == "switch" for b in c.blocks if not b.get("cleanup"))
                run.obligation(okv)
                if not okv:
                    run.finding("PUSH", "%s|vec-push" % cfg, "the allocating list's push is not exactly one unconditional Vec::push", vp[0].get("span"))
            # ---------------- VIEW
            def root(name):
                xs = [i for i in f.instances if i["name"].startswith(LIST + "::") and i["name"].endswith("::" + name)]
                return xs[0] if xs else None

            dinst = root("data")
            okd = False
            if dinst:
                I = Exec(f, M, INVARIANTS)
                R, frame, args = I.analyse_root(dinst)
                st = I.read(R, args[0].cell, args[0].path, ("data",)) if R is not None else None
                retv = R.cells.get((frame, 0)) if R is not None else None
                if isinstance(retv, Ref) and isinstance(st, Struct):
                    out = I.read(R, retv.cell, retv.path, ("dataret",))
                    bufref = st.fields[idx_buf]
                    buf = I.read(R, bufref.cell, bufref.path, ("databuf",))
                    ci = st.fields[idx_ci]
                    okd = isinstance(out, Seq) and isinstance(buf, Seq) and isinstance(ci, Scalar) and R.term(out.len) == R.term(ci.sym) and out.elem is buf.elem
                fails = [o for o in I.obls.values() if o.fail]
                okd = okd and not fails
            run.obligation(okd)
            if not okd:
                run.finding("VIEW", "%s|data" % cfg, "data() is not proven to be the receiver's buffer restricted to [0, current_index)", dinst.get("span") if dinst else None)
            einst = root("is_exhaustive")
            oke = False
            if einst:
                I = Exec(f, M, INVARIANTS)
                R, frame, args = I.analyse_root(einst)
                st = I.read(R, args[0].cell, args[0].path, ("ex",)) if R is not None else None
                rv = R.cells.get((frame, 0)) if R is not None else None
                if isinstance(rv, Scalar) and isinstance(st, Struct) and rv.sym in R.cmpd:
                    op, a, b = R.cmpd[rv.sym]
                    ci, cn = R.term(st.fields[idx_ci].sym), R.term(st.fields[idx_count].sym)
                    oke = op == "Eq" and ((a == ci and b == cn) or (a == cn and b == ci))
            run.obligation(oke)
            if not oke:
                run.finding("VIEW", "%s|is_exhaustive" % cfg, "is_exhaustive() is not the comparison current_index == count", einst.get("span") if einst else None)
            # VIEW-ONLY: other methods never read the buffer field directly
            offenders, n_methods = direct_buffer_readers(f, LIST, idx_buf)
            run.obligation(not offenders)
            run.sample({"rule": "VIEW", "data() is buf[..current_index]": okd, "is_exhaustive is current_index == count": oke, "methods reading the buffer directly": offenders, "methods examined": n_methods})
            if offenders:
                run.finding("VIEW", "%s|direct-buffer-read|%s" % (cfg, ",".join(sorted(o.rsplit("::", 1)[1] for o in offenders))), "methods of the buffer list read the raw buffer instead of data(): %s — they can observe slots beyond current_index (stale entries)" % offenders)
        # INV
        res = pipeline.run_pipeline(f)
        badl = [c for c in res["inv"] if not c.get("ok") and c["type"] == LIST]
        run.obligation(not badl)
        for c in badl:
            run.finding("INV", "%s|%s|%s" % (cfg, c["root"], c["problem"][:40]), "%s hands out a buffer list with: %s" % (c["root"], c["problem"]))
    fx = fixture_facts()
    run.control("PARAM fires on a search that asks its list whether it is full", not param_rule(fx, "badcrate::list::bad_search")[0])
    run.control("PARAM silent on the push-only twin", param_rule(fx, "badcrate::list::ok_search")[0])
    off, _ = direct_buffer_readers(fx, "badcrate::list::BufSink", 0)
    names = sorted(o.rsplit("::", 1)[1] for o in off)
    run.control("VIEW fires on a reader of the raw buffer and not on its data() twin", names == ["bad_first"])
    run.floor("obligations", run.obligations, 16)
    run.trusted += ["E-AI (see C07)", "rustc's parametricity: a generic function can use a type parameter only through its declared bounds (no specialisation, no Any, no size_of on L in the body: checked)"]
    run.explanation = EXPLANATION
    run.extra["not_decided"] = ["unique/earliest/latest of the two list types agree (beyond going through data())", "the search's results themselves (C05/C06)"]
