"""C15 — thread safety by construction (level: proof).

Whole-program absence proof: no unsafe, no mutable/interior-mutable/thread-local static, no
UnsafeCell reachable from any crate type, every exported type Send + Sync, every extern callee
classified (core/alloc pure by default with a deny-list; std ambient by default with a two-row
ambient table), environment calls only through capability-typed values; plus compile-time witnesses.
"""
from .. import efx, ew
from ..report import CheckerError
from .common import control_run, fixture_facts, get_facts

EXPLANATION = (
    "Obligations: FX-UNSAFE (unsafe_code lint level is forbid; no user unsafe item), FX-STATIC (no mutable / "
    "interior-mutable / thread-local static and no reference to one in any MIR body), TY-CELL (deep walk over the "
    "instantiated field types of every crate ADT, through Vec/Box/pointers/PhantomData, finds no UnsafeCell), TY-AUTO "
    "(trait solver: every exported ADT is Send and Sync), FX-EXTERN/FX-ENV (every resolved extern callee and every "
    "function value in every polymorphic and monomorphic body is classified by defining crate and module: core/alloc "
    "pure except cell/atomic/rc/volatile; std ambient by default, only the clock in current_duration_since_epoch and "
    "fs::read in the default reader closure are allowed), FX-CALLBACK (fn-pointer calls only through the fn-pointer "
    "typed field of an exported type, virtual calls only on dyn Error/Display/Debug), E-W (rustc refuses "
    "assert_send_sync::<Rc<u8>>() with E0277 and accepts it for every exported type, list generated from this run's "
    "ADT table). Argument: with no unsafe and no cell, every value of a crate type is deeply immutable behind & and "
    "exclusively owned behind &mut (borrow checker); with no statics/thread-locals/env calls no function reads or "
    "writes anything but its arguments, the clock (two functions) and what the caller's own callback does; hence "
    "every public operation is a function of its arguments and any interleaving of calls on shared values yields "
    "what each call yields alone. Send+Sync makes the sharing expressible."
)


def check(run, tier):
    configs = ["std"] if tier == "quick" else ["std", "alloc", "nofeat"]
    facts = get_facts(run, configs)
    stats = {}
    for cfg in configs:
        f = facts[cfg]
        st = {}
        st.update(efx.check_unsafe(run, f, cfg))
        st.update(efx.check_statics(run, f, cfg))
        st.update(efx.check_types(run, f, cfg))
        st.update(efx.check_effects(run, f, cfg))
        st["bodies"] = len(f.bodies)
        st["instances"] = len(f.instances)
        stats[cfg] = st
    s = stats["std"]
    run.floor("std.exported_adts", s["exported_adts"], 26)
    run.floor("std.adts", s["adts"], 32)
    run.floor("std.instances", s["instances"], 300)
    run.floor("std.extern_calls", s["extern_calls"], 1000)
    run.floor("std.fnptr_calls", s["fnptr_calls"], 2)
    run.floor("std.ambient_apis_seen", len(s["ambient_seen"]), 4)
    run.extra["per_config"] = stats
    run.extra["functions_analysed"] = sum(v["bodies"] + v["instances"] for v in stats.values())

    # --- E-W witnesses: generated from the ADT table of the std export
    f = facts["std"]
    pub = {p["def"]: p["public"] for p in f.d["pub_paths"]}
    exprs = []
    skipped = []
    for a in f.adts:
        if not a["reachable"]:
            continue
        pp = pub.get(a["path"])
        if pp is None:
            skipped.append(a["path"] + " (no nameable public path)")
            continue
        e = ew.type_expr(a, pp)
        if e is None:
            skipped.append(a["path"] + " (type parameters)")
            continue
        exprs.append(e)
    twin = "fn assert_send_sync<T: Send + Sync>() {}\n" + "".join("assert_send_sync::<%s>();\n" % e for e in exprs)
    tests = [
        ("c15_control_rc_not_send_sync", "compile_fail,E0277", "fn assert_send_sync<T: Send + Sync>() {}\nassert_send_sync::<std::rc::Rc<u8>>();"),
        ("c15_control_cell_not_sync", "compile_fail,E0277", "fn assert_send_sync<T: Send + Sync>() {}\nassert_send_sync::<std::cell::Cell<u8>>();"),
        ("c15_all_exported_types_send_sync", "no_run", twin),
    ]
    try:
        res = ew.run_doc_witnesses(tests)
    except RuntimeError as e:
        raise CheckerError("E-W harness failed: %s" % str(e)[-1200:])
    for name, (ok, out) in res.items():
        if name.startswith("c15_control"):
            run.control("E-W:" + name, ok)
        else:
            run.obligation(ok)
            if not ok:
                run.finding("W-SEND", "std|send-sync-witness", "rustc rejects Send + Sync for an exported type:\n" + out)
    run.rule("W-SEND", len(exprs))
    run.floor("witness.types", len(exprs), 26)
    run.extra["witness_types"] = exprs
    run.extra["witness_skipped"] = skipped

    # --- positive controls on the fixture crate
    cr = control_run("C15")
    ff = fixture_facts()
    efx.check_unsafe(cr, ff, "fx")
    efx.check_statics(cr, ff, "fx")
    efx.check_types(cr, ff, "fx")
    efx.check_effects(cr, ff, "fx")
    fired = {(x.rule, x.key) for x in cr.findings}
    rules_fired = {x.rule for x in cr.findings}

    def has(rule, frag):
        return any(r == rule and frag in k for r, k in fired)

    run.control("FX-UNSAFE lint level", has("FX-UNSAFE", "lint-level"))
    run.control("FX-UNSAFE unsafe block", has("FX-UNSAFE", "unsafe block|"))
    run.control("FX-UNSAFE unsafe impl", has("FX-UNSAFE", "unsafe impl|"))
    run.control("FX-STATIC atomic static", has("FX-STATIC", "static|badcrate::fx::COUNTER"))
    run.control("FX-STATIC thread_local", has("FX-STATIC", "__RUST_STD_INTERNAL_VAL") or has("FX-STATIC", "thread-local"))
    run.control("TY-CELL Vec<Cell<u8>>", has("TY-CELL", "badcrate::fx::Hidden"))
    run.control("TY-AUTO Rc field", has("TY-AUTO", "badcrate::fx::Shared|send"))
    run.control("FX-ENV env::var", has("FX-ENV", "badcrate::fx::tz_from_env|std::env::var"))
    run.control("FX-ENV env::var as value", has("FX-ENV", "badcrate::fx::env_reader|std::env::var"))
    run.control("FX-ENV LocalKey::with", has("FX-ENV", "badcrate::fx::remember|std::thread::local::LocalKey"))
    run.control("FX-EXTERN atomics", has("FX-EXTERN", "badcrate::fx::bump|core::sync::atomic"))
    run.control("FX-EXTERN fs::read elsewhere", has("FX-EXTERN", "badcrate::fx::read_hosts|std::fs::read"))
    run.control("FX-CALLBACK fn pointer", has("FX-CALLBACK", "fnptr-call|badcrate::fx::call_it"))
    run.control("FX-CALLBACK dyn Plugin", has("FX-CALLBACK", "virtual-call|badcrate::fx::run_plugin"))
    # twins must stay silent
    silent = not any("badcrate::fx::Plain" in k or "badcrate::fx::PLAIN" in k or "Settings::run" in k for _, k in fired)
    run.control("twins silent (Plain, PLAIN, Settings::run)", silent)

    run.trusted += [
        "rustc type checker, borrow checker, trait solver and MIR construction (nightly toolchain in the sandbox)",
        "tzmir's serialisation of MIR and type facts",
        "classification of core/alloc as pure except core::cell, core::sync, alloc::rc, volatile/atomic intrinsics",
        "std's own implementations of the classified-pure APIs do not touch global mutable state observable by callers",
    ]
    run.assumptions += ["user callbacks (ReadFileFn, dyn Error) are the caller's responsibility", "the system clock is an intended ambient input"]
    run.explanation = EXPLANATION
    for cfg in configs:
        for k in ("calls", "extern_calls", "fn_values"):
            pass
    run.sample({"obligation": "FX-EXTERN", "callee": "core::slice::<impl [T]>::split_at_checked", "class": "pure (core)", "verdict": "discharged"})
    run.sample({"obligation": "FX-EXTERN", "callee": "std::time::SystemTime::now", "class": "ambient", "allowed": "any crate function reachable only from the public entry points UtcDateTime::now, DateTime::now, TimeZone::find_current_local_time_type", "seen_callers": s["ambient_seen"].get("std::time::SystemTime::now")})
    run.sample({"obligation": "FX-EXTERN", "callee": "std::fs::read", "class": "ambient", "seen_callers": s["ambient_seen"].get("std::fs::read")})
    run.sample({"obligation": "FX-CALLBACK", "capability_fnptr_types": s["capability_fnptr_types"], "fnptr_calls": s["fnptr_calls"], "virtual_calls": s["virtual_calls"]})
    for a in f.adts[:6]:
        run.sample({"obligation": "TY-CELL/TY-AUTO", "type": a["path"], "deep_cell": a["deep_cell"], "send": a["send"], "sync": a["sync"], "exported": a["reachable"]})
