"""C13 (clauses) — zone constructors: both are gated by one and the same validator applied to exactly
their four arguments; scalar acceptance conditions and their errors; the for-all-transitions index
bound; the rule/last-transition comparison looks at offset, flag and designation.
NOT decided: that the trailing rule's type at the last transition's instant is computed correctly
(C04); exact equivalence of the ordering / leap-second predicates."""
import os

from ..ai import accept, pipeline
from ..ai import domain as D
from ..ai.exec import Exec
from ..ai.invariants import INVARIANTS
from ..ai.models import M
from ..ai.values import Enum, Ref, Scalar, Seq, Struct
from ..epath import CFG
from .accept_common import check_regions, find_case, fmt, refine_args
from .common import get_facts

R1 = "tz::timezone::TimeZoneRef::<'_>::new"
R2 = "tz::timezone::TimeZone::new"
I32 = D.rng(-(1 << 31), (1 << 31) - 1)

EXPLANATION = (
    "GATE: in TimeZoneRef::new and TimeZone::new every block assigning `_0 = Ok(..)` is dominated by the success edge "
    "(through `?` or a direct match) of a call to a validator V of type (&TimeZoneRef) -> Result<(), TzError>; V is the "
    "same monomorphic instance in both constructors; at V's entry (abstract interpreter hook) its receiver's four "
    "fields are references to exactly the constructor's four parameters, and the Ok payload's four fields are exactly "
    "those parameters. ACCEPT: LocalTimeType::new / with_ut_offset: Ok <=> ut_offset in [i32::MIN+1, i32::MAX], "
    "InvalidUtcOffset <=> {i32::MIN}; with a designation: Ok => length in [3,7], InvalidTimeZoneDesignationLength <=> "
    "length in [0,2] u [8,max]; TimeZoneRef::new: NoLocalTimeType <=> len(local_time_types) = 0 and Ok => len >= 1. "
    "FORALL-INDEX: the validation-loop rule proves in V that on the Ok path every transition's local_time_type_index < "
    "len(local_time_types) and both constructors hand out zones satisfying it (rule INV of C07). EQ-FIELDS: the "
    "comparison whose false result guards InconsistentExtraRule reads ut_offset, is_dst and the designation of both "
    "operands."
)


def same_shape(a, b, depth=0):
    """Same value up to conditional annotations: same symbols in the same structure."""
    from ..ai.values import Arr

    if a is b:
        return True
    if type(a) is not type(b) or depth > 12:
        return False
    if isinstance(a, Scalar):
        return a.sym == b.sym
    if isinstance(a, Struct):
        return a.path == b.path and len(a.fields) == len(b.fields) and all(same_shape(x, y, depth + 1) for x, y in zip(a.fields, b.fields))
    if isinstance(a, Enum):
        return a.path == b.path and set(a.variants) == set(b.variants) and all(len(a.variants[k]) == len(b.variants[k]) and all(same_shape(x, y, depth + 1) for x, y in zip(a.variants[k], b.variants[k])) for k in a.variants)
    if isinstance(a, Arr):
        return len(a.elems) == len(b.elems) and all(same_shape(x, y, depth + 1) for x, y in zip(a.elems, b.elems))
    if isinstance(a, Seq):
        return a.len == b.len and ((a.elem is None and b.elem is None) or (a.elem is not None and b.elem is not None and same_shape(a.elem, b.elem, depth + 1)))
    if isinstance(a, Ref):
        return a.cell == b.cell and a.path == b.path
    return False


def sig(f, inst):
    body = inst["body"]
    return [f.ty_canon(body["locals"][i + 1]["ty"]) for i in range(body["arg_count"])], f.ty_canon(body["locals"][0]["ty"])


def check(run, tier):
    configs = ["std"] if tier == "quick" else ["std", "alloc"]
    facts = get_facts(run, configs)
    for cfg in configs:
        f = facts[cfg]
        insts = {i["name"]: i for i in f.instances}
        roots = [r for r in (R1, R2) if r in insts]
        if R1 not in insts or (cfg != "nofeat" and R2 not in insts):
            run.obligation(False)
            run.finding("ANCHOR-MISSING", "%s|constructors" % cfg, "TimeZoneRef::new / TimeZone::new not found")
            continue
        # ---- GATE (structure)
        validators = {}
        gated = {}  # instance id of a constructor already shown to be gated -> its validator
        for r in roots:
            cfgr = CFG(insts[r])
            vcalls = []
            for bi, t, callee in cfgr.calls():
                if callee is not None and callee.get("local") and "inst" in callee:
                    ci = f.instances[callee["inst"]]
                    ins, out = sig(f, ci)
                    if out == "core::result::Result<(), tz::error::TzError>" and len(ins) == 1 and ins[0].lstrip("&").startswith("tz::timezone::TimeZoneRef"):
                        vcalls.append((bi, ci))
                    elif ci["id"] in gated:
                        # validating through the other constructor: its Ok implies its validator's Ok
                        vcalls.append((bi, gated[ci["id"]]))
            ok = len(vcalls) >= 1 and len({c["id"] for _, c in vcalls}) == 1
            run.obligation(ok)
            if not ok:
                run.finding("GATE", "%s|%s|validator-call" % (cfg, r), "%s does not call exactly one validator of type (&TimeZoneRef | TimeZoneRef) -> Result<(), TzError> (found %d)" % (r, len(vcalls)), insts[r].get("span"))
                continue
            validators[r] = vcalls[0][1]
            succ = []
            for bi, _ in vcalls:
                succ.extend(cfgr.success_targets(bi))
            oks = cfgr.ok_return_blocks()
            good = bool(oks) and bool(succ) and all(any(cfgr.dominated_by(b, s) for s in succ) for b in oks)
            if not oks:
                # `validator(..).map(|()| Self { .. })`: the return value is written only by a Result combinator applied
                # to the validator's own result (Ok stays Ok only if the validator returned Ok) or by `?` residuals
                vdest = {cfgr.blocks[bi]["term"]["dest"]["l"] for bi, _ in vcalls}
                holders = set()
                for d_ in vdest:
                    holders |= cfgr.copies_of(d_)
                writers = []
                for bi_, b_ in enumerate(cfgr.blocks):
                    if b_.get("cleanup"):
                        continue
                    for st2 in b_["stmts"]:
                        if st2["k"] == "assign" and st2["place"]["l"] == 0:
                            writers.append("stmt")
                    t2 = b_["term"]
                    if t2["k"] == "call" and t2["dest"]["l"] == 0:
                        r2 = (t2["f"]["resolved"] or t2["f"]["declared"]) if t2["f"]["k"] == "item" else None
                        a0 = (t2["args"][0].get("m") or t2["args"][0].get("c")) if t2["args"] else None
                        if r2 is not None and r2["def"] in ("core::result::Result::<T, E>::map", "core::result::Result::<T, E>::and_then") and a0 is not None and not a0["p"] and a0["l"] in holders:
                            writers.append("gated")
                        elif r2 is not None and r2["def"].endswith("::from_residual"):
                            writers.append("residual")
                        else:
                            writers.append("call")
                good = bool(writers) and "gated" in writers and all(w in ("gated", "residual") for w in writers)
            run.obligation(good)
            run.sample({"rule": "GATE", "constructor": r, "validator": vcalls[0][1]["name"], "Ok blocks": oks, "validator success edge targets": succ, "dominated": good})
            if good:
                gated[insts[r]["id"]] = vcalls[0][1]
            if not good:
                run.finding("GATE", "%s|%s|ok-not-dominated" % (cfg, r), "%s can return Ok on a path that does not pass the success edge of its validator" % r, insts[r].get("span"))
        if len(validators) == 2:
            same = validators[R1]["id"] == validators[R2]["id"]
            run.obligation(same)
            if not same:
                run.finding("GATE", "%s|different-validators" % cfg, "the borrowed and the owned constructor use different validators: %s vs %s" % (validators[R1]["name"], validators[R2]["name"]))
        # ---- GATE (identity of arguments, via the abstract interpreter)
        for r in roots:
            if r not in validators:
                continue
            V = validators[r]
            seen = {}

            def hook(ev, **kw):
                if ev == "enter" and kw["inst"]["id"] == V["id"] and "recv" not in seen:
                    a0 = kw["args"][0]
                    I_ = kw["interp"]
                    # the validator takes the borrowed zone by reference or (it is Copy) by value
                    st = I_.read(kw["state"], a0.cell, a0.path, ("gate",)) if isinstance(a0, Ref) and a0.cell is not None else (a0 if isinstance(a0, Struct) else None)
                    seen["recv"] = st
                    # what each field of the receiver points to, at the moment the validator starts
                    if isinstance(st, Struct):
                        seen["pointees"] = [I_.read(kw["state"], x.cell, x.path, ("gatef", n_)) if isinstance(x, Ref) and x.cell is not None else None for n_, x in enumerate(st.fields)]

            def mk_gate(I_, S_, inst_, args_):
                # the constructor's own arguments (values behind references for the borrowed constructor)
                seen["arg_values"] = [I_.read(S_, a_.cell, a_.path, ("gatea", n_)) if isinstance(a_, Ref) and a_.cell is not None else a_ for n_, a_ in enumerate(args_)]
                return args_

            I = Exec(f, M, INVARIANTS)
            I.hooks.append(hook)
            R, frame, args = I.analyse_root(insts[r], mk_gate)
            recv = seen.get("recv")
            ok = isinstance(recv, Struct) and len(recv.fields) == 4 and len(seen.get("pointees", [])) == 4 and len(seen.get("arg_values", [])) == 4
            if ok:
                for i, fld in enumerate(recv.fields):
                    a = args[i]
                    if isinstance(a, Ref) and isinstance(fld, Ref) and fld.cell == a.cell and fld.path == a.path:
                        continue  # borrowed constructor: the very same reference
                    # otherwise: a reference to the argument's value, wherever it was moved to (the parameter itself, or
                    # a field of the zone built from it before validation)
                    pv, av = seen["pointees"][i], seen["arg_values"][i]
                    ok = ok and isinstance(fld, Ref) and pv is not None and same_shape(pv, av)
            # PAIR-COVER: a counting loop of the validation that compares neighbours (reads seq[i+d] for two
            # different d) must start so that the first element it looks at is element 0
            pair_loops = [lr for lr in I.loop_reads if len(lr["offsets"]) >= 2]
            badp = [lr for lr in pair_loops if lr["start"] + min(lr["offsets"]) != 0]
            run.obligation(not badp)
            run.sample({"rule": "PAIR-COVER", "constructor": r, "neighbour loops (function, start, offsets)": [(lr["function"].rsplit("::", 1)[-1], lr["start"], lr["offsets"]) for lr in pair_loops]})
            for lr in badp:
                run.finding("PAIR-COVER", "%s|%s|%s|start" % (cfg, r, lr["function"].rsplit("::", 1)[-1]), "a validation loop in %s compares neighbouring elements seq[i%+d] .. seq[i%+d] but starts at i = %d: the pair beginning at element 0 is never examined" % (lr["function"], min(lr["offsets"]), max(lr["offsets"]), lr["start"]), insts[r].get("span"))
            run.obligation(ok)
            if not ok:
                run.finding("GATE", "%s|%s|receiver" % (cfg, r), "the validator called by %s is not applied to exactly the constructor's four arguments" % r, insts[r].get("span"))
            # payload
            okp = False
            if R is not None:
                ret = R.cells.get((frame, 0))
                if isinstance(ret, Enum) and "Ok" in ret.variants and isinstance(ret.variants["Ok"][0], Struct):
                    p = ret.variants["Ok"][0]
                    okp = len(p.fields) == 4
                    for i, fld in enumerate(p.fields):
                        a = args[i]
                        if isinstance(a, Ref):
                            okp = okp and isinstance(fld, Ref) and fld.cell == a.cell and fld.path == a.path
                        elif isinstance(a, Seq):
                            okp = okp and same_shape(fld, a)
                        else:
                            okp = okp and same_shape(fld, a)
            run.obligation(okp)
            if not okp and R is not None and os.environ.get("TZVERIF_DEBUG"):
                pp = R.cells.get((frame, 0)).variants["Ok"][0]
                print("DEBUG payload", [(type(x).__name__, type(y).__name__, (x.len == y.len, x.elem is y.elem) if isinstance(x, Seq) and isinstance(y, Seq) else (x is y, I.same_val(x, y))) for x, y in zip(pp.fields, args)])
            if not okp:
                run.finding("GATE", "%s|%s|payload" % (cfg, r), "the zone returned by %s is not built from exactly its four arguments" % r, insts[r].get("span"))
        # ---- ACCEPT
        n = 0
        root = "tz::timezone::LocalTimeType::with_ut_offset"
        n += check_regions(run, "ACCEPT", cfg, root, accept.analyse(f, root), {("Ok",): {"ut_offset": D.rng(-(1 << 31) + 1, (1 << 31) - 1)}, ("Err", "InvalidUtcOffset"): {"ut_offset": D.point(-(1 << 31))}}, {"ut_offset": (0,)})
        root = "tz::timezone::LocalTimeType::new"
        des_len = (2, ("variant", "Some", 0), "deref", "len")

        def force_some(I, S, inst, args):
            a = args[2]
            if isinstance(a, Enum) and "Some" in a.variants:
                args = list(args)
                args[2] = Enum(a.path, {"Some": a.variants["Some"]})
            return args

        res = accept.analyse(f, root, make_args=force_some)
        maxlen = (1 << 63) - 1 if f.d["config"]["ptr_bits"] == 64 else (1 << 31) - 1
        n += check_regions(
            run, "ACCEPT", cfg, root + "[designation=Some]", res,
            {
                ("Ok",): {"ut_offset": D.rng(-(1 << 31) + 1, (1 << 31) - 1), "designation length": D.rng(3, 7)},
                ("Err", "InvalidUtcOffset"): {"ut_offset": D.point(-(1 << 31))},
                ("Err", "InvalidTimeZoneDesignationLength"): {"designation length": D.norm([(0, 2), (8, maxlen)])},
                ("Err", "InvalidTimeZoneDesignationChar"): {"designation length": D.rng(3, 7)},
            },
            {"ut_offset": (0,), "designation length": des_len},
        )
        res = accept.analyse(f, R1)
        maxl = res["state"].ivof(accept.arg_sym(res["I"], res["state"], res["args"], (1, "deref", "len"))) if res and res["state"] is not None else None
        c_no = find_case(res, ("Err", "TimeZone", "NoLocalTimeType")) if res else None
        c_ok = find_case(res, ("Ok",)) if res else None
        g_no = accept.region(res["I"], c_no, res["args"], (1, "deref", "len")) if c_no else None
        g_ok = accept.region(res["I"], c_ok, res["args"], (1, "deref", "len")) if c_ok else None
        ok = g_no == D.point(0) and g_ok is not None and D.lo(g_ok) == 1 and maxl is not None and D.hi(g_ok) == D.hi(maxl)
        n += 2
        run.obligation(ok, n=2)
        run.sample({"rule": "ACCEPT", "function": R1, "NoLocalTimeType: len(local_time_types)": fmt(g_no), "Ok: len(local_time_types)": fmt(g_ok)})
        if not ok:
            run.finding("ACCEPT", "%s|%s|NoLocalTimeType" % (cfg, R1), "NoLocalTimeType <=> no local time type fails: Err region %s, Ok region %s" % (fmt(g_no), fmt(g_ok)), insts[R1].get("span"))
        run.rule("ACCEPT[%s]" % cfg, n)
        # ---- FORALL-INDEX
        res = pipeline.run_pipeline(f)
        vnames = {v["name"] for v in validators.values()}
        est = [x for x in res["forall"] if x["function"] in vnames and any("+ 1 <= 0" in s and "ELEM" in s for s in x["facts"])]
        inv_bad = [c for c in res["inv"] if not c.get("ok") and c["root"] in (R1, R2) and "transition" in c["problem"]]
        inv_ok = [c for c in res["inv"] if c.get("ok") and c["root"] in (R1, R2)]
        # decisive: the invariant (which contains the for-all clause) is proven on the zones both constructors hand
        # out; where the validation loop was recognised (`est`) is reported for diagnosis only
        ok = not inv_bad and len(inv_ok) == len(roots)
        run.obligation(ok)
        run.sample({"rule": "FORALL-INDEX", "established in": est[:1], "constructors handing out zones with the invariant": [c["root"] for c in inv_ok]})
        if not ok:
            run.finding("FORALL-INDEX", "%s|forall-index" % cfg, "not proven: on the validator's Ok path every transition's local_time_type_index < len(local_time_types) (established: %s; INV failures: %s)" % (est[:1], inv_bad[:2]))
        # ---- DESIGNATION (alphabet and length of every designation stored in a local time type handed out)
        LT_NAMES = ("TzAsciiStr", "LocalTimeType")  # by final name: the private designation type may live in any module

        def is_lt(path):
            return path.startswith("tz::") and path.rsplit("::", 1)[-1] in LT_NAMES

        des_bad = [c for c in res["inv"] if not c.get("ok") and is_lt(c["type"])]
        des_ok = [c for c in res["inv"] if c.get("ok") and any(is_lt(t) for t in c.get("types", {}))]
        run.obligation(not des_bad and len(des_ok) >= 3)
        run.sample({"rule": "DESIGNATION", "values proven": sum(n_ for c in des_ok for t, n_ in c["types"].items() if is_lt(t)), "roots": len({c["root"] for c in des_ok})})
        seen_des = set()
        for c in des_bad:
            k = "%s|designation|%s|%s" % (cfg, c["root"], c["problem"].split(" ∈ ")[0][:40])
            if k not in seen_des:
                seen_des.add(k)
                run.finding("DESIGNATION", k, "%s hands out a local time type whose designation/offset violates the documented domain: %s" % (c["root"], c["problem"]))
        if not des_bad and len(des_ok) < 3:
            run.finding("DESIGNATION", "%s|designation|floor" % cfg, "fewer than 3 roots hand out a checked LocalTimeType/TzAsciiStr (%d): the rule would pass vacuously" % len(des_ok))
        # ---- EQ-FIELDS
        if validators:
            V0 = list(validators.values())[0]
            # the function that reports InconsistentExtraRule: the validator or a helper it calls (depth <= 3)
            V, seen_v, frontier = None, set(), [V0]
            for _depth in range(4):
                nxt = []
                for cand in frontier:
                    if cand["id"] in seen_v:
                        continue
                    seen_v.add(cand["id"])
                    cc = CFG(cand)
                    if any(st["k"] == "assign" and st["rv"]["k"] == "aggregate" and st["rv"].get("variant") == "InconsistentExtraRule" for b in cc.blocks for st in b["stmts"]):
                        V = cand
                        break
                    nxt.extend(f.instances[r_["inst"]] for _, _, r_ in cc.calls() if r_ is not None and r_.get("local") and "inst" in r_ and f.instances[r_["inst"]].get("body") is not None)
                if V is not None:
                    break
                frontier = nxt
            if V is None:
                V = V0
            cv = CFG(V)
            errb = [i for i, b in enumerate(cv.blocks) if any(st["k"] == "assign" and st["rv"]["k"] == "aggregate" and st["rv"].get("variant") == "InconsistentExtraRule" for st in b["stmts"])]
            eqs = []
            for bi, t, callee in cv.calls():
                if callee is not None and callee.get("local") and "inst" in callee:
                    ci = f.instances[callee["inst"]]
                    ins, out = sig(f, ci)
                    if out == "bool" and len(ins) == 2 and all(x == "&tz::timezone::LocalTimeType" for x in ins):
                        eqs.append((bi, ci))
            ok = len(errb) >= 1 and len(eqs) >= 1
            guarded = False
            reads = None
            if ok:
                bi, E = eqs[0]
                holders = cv.copies_of(cv.blocks[bi]["term"]["dest"]["l"])
                t0 = []
                for i, b in enumerate(cv.blocks):
                    t = b["term"]
                    if t["k"] == "switch":
                        pl = t["op"].get("m") or t["op"].get("c")
                        if pl is not None and pl["l"] in holders:
                            t0.extend(c[1] for c in t["cases"] if c[0] == 0)
                guarded = bool(t0) and all(any(cv.dominated_by(b, x) for x in t0) for b in errb)
                ce = CFG(E)
                reads = (sorted(ce.field_reads(1)), sorted(ce.field_reads(2)))
                ok = guarded and set(reads[0]) >= {0, 1, 2} and set(reads[1]) >= {0, 1, 2}
            run.obligation(ok)
            run.sample({"rule": "EQ-FIELDS", "comparison": eqs[0][1]["name"] if eqs else None, "fields read (lhs, rhs)": reads, "InconsistentExtraRule guarded by its false result": guarded})
            if not ok:
                run.finding("EQ-FIELDS", "%s|eq-fields" % cfg, "the comparison guarding InconsistentExtraRule does not read offset, DST flag and designation of both local time types (reads %s; guarded=%s)" % (reads, guarded), V.get("span"))
    run.floor("obligations", run.obligations, 22)
    run.trusted += ["E-AI (see C07)", "dominance / call resolution on the exporter's monomorphic MIR"]
    run.explanation = EXPLANATION
    run.extra["not_decided"] = ["the rule's type at the last transition's instant is computed correctly (C04)", "exact equivalence of the ordering and leap-second predicates (guards are not compared with a specification in this version)", "designation alphabet as an exact 64-value set (only the length window and the error kind are compared)"]
