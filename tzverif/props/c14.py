"""C14 (clauses) — zoned date-time: who can build one; every one handed out has in-range calendar
fields; projection and the timestamp constructors carry Unix time and nanoseconds through untouched;
== and ordering look at (Unix time, nanoseconds) and nothing else.
NOT decided: that the calendar fields equal the UTC fields of (Unix time + offset) — numeric."""
from ..ai import pipeline
from ..ai.exec import Exec
from ..ai.invariants import INVARIANTS
from ..ai.models import M
from ..ai.values import Enum, Ref, Scalar, Struct
from ..epath import CFG, field_reads_deep
from .c13 import same_shape
from .common import get_facts

DT = "tz::datetime::DateTime"
UDT = "tz::datetime::UtcDateTime"

EXPLANATION = (
    "INV: every DateTime / UtcDateTime returned by any public entry point, or written into a caller's buffer, has "
    "month in [1,12], day in [1,31], hour in [0,23], minute in [0,59], second in [0,60] (C07's INV rule; month_day out of "
    "from_timespec by lemma L3). PRIV: all fields of both types are private (type facts), and every struct literal of "
    "either type in the crate lies in a function analysed under INV. PASSTHROUGH (symbolic, by value numbering in the "
    "abstract interpreter): on the Ok path, from_timespec_and_local(t,n,l) stores exactly t, n and l; from_timespec(t,n,z) "
    "stores t and n; DateTime::project stores self's Unix time and nanoseconds; UtcDateTime::project stores the value "
    "returned by self.unix_time() and self's nanoseconds. The Unix-time and nanosecond fields are identified as the "
    "fields returned by the public getters unix_time() and nanoseconds(). EQ-ORD-READS: PartialEq::eq and "
    "PartialOrd::partial_cmp of DateTime read exactly those two fields of each operand. SCALE (E-SCALE, see C12): no value "
    "stored in the Unix-time field of a zoned date-time, in the search or in any constructor, is on the leap-count or the "
    "civil scale."
)


def getter_field(f, name):
    """Index of the field returned (by value or by reference) by a `&self -> T` getter."""
    insts = [i for i in f.instances if i["name"] == name]
    if not insts:
        return None
    found = set()
    for b in insts[0]["body"]["blocks"]:
        for st in b["stmts"]:
            if st["k"] == "assign" and st["rv"]["k"] in ("use", "ref"):
                pl = (st["rv"]["op"].get("c") or st["rv"]["op"].get("m")) if st["rv"]["k"] == "use" else st["rv"]["place"]
                if pl is not None and pl["l"] == 1:
                    fs = [p for p in pl["p"] if isinstance(p, dict) and "f" in p]
                    if fs:
                        found.add(fs[0]["f"])
    return found.pop() if len(found) == 1 else None


def ok_payload(R, frame):
    ret = R.cells.get((frame, 0)) if R is not None else None
    if isinstance(ret, Enum) and "Ok" in ret.variants and ret.variants["Ok"] and isinstance(ret.variants["Ok"][0], Struct):
        return ret.variants["Ok"][0]
    return None


def check(run, tier):
    configs = ["std"] if tier == "quick" else ["std", "nofeat"]
    facts = get_facts(run, configs)
    for cfg in configs:
        f = facts[cfg]
        ut = getter_field(f, DT + "::unix_time")
        ns = getter_field(f, DT + "::nanoseconds")
        ltt = getter_field(f, DT + "::local_time_type")
        uns = getter_field(f, UDT + "::nanoseconds")
        if None in (ut, ns, uns):
            run.obligation(False)
            run.finding("ANCHOR-MISSING", "%s|getters" % cfg, "public getters unix_time()/nanoseconds() of DateTime/UtcDateTime not found or not plain field reads")
            continue
        # ---- INV
        res = pipeline.run_pipeline(f)
        bad = [c for c in res["inv"] if not c.get("ok") and c["type"] in (DT, UDT)]
        checked = sum(c["checked"] for c in res["inv"] if c.get("ok"))
        run.obligation(not bad, n=max(1, len([c for c in res["inv"] if c.get("ok")])))
        for c in bad:
            run.finding("INV", "%s|%s|%s|%s" % (cfg, c["root"], c["type"], c["problem"].split(" ∈")[0]), "%s hands out a %s with %s" % (c["root"], c["type"], c["problem"]))
        run.sample({"rule": "INV", "values of invariant types checked at root outputs": checked, "failures for DateTime/UtcDateTime": len(bad)})
        # ---- PRIV
        lit_sites = []
        for inst in f.instances:
            for b in inst["body"]["blocks"]:
                for st in b["stmts"]:
                    if st["k"] == "assign" and st["rv"]["k"] == "aggregate" and st["rv"].get("path") in (DT, UDT):
                        lit_sites.append((inst["name"], st["rv"]["path"], st.get("span")))
        analysed = set(res["analysed_instances"])
        for path in (DT, UDT):
            a = f.adt_by_path.get(path)
            pub = [fl["name"] for fl in a["variants"][0]["fields"] if fl["vis"] == "pub"] if a else ["?"]
            run.obligation(not pub)
            if pub:
                run.finding("PRIV", "%s|%s|public-fields" % (cfg, path), "%s has public fields %s: values can be forged without validation" % (path, pub), a.get("span") if a else None)
        un = sorted({s[0] for s in lit_sites if s[0] not in analysed})
        run.obligation(not un)
        if un:
            run.finding("PRIV", "%s|literal-not-analysed" % cfg, "struct literals of DateTime/UtcDateTime in functions never analysed under INV: %s" % un)
        run.sample({"rule": "PRIV", "literal sites": sorted({(s[0], s[1].rsplit("::", 1)[1]) for s in lit_sites})})
        run.floor("%s.literal_sites" % cfg, len({(s[0], s[2]) for s in lit_sites}), 5)
        # ---- PASSTHROUGH
        def analyse(name, hook=None):
            insts = [i for i in f.instances if i["name"] == name]
            if not insts:
                return None
            I = Exec(f, M, INVARIANTS)
            if hook:
                I.hooks.append(hook)
            R, frame, args = I.analyse_root(insts[0])
            return I, R, frame, args, insts[0]

        def field_sym(p, idx):
            v = p.fields[idx] if p is not None and idx is not None and idx < len(p.fields) else None
            return v.sym if isinstance(v, Scalar) else None

        def arg_field_sym(I, R, a, idx):
            v = I.read(R, a.cell, a.path, ("pt",)) if isinstance(a, Ref) and a.cell is not None else a
            if isinstance(v, Struct) and idx < len(v.fields) and isinstance(v.fields[idx], Scalar):
                return v.fields[idx].sym
            return None

        def verdict(name, ok, detail, where):
            run.obligation(ok)
            run.sample(dict({"rule": "PASSTHROUGH", "function": name, "verdict": "identical symbols" if ok else "DIFFERENT"}, **detail))
            if not ok:
                run.finding("PASSTHROUGH", "%s|%s" % (cfg, name), "%s does not carry Unix time / nanoseconds%s through unchanged: %s" % (name, " / local time type" if "local_time_type" in detail else "", detail), where)

        r = analyse(DT + "::from_timespec_and_local")
        if r:
            I, R, frame, args, inst = r
            p = ok_payload(R, frame)
            a0 = args[0].sym if isinstance(args[0], Scalar) else None
            a1 = args[1].sym if isinstance(args[1], Scalar) else None
            ok = p is not None and a0 is not None and field_sym(p, ut) == a0 and field_sym(p, ns) == a1 and ltt is not None and same_shape(p.fields[ltt], args[2])
            verdict(inst["name"], ok, {"unix_time": (field_sym(p, ut), a0), "nanoseconds": (field_sym(p, ns), a1), "local_time_type": "same" if p is not None and ltt is not None and same_shape(p.fields[ltt], args[2]) else "differs"}, inst.get("span"))
        r = analyse(DT + "::from_timespec")
        if r:
            I, R, frame, args, inst = r
            p = ok_payload(R, frame)
            a0 = args[0].sym if isinstance(args[0], Scalar) else None
            a1 = args[1].sym if isinstance(args[1], Scalar) else None
            verdict(inst["name"], p is not None and a0 is not None and field_sym(p, ut) == a0 and field_sym(p, ns) == a1, {"unix_time": (field_sym(p, ut), a0), "nanoseconds": (field_sym(p, ns), a1)}, inst.get("span"))
        r = analyse(DT + "::project")
        if r:
            I, R, frame, args, inst = r
            p = ok_payload(R, frame)
            s0, s1 = arg_field_sym(I, R, args[0], ut), arg_field_sym(I, R, args[0], ns)
            verdict(inst["name"], p is not None and s0 is not None and field_sym(p, ut) == s0 and field_sym(p, ns) == s1, {"unix_time": (field_sym(p, ut), s0), "nanoseconds": (field_sym(p, ns), s1)}, inst.get("span"))
        seen = {}

        def hook(ev, **kw):
            if ev == "leave" and kw["inst"]["name"] == UDT + "::unix_time" and "ret" not in seen:
                seen["ret"] = kw["ret"].sym if isinstance(kw["ret"], Scalar) else None

        r = analyse(UDT + "::project", hook)
        if r:
            I, R, frame, args, inst = r
            p = ok_payload(R, frame)
            s1 = arg_field_sym(I, R, args[0], uns)
            verdict(inst["name"], p is not None and seen.get("ret") is not None and field_sym(p, ut) == seen["ret"] and field_sym(p, ns) == s1, {"unix_time": (field_sym(p, ut), seen.get("ret")), "nanoseconds": (field_sym(p, ns), s1)}, inst.get("span"))
        # ---- EQ-ORD-READS
        for tr in ("core::cmp::PartialEq>::eq", "core::cmp::PartialOrd>::partial_cmp"):
            name = "<%s as %s" % (DT, tr)
            insts = [i for i in f.instances if i["name"] == name]
            if not insts:
                run.obligation(False)
                run.finding("ANCHOR-MISSING", "%s|%s" % (cfg, name), "impl not found: %s" % name)
                continue
            r1, r2 = field_reads_deep(f, insts[0], 1), field_reads_deep(f, insts[0], 2)
            ok = r1 == {ut, ns} and r2 == {ut, ns}
            run.obligation(ok)
            run.sample({"rule": "EQ-ORD-READS", "function": name, "fields read": (sorted(r1), sorted(r2)), "unix_time/nanoseconds field indices": (ut, ns)})
            if not ok:
                run.finding("EQ-ORD-READS", "%s|%s" % (cfg, name), "%s reads fields %s / %s of its operands; equality and ordering must depend on exactly (Unix time, nanoseconds) = fields %s" % (name, sorted(r1), sorted(r2), sorted({ut, ns})), insts[0].get("span"))
        # ---- SCALE (E-SCALE, shared with C12): the instant stored in a zoned date-time is on the UTC scale
        from .. import escale as _E
        from . import c12 as _c12

        S_ = _c12.tz_seeds(f, run, cfg)
        if S_ is not None:
            A_ = _E.Analysis(f, S_).run()
            mine = [x for x in A_.findings if "DateTime::unix_time" in x["u_seed"] + x["l_seed"] or "find_date_time" in x["group"] or "datetime::DateTime::" in x["group"]]
            run.obligation(not mine)
            run.rule("SCALE", 1, 0 if mine else 1)
            run.sample({"rule": "SCALE", "classes seeded": A_.stats["classes_seeded"], "conflicts in the date-time constructors / the search": len(mine)})
            A_.findings = mine
            _c12.report(run, cfg, A_)
    run.floor("obligations", run.obligations, 12)
    run.trusted += ["E-AI (see C07), including lemma L3 for month_day", "rustc visibility facts exported by tzmir", "E-SCALE (see C12)"]
    run.explanation = EXPLANATION
    run.extra["not_decided"] = ["calendar fields equal the UTC fields of (Unix time + offset)", "DateTime::new's computed Unix time", "the two struct literals inside the search (C05)"]
