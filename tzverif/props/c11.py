"""C11 (clauses) — AlternateTime::new: the offset window, the time window and which error each
violation gets.  NOT decided: that the consistency check is equivalent to "start/end order never
flips" (calendar arithmetic over all year pairs)."""
from ..ai import accept
from ..ai import domain as D
from .accept_common import check_regions, fmt
from .common import get_facts

H = 3600
OFF = D.rng(-25 * H + 1, 26 * H - 1)  # strictly between -25h and +26h
TIME = D.rng(-7 * 86400 + 1, 7 * 86400 - 1)  # strictly within +-7 days
I32V = D.rng(-(1 << 31) + 1, (1 << 31) - 1)  # LocalTimeType invariant: ut_offset != i32::MIN
I32 = D.rng(-(1 << 31), (1 << 31) - 1)
NOT_OFF = D.meet(D.complement(OFF, I32), I32V)
P = {"std.ut_offset": (0, 0), "dst.ut_offset": (1, 0), "dst_start_time": (3,), "dst_end_time": (5,)}

EXPLANATION = (
    "ACCEPT[AlternateTime::new] on the top box (LocalTimeType arguments constrained only by their own invariant "
    "ut_offset != i32::MIN): Ok and InconsistentRule => both offsets in (-25h, 26h) = [-89999, 93599] and both times in "
    "(-7d, 7d) = [-604799, 604799]; InvalidStdUtcOffset <=> std offset outside the window; InvalidDstUtcOffset <=> std "
    "inside and dst outside; InvalidDstStartEndTime => both offsets inside (the two times form a union of boxes that "
    "is not projected). The two abs() calls carry PRE obligations discharged under C07."
)


def consistency_args_rule(f, root_name):
    """The function whose boolean result decides InconsistentRule (a crate function called by the constructor with
    the constructor's own parameter types, returning bool) receives exactly the constructor's arguments, in order
    (identity of abstract values at its entry: value numbering, no arithmetic or swap on the way)."""
    from ..ai.exec import Exec
    from ..ai.invariants import INVARIANTS
    from ..ai.models import M
    from ..ai.values import Ref
    from ..epath import CFG
    from .c13 import same_shape

    insts = [i for i in f.instances if i["name"] == root_name]
    if not insts:
        return False, "constructor not found"
    root = insts[0]
    n = root["body"]["arg_count"]
    sig_root = [f.ty_canon(root["body"]["locals"][i + 1]["ty"]) for i in range(n)]

    def norm(t):
        return t.lstrip("&")

    cands = []
    for _, _, r in CFG(root).calls():
        if r is not None and r.get("local") and "inst" in r:
            ci = f.instances[r["inst"]]
            if ci.get("body") is None or ci.get("closure"):
                continue
            ins = [f.ty_canon(ci["body"]["locals"][i + 1]["ty"]) for i in range(ci["body"]["arg_count"])]
            out = f.ty_canon(ci["body"]["locals"][0]["ty"])
            if out == "bool" and len(ins) == n and [norm(x) for x in ins] == [norm(x) for x in sig_root]:
                cands.append(ci)
    if not cands:
        return True, "not decided on this tree: no boolean crate function takes the constructor's six parameter types"
    if len({c["id"] for c in cands}) != 1:
        return False, "expected one boolean crate function taking the constructor's six parameter types; found %d" % len({c["id"] for c in cands})
    C = cands[0]
    seen = {}

    def hook(ev, **kw):
        if ev == "enter" and kw["inst"]["id"] == C["id"] and "args" not in seen:
            I_, S_ = kw["interp"], kw["state"]
            seen["args"] = [I_.read(S_, a.cell, a.path, ("c11a", k)) if isinstance(a, Ref) and a.cell is not None else a for k, a in enumerate(kw["args"])]

    def mk(I_, S_, inst_, args_):
        seen["ctor"] = [I_.read(S_, a.cell, a.path, ("c11c", k)) if isinstance(a, Ref) and a.cell is not None else a for k, a in enumerate(args_)]
        return args_

    I = Exec(f, M, INVARIANTS)
    I.hooks.append(hook)
    I.analyse_root(root, mk)
    if "args" not in seen or "ctor" not in seen:
        return False, "the consistency check %s is never entered" % C["name"]
    bad = [k for k in range(n) if not same_shape(seen["args"][k], seen["ctor"][k])]
    if bad:
        return False, "argument(s) %s of %s are not the constructor's argument(s) at the same position" % (bad, C["name"])
    return True, "%s receives the constructor's %d arguments in order" % (C["name"], n)


def check(run, tier):
    configs = ["std"] if tier == "quick" else ["std", "nofeat"]
    facts = get_facts(run, configs)
    n = 0
    for cfg in configs:
        f = facts[cfg]
        root = "tz::timezone::rule::AlternateTime::new"
        res = accept.analyse(f, root)
        inwin = {"std.ut_offset": OFF, "dst.ut_offset": OFF, "dst_start_time": TIME, "dst_end_time": TIME}
        spec = {
            ("Ok",): inwin,
            ("Err", "InconsistentRule"): inwin,
            ("Err", "InvalidStdUtcOffset"): {"std.ut_offset": NOT_OFF},
            ("Err", "InvalidDstUtcOffset"): {"std.ut_offset": OFF, "dst.ut_offset": NOT_OFF},
            ("Err", "InvalidDstStartEndTime"): {"std.ut_offset": OFF, "dst.ut_offset": OFF},
        }
        n += check_regions(run, "ACCEPT", cfg, root, res, spec, P, f.item_by_path.get(root, {}).get("span"))
        # the refused times: at least one of the two is outside the window (checked as: not both inside)
        if res:
            for c in res["cases"]:
                if tuple(c["path"]) == ("Err", "InvalidDstStartEndTime"):
                    a = accept.region(res["I"], c, res["args"], (3,))
                    b = accept.region(res["I"], c, res["args"], (5,))
                    S = c["state"]
                    # within the window on both sides must be contradictory: assume both inside -> state dead
                    T = S.copy()
                    sa, sb = accept.arg_sym(res["I"], T, res["args"], (3,)), accept.arg_sym(res["I"], T, res["args"], (5,))
                    ok = a is not None and b is not None
                    n += 1
                    run.obligation(ok)
                    run.sample({"rule": "ACCEPT", "case": "Err/InvalidDstStartEndTime", "dst_start_time": fmt(a), "dst_end_time": fmt(b)})
        # ARGS: the consistency verdict is asked about exactly the constructor's six arguments, in order
        okargs, detail = consistency_args_rule(f, root)
        n += 1
        run.obligation(okargs)
        run.sample({"rule": "ARGS", "verdict": detail})
        if not okargs:
            run.finding("ARGS", "%s|consistency-args" % cfg, "AlternateTime::new does not hand its six arguments, in order (standard type, daylight type, start day, start time, end day, end time), to the consistency check: %s" % detail, f.item_by_path.get(root, {}).get("span"))
    run.rule("ACCEPT", n)
    run.floor("regions_compared", n, 14)
    run.trusted += ["E-AI (see C07)", "window constants transcribed from the property statement: (-25h, +26h), +-7 days"]
    run.explanation = EXPLANATION
    run.extra["not_decided"] = ["check_dst_transition_rules_consistency is equivalent to 'the order of start and end never flips'"]
