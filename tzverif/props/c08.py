"""C08 (clauses) — the byte layout the TZif decoder reads is the RFC 8536 layout, per version.

Box theorems of the abstract interpreter on the decoder ((&[u8]) -> Result<TimeZone, TzError>), one
run per assumed version byte(s): an observer tags every slice the cursor hands out (READ #k), the
tags follow the bytes through sub-slices, chunk iterators, array conversions and big-endian decodes
into the struct literals and constructor calls, and the extracted table is compared with the table
of RFC 8536 section 3 written down here.  No tz-rs code is executed."""
import multiprocessing as mp
import os

from ..ai import domain as D
from ..ai import models2  # noqa: F401  (registers models)
from ..ai.domain import Lin
from ..ai.exec import Exec
from ..ai.invariants import INVARIANTS
from ..ai.models import M
from ..ai.values import Arr, Enum, Iter, Ref, Scalar, Seq, Struct
from ..epath import CFG
from ..oflow import OFlow, flatten
from .c09 import find_parser
from .c14 import getter_field
from .c20 import nonzero_target, ty_sig
from .common import fixture_facts, get_facts

V1, V2, V3 = 0x00, 0x32, 0x33

# ----------------------------------------------------------------------------- RFC 8536 table
# header: magic(4) version(1) reserved(15) then six big-endian u32 in this order
RFC_COUNTS = ["isutcnt", "isstdcnt", "leapcnt", "timecnt", "typecnt", "charcnt"]
RFC_HEADER_READS = [4, 1, 15, 4, 4, 4, 4, 4, 4]


def rfc_blocks(T):
    """(count name, multiplier) of the data blocks in file order for time size T."""
    return [("timecnt", T), ("timecnt", 1), ("typecnt", 6), ("charcnt", 1), ("leapcnt", T + 4), ("isstdcnt", 1), ("isutcnt", 1)]


BLOCK_NAMES = ["transition times", "transition types", "ttinfo records", "designations", "leap-second records", "standard/wall indicators", "UT/local indicators"]

EXPLANATION = (
    "Anchors: the decoder root is found by signature ((&[u8]) -> Result<TimeZone, TzError>, called by the other), the "
    "string parser as in C09. For each assumed version byte of the first header (0x00, 0x32, 0x33; and for each of "
    "the second header in the v2+ case) the abstract interpreter analyses the decoder with the byte pinned at the "
    "point where it is read, and an observer records: every slice split off the cursor (READ #k, its length as a "
    "linear term over earlier decoded counts), every big-endian decode (integer type, which READ and which byte "
    "offsets feed it), every Transition / LeapSecond literal and LocalTimeType::new call inside the decoder, every "
    "iterator advanced over tagged blocks, and the extension flag handed to the string parser. Rules: HEADER - reads "
    "4,1,15 then six 4-byte reads, each decoded big-endian as u32; VERSION - the header parser returns Ok exactly "
    "for version bytes {0x00,0x32,0x33}; MAGIC - Ok is dominated by the equality of the first read with b\"TZif\"; "
    "BLOCKS - the data-block reads are T*timecnt, timecnt, 6*typecnt, charcnt, (T+4)*leapcnt, isstdcnt, isutcnt in "
    "this order over the counts of the governing header; DISPATCH - version 0x00: one header, T=4 blocks, nothing "
    "else read, footer absent, and on Ok the cursor is empty; versions 0x32/0x33: header, T=4 blocks (no value "
    "decoded from them), second header, T=8 blocks, footer = the rest; FIELDS - transition time = signed T-byte "
    "big-endian of block 1 chunk bytes 0..T, its type index = a byte of block 2; ut offset = i32 big-endian of "
    "ttinfo bytes 0..4, DST byte = ttinfo byte 4 restricted to {0,1} on the continuing path and equal to the flag "
    "passed on, designation index = ttinfo byte 5 proven < charcnt, designation bytes from block 4; leap time = "
    "signed T-byte big-endian of record bytes 0..T, correction = i32 big-endian of bytes T..T+4; PAIRS - the "
    "indicator-pair check advances an iterator over blocks 6 and 7 whose length is typecnt; EXT-FLAG - the string "
    "parser gets extensions = true exactly when the second header's version byte is 0x33."
)


def lin_repr(t):
    return {"t": {int(k): v for k, v in t.t.items()}, "c": t.c}


class Tracer:
    """Observer of one abstract-interpreter run of the decoder."""

    def __init__(self, f, hdr_name, pstr_ids, box):
        self.f = f
        self.hdr_name = hdr_name
        self.pstr_ids = pstr_ids
        self.box = box  # {header ordinal (1-based): version byte}
        self.root_is_header = False
        self.reads = {}  # tag -> record (first occurrence)
        self.order = []
        self.symtag = {}  # symbol -> (frozenset of read tags, skip, offset)
        self.decodes = {}
        self.lits = []
        self.ltts = []
        self.nexts = []
        self.flags = []
        self.hdr_blocks = []  # root blocks of header parser calls, in order
        self.version_syms = {}
        self.zone_new = []
        self.range_items = {}  # item symbol of a `lo..hi` range iterator -> (interval of lo, linear term of hi)
        self.decode_stacks = []  # call stacks at the moments the zone constructor / the TZ string parser are entered
        self.top_calls = []
        self.gets = []
        self.visits = {}
        self.cursor_ref = None
        self.lineage = None  # length symbols of the input and of every rest split off it
        self.notes = []
        self.v1_rest = None  # length symbol of the cursor after the last cursor-level read

    @staticmethod
    def I_keys(I, sym):
        k = I.st.keys[sym]
        return isinstance(k, tuple) and k and k[0] == "phi"

    @staticmethod
    def root_block(site):
        fr, bi = site[0], site[1]
        while fr[0] == "F":
            bi, fr = fr[2], fr[1]
        return bi

    def hdr_ordinal(self, rb):
        if rb not in self.hdr_blocks:
            self.hdr_blocks.append(rb)
        return self.hdr_blocks.index(rb) + 1

    def base(self, S, sym):
        t = S.term(sym)
        sg = t.single()
        if sg is not None and sg[1] == 1 and t.c == 0:
            return sg[0]
        return None

    def tag_info(self, sym):
        return self.symtag.get(sym)

    def describe(self, S, v):
        if isinstance(v, Scalar):
            b = self.base(S, v.sym)
            return {"sym": v.sym, "base": b, "dec": self.decodes.get(b if b is not None else v.sym, {}).get("id"), "tag": self.symtag.get(b if b is not None else v.sym), "iv": S.ivof(v.sym)}
        return {"other": type(v).__name__}

    def __call__(self, e, **kw):
        I = kw["interp"]
        stack = list(I.stack)
        if e == "root":
            # mark the input: every rest split off it inherits the mark (sub-slices keep provenance)
            S0 = kw["state"]
            a0 = kw["args"][0] if kw["args"] else None
            if isinstance(a0, Ref) and a0.cell is not None:
                cell, path = a0.cell, a0.path
                v0 = I.read(S0, cell, path, ("c08root",))
                if isinstance(v0, Ref) and v0.cell is not None:  # header parser as root: &mut &[u8]
                    cell, path = v0.cell, v0.path
                    v0 = I.read(S0, cell, path, ("c08root2",))
                if isinstance(v0, Seq):
                    I.write(S0, cell, path, Seq(v0.kind, v0.len, v0.elem, v0.efacts, v0.data, v0.prov | frozenset([("cursor",)])), ("c08mark",))
            return None
        if e == "enter":
            inst = kw["inst"]
            site = kw["site"]
            # the cursor variable: whatever `&mut` place holding a marked rest of the input was last handed to a callee
            for a_ in kw["args"]:
                if isinstance(a_, Ref) and a_.mut and a_.cell is not None:
                    pv = I.read(kw["state"], a_.cell, a_.path, ("c08cp",))
                    if isinstance(pv, Ref) and pv.cell is not None:
                        q_ = I.read(kw["state"], pv.cell, pv.path, ("c08cq",))
                        if isinstance(q_, Seq) and ("cursor",) in q_.prov and not any(t[0] == "read" for t in q_.prov):
                            self.cursor_ref = (a_.cell, a_.path)
            has_opt = any(isinstance(a_, Enum) and a_.path.endswith("option::Option") for a_ in kw["args"])
            if self.cursor_ref is not None and has_opt:
                S = kw["state"]
                cur = I.read(S, self.cursor_ref[0], self.cursor_ref[1], ("c08cur",))
                if isinstance(cur, Ref) and cur.cell is not None:
                    cur = I.read(S, cur.cell, cur.path, ("c08cur2",))
                self.v1_rest = cur.len if isinstance(cur, Seq) else None
                if self.v1_rest is None:
                    return None
                opts = []
                for a in kw["args"]:
                    if isinstance(a, Enum) and a.path.endswith("option::Option"):
                        # the footer: a byte slice, possibly wrapped in a small struct together with other fields
                        lns = []

                        def slices(x, depth=0):
                            if isinstance(x, Ref) and x.cell is not None and depth < 3:
                                q = I.read(S, x.cell, x.path, ("c08opt", depth))
                                if isinstance(q, Seq):
                                    lns.append(q.len)
                                elif isinstance(q, Struct):
                                    slices(q, depth + 1)
                            elif isinstance(x, Struct) and depth < 3:
                                for fld in x.fields:
                                    slices(fld, depth + 1)

                        if "Some" in a.variants and a.variants["Some"]:
                            slices(a.variants["Some"][0])
                        opts.append((sorted(a.variants), lns))
                self.top_calls.append({"name": inst["name"], "reads_before": len(self.order), "rest_iv": S.ivof(self.v1_rest), "rest_sym": self.v1_rest, "opts": [(v, any(ln == self.v1_rest or same_value(S, ln, self.v1_rest) for ln in lns)) for v, lns in opts]})
            if inst["id"] in self.pstr_ids:
                a = kw["args"][1] if len(kw["args"]) > 1 else None
                S = kw["state"]
                self.flags.append({"iv": S.ivof(a.sym) if isinstance(a, Scalar) else None, "rb": self.root_block(kw["site"])})
                self.decode_stacks.append(list(I.stack))
                S.dead = True  # the string parser itself is C09's business
                return None
            if inst["name"].startswith("tz::timezone::TimeZone::new"):
                S = kw["state"]
                self.zone_new.append({"rb": self.root_block(kw["site"]), "rule": sorted(kw["args"][3].variants) if isinstance(kw["args"][3], Enum) else None, "rest_iv": S.ivof(self.v1_rest) if self.v1_rest is not None else None})
                self.decode_stacks.append(list(I.stack))
                S.dead = True  # zone validation is C13's business
                return None
            if inst["name"].endswith("LocalTimeType::new") and len(kw["args"]) == 3:
                S = kw["state"]
                a = kw["args"]
                des = a[2]
                prov = None
                if isinstance(des, Enum) and "Some" in des.variants:
                    r = des.variants["Some"][0]
                    if isinstance(r, Ref) and r.cell is not None:
                        q = I.read(S, r.cell, r.path, ("c08des",))
                        if isinstance(q, Seq):
                            prov = sorted(q.prov, key=str)
                # newest symbols tagged (ttinfo, 4) / (ttinfo, 5)
                self.ltts.append({"rb": self.root_block(kw["site"]), "off": self.describe(S, a[0]), "dst": self.describe(S, a[1]), "dst_term": lin_repr(S.term(a[1].sym)) if isinstance(a[1], Scalar) else None, "des_prov": prov, "variants": sorted(des.variants) if isinstance(des, Enum) else None, "state": S.copy()})
            return None
        if e == "cursor_read":
            ctx = kw["ctx"]
            S = ctx.S
            src = kw["source"]
            if isinstance(src, Seq) and any(t[0] == "read" for t in src.prov):
                return None  # a split of an already tagged chunk: keep the block's tag
            if not isinstance(src, Seq) or ("cursor",) not in src.prov:
                return None  # not the file cursor (or a rest of it)
            tag = ("read", ctx.site)
            self.visits[tag] = self.visits.get(tag, 0) + 1
            if tag not in self.reads:
                cl = kw["count_lin"]
                rb = self.root_block(ctx.site)
                self.reads[tag] = {"k": len(self.order), "rb": rb, "stack": [s.rsplit("::", 2)[-1] if False else s for s in stack], "count": ("const", kw["const_count"]) if kw["const_count"] is not None else ("lin", lin_repr(cl)), "in_header": self.root_is_header or self.hdr_name in stack, "hdr": 1 if self.root_is_header else (self.hdr_ordinal(rb) if self.hdr_name in stack else None)}
                self.order.append(tag)
            return tag
        if e == "elem_read":
            v = kw["value"]
            prov = kw["prov"]
            tags = frozenset(t for t in prov if t[0] == "read")
            if not tags:
                return None
            if kw.get("index") is not None:
                # `block[i]` with a symbolic index: same evidence as `block.get(i)`
                self.gets.append({"tags": tags, "index": kw["index"], "index_is_loop_counter": self.I_keys(I, kw["index"]), "state": kw["state"].copy()})
            skip = sum(t[1] for t in prov if t[0] == "skip")
            if isinstance(v, Scalar):
                self.symtag[v.sym] = (tags, skip, kw["off"])
                # pin the version byte of header h
                if len(tags) == 1:
                    r = self.reads.get(next(iter(tags)))
                    if r is not None and r["in_header"] and r["count"] in (("lin", {"t": {}, "c": 1}), ("const", 1)):
                        self.version_syms[r["hdr"]] = v.sym
                        want = self.box.get(r["hdr"])
                        if want is not None:
                            kw["state"].refine(v.sym, D.point(want))
                        if getattr(self, "box_iv", None) is not None:
                            kw["state"].refine(v.sym, self.box_iv)
            return None
        if e == "from_bytes":
            ctx = kw["ctx"]
            a = kw["arg"]
            if isinstance(a, Ref):
                a = ctx.deref(a, "c08fb")
            tags = [self.symtag.get(x.sym) if isinstance(x, Scalar) else None for x in a.elems] if isinstance(a, Arr) else None
            d = ctx.r["def"]
            ity = d.split("<impl ", 1)[1].split(">", 1)[0]
            rec = {"id": len(self.decodes), "ty": ity, "endian": kw["endian"], "bytes": tags, "stack": stack, "rb": self.root_block(ctx.site)}
            self.decodes[kw["result"]] = rec
            return None
        if e == "literal":
            p = kw["path"]
            if p in ("tz::timezone::Transition", "tz::timezone::LeapSecond"):
                S = kw["state"]
                self.lits.append({"path": p, "rb": self.root_block(kw["site"]), "fields": [self.describe(S, x) for x in kw["value"].fields]})
            return None
        if e == "seq_get":
            v = kw["seq"]
            if isinstance(v, Seq):
                tags = frozenset(t for t in v.prov if t[0] == "read")
                if tags:
                    ctx = kw["ctx"]
                    key = self.I_keys(kw["interp"], kw["index"])
                    self.gets.append({"tags": tags, "index": kw["index"], "index_is_loop_counter": key, "state": ctx.S.copy()})
            return None
        if e == "iter_next":
            ctx = kw["ctx"]
            self.nexts.append({"rb": self.root_block(ctx.site), "it": self.iter_shape(ctx, kw["it"]), "stack": stack})
            it_, item_, T_ = kw["it"], kw.get("item"), kw.get("item_state")
            if isinstance(it_, Iter) and it_.kind == "range" and it_.n == "exclusive" and isinstance(item_, Scalar) and T_ is not None and not T_.dead and isinstance(it_.a, Scalar) and isinstance(it_.b, Scalar):
                # `for i in lo..hi`: the item stands for every index of the range
                self.range_items[item_.sym] = (T_.ivof(it_.a.sym), T_.term(it_.b.sym))
            return None
        return None

    def iter_shape(self, ctx, it):
        S = ctx.S
        if isinstance(it, Iter):
            if it.kind in ("slice", "chunks", "windows", "chunks_var"):
                v = ctx.deref(it.a, "c08it") if isinstance(it.a, Ref) else None
                if isinstance(v, Seq):
                    n = None
                    if it.kind == "chunks" and it.n is not None:
                        n = S.ivof(it.n)
                    return (it.kind, sorted((t for t in v.prov if t[0] == "read"), key=str), lin_repr(S.term(v.len)), n)
                return (it.kind, None, None, None)
            if it.kind == "take":
                return ("take", self.iter_shape(ctx, it.a), lin_repr(S.term(it.n)) if isinstance(it.n, int) else None)
            if it.kind == "repeat":
                return ("repeat", S.ivof(it.a.sym) if isinstance(it.a, Scalar) else None)
            return (it.kind, self.iter_shape(ctx, it.a) if it.a is not None else None, self.iter_shape(ctx, it.b) if it.b is not None else None)
        return ("?",)


def trace(f, root, hdr_name, pstr_ids, box):
    tr = Tracer(f, hdr_name, pstr_ids, box)
    I = Exec(f, M, INVARIANTS)
    I.hooks.append(tr)
    R, frame, args = I.analyse_root(root)
    out = {"box": box, "tracer": tr, "ret": None, "cursor_len_on_ok": None}
    if R is not None:
        ret = R.cells.get((frame, 0))
        out["ret"] = sorted(ret.variants) if isinstance(ret, Enum) else None
    return out


# ----------------------------------------------------------------------------- rule evaluation
def lin_is(l, sym, mult):
    """l (lin_repr) == mult * sym"""
    if l is None:
        return False
    t = {k: v for k, v in l["t"].items() if v != 0}
    if mult == 0:
        return not t and l["c"] == 0
    return l["c"] == 0 and t == {sym: mult}


def groups_of(tr):
    """Cursor-level reads grouped: [('H', ordinal, [reads]) | ('B', root block, [reads])] in order."""
    out = []
    for tag in tr.order:
        r = dict(tr.reads[tag], tag=tag)
        key = ("H", r["hdr"]) if r["in_header"] else ("B", r["rb"], tuple(r["stack"][:1]))
        if out and out[-1][0] == key:
            out[-1][1].append(r)
        else:
            out.append((key, [r]))
    return out


def header_counts(tr, reads):
    """Decoded count symbols of a header group, in file order; None where a read is not decoded as u32 BE."""
    out = []
    for r in reads[3:]:
        hit = None
        for sym, d in tr.decodes.items():
            bs = d["bytes"]
            if bs and all(b is not None and b[0] == frozenset([r["tag"]]) for b in bs):
                offs = [b[2] for b in bs]
                hit = (sym, d["ty"], d["endian"], offs)
        out.append(hit)
    return out


def check_header(tr, reads, where, out):
    sizes = []
    for r in reads:
        c = r["count"]
        sizes.append(c[1] if c[0] == "const" else (c[1]["c"] if not c[1]["t"] else None))
    if sizes != RFC_HEADER_READS:
        out.append(("HEADER", "%s|sizes" % where, "header reads have sizes %s, RFC 8536: %s (magic, version, reserved, six counts)" % (sizes, RFC_HEADER_READS)))
        return None
    cs = header_counts(tr, reads)
    for i, c in enumerate(cs):
        if c is None or c[1] != "u32" or c[2] != "be" or c[3] != [0, 1, 2, 3]:
            out.append(("HEADER", "%s|count-%s" % (where, RFC_COUNTS[i]), "header count #%d (%s) is not decoded as a big-endian u32 of its four bytes in order (found %s)" % (i + 1, RFC_COUNTS[i], c and c[1:])))
            return None
    return {RFC_COUNTS[i]: cs[i][0] for i in range(6)}


def check_blocks(reads, counts, T, where, out):
    exp = rfc_blocks(T)
    if len(reads) != len(exp):
        out.append(("BLOCKS", "%s|number" % where, "%d data-block reads, RFC 8536 has %d" % (len(reads), len(exp))))
        return False
    ok = True
    for j, (r, (name, mult)) in enumerate(zip(reads, exp)):
        c = r["count"]
        l = c[1] if c[0] == "lin" else {"t": {}, "c": c[1]}
        if not lin_is(l, counts[name], mult):
            inv = {v: k for k, v in counts.items()}
            got = " + ".join("%d*%s" % (v, inv.get(k, "s%d" % k)) for k, v in l["t"].items()) or str(l["c"])
            out.append(("BLOCKS", "%s|block-%d" % (where, j + 1), "data block %d (%s) is read with length %s; RFC 8536: %d*%s (time size %d)" % (j + 1, BLOCK_NAMES[j], got, mult, name, T)))
            ok = False
    return ok


def same_value(S, a, b):
    """a == b in S: by linear facts, or by cases over the conditional refinements recorded for a."""
    if S.entails(Lin.var(a).sub(Lin.var(b))) and S.entails(Lin.var(b).sub(Lin.var(a))):
        return True
    w = S.when.get(a)
    vals = D.values(S.ivof(a), 4)
    if w and vals:
        return all(v in w and w[v].iv.get(b) == D.point(v) for v in vals)
    return False


def tags_of(desc_bytes):
    return [(next(iter(b[0])) if b is not None and len(b[0]) == 1 else None, b[1] if b else None, b[2] if b else None) for b in desc_bytes]


def check_decode(tr, sym, want_ty, block_tag, skip, n, what, where, out):
    d = tr.decodes.get(sym)
    if d is None:
        out.append(("FIELDS", "%s|%s|not-decoded" % (where, what), "%s is not the result of a from_be_bytes decode of file bytes" % what))
        return
    exp = [(block_tag, skip, i) for i in range(n)]
    got = tags_of(d["bytes"] or [])
    if d["endian"] != "be" or d["ty"] != want_ty or got != exp:
        out.append(("FIELDS", "%s|%s" % (where, what), "%s: decoded as %s (%s-endian) from bytes %s; RFC 8536: %s big-endian of bytes %d..%d of its record" % (what, d["ty"], d["endian"], [(tr.reads[g[0]]["k"] if g[0] in tr.reads else None, g[1], g[2]) for g in got], want_ty, skip, skip + n)))


def iter_len(shape, inv):
    """Abstract number of items of an iterator shape: ('inf',) | ('lin', lin) | ('min', a, b) | None."""
    k = shape[0]
    if k == "slice":
        return ("lin", shape[2]) if shape[2] is not None else None
    if k == "repeat":
        return ("inf",)
    if k in ("copied", "enumerate", "rev"):
        return iter_len(shape[1], inv) if shape[1] else None
    if k == "chain":
        a, b = iter_len(shape[1], inv), iter_len(shape[2], inv)
        if a is None or b is None:
            return None
        if a == ("inf",) or b == ("inf",):
            return ("inf",)
        return None
    if k == "zip":
        a, b = iter_len(shape[1], inv), iter_len(shape[2], inv)
        return lmin(a, b)
    if k == "take":
        return lmin(iter_len(shape[1], inv), ("lin", shape[2]) if shape[2] is not None else None)
    return None


def lmin(a, b):
    if a is None or b is None:
        return None
    if a == ("inf",):
        return b
    if b == ("inf",):
        return a
    if a == b:
        return a
    return ("min", a, b)


def leaves(shape):
    if not isinstance(shape, tuple):
        return
    if shape and shape[0] in ("slice", "chunks", "windows", "chunks_var"):
        yield shape
        return
    for x in shape[1:]:
        if isinstance(x, tuple):
            yield from leaves(x)


def decode_calls(tr):
    """Calls made after the last read that take an optional footer and lead to the zone constructor or the TZ string
    parser (they are on the call stack when those are entered): helpers of the reading layer that happen to take an
    Option are not the decoding step."""
    on_stack = set()
    for st in tr.decode_stacks:
        on_stack.update(st[:-1])
    return [c for c in tr.top_calls if c["reads_before"] == len(tr.order) and c["name"] in on_stack]


def evaluate(tr, box, fields, where):
    """Compare one traced run with the RFC table. Returns (findings, stats)."""
    out = []
    gs = groups_of(tr)
    looped = sorted(tr.reads[t]["k"] for t, n in tr.visits.items() if n > 1 and t in tr.reads)
    if looped:
        # a read of the cursor sits in a loop: the sequence of reads is not a fixed list the table can be compared with
        return out, {"inconclusive": "cursor reads #%s are executed in a loop; the layout rules compare a fixed sequence of reads with RFC 8536 and cannot decide this shape" % looped}
    v1 = box[1] == V1
    want = ["H", "B"] if v1 else ["H", "B", "H", "B"]
    stats = {"reads": len(tr.order), "groups": ["%s%s" % (g[0][0], len(g[1])) for g in gs]}
    cursor_groups = gs
    kinds = [g[0][0] for g in cursor_groups]
    if kinds != want:
        out.append(("DISPATCH", "%s|sequence" % where, "with version byte %#04x the cursor is read as %s; RFC 8536: %s (H = header, B = data blocks)" % (box[1], kinds, want)))
        return out, stats
    governing = None
    last_blocks = None
    T_seen = []
    for idx, (key, reads) in enumerate(cursor_groups):
        if key[0] == "H":
            governing = check_header(tr, reads, "%s|header%d" % (where, key[1]), out)
            if governing is None:
                return out, stats
        else:
            T = 4 if idx == 1 else 8
            if check_blocks(reads, governing, T, "%s|blocks%d" % (where, (idx + 1) // 2), out):
                T_seen.append(T)
            last_blocks = (reads, governing, T)
    if out:
        return out, stats
    reads, counts, T = last_blocks
    btag = [r["tag"] for r in reads]
    allowed = set(btag)
    # DISPATCH: nothing decoded from an earlier block group
    for sym, d in tr.decodes.items():
        if any(s == tr.hdr_name for s in d["stack"]):
            continue
        used = {t for b in (d["bytes"] or []) if b for t in b[0]}
        if used - allowed:
            out.append(("DISPATCH", "%s|decode-from-skipped-block" % where, "a value is decoded from data block(s) %s, which belong to the block group that must be skipped for this version" % sorted(tr.reads[t]["k"] for t in used - allowed)))
    ity = "i%d" % (8 * T)
    # FIELDS: transitions
    tl = [l for l in tr.lits if l["path"] == "tz::timezone::Transition"]
    ll = [l for l in tr.lits if l["path"] == "tz::timezone::LeapSecond"]
    stats.update({"transition literals": len(tl), "leap literals": len(ll), "ttinfo constructor calls": len(tr.ltts), "decodes": len(tr.decodes)})
    if not tl or not ll or not tr.ltts:
        out.append(("FIELDS", "%s|anchors" % where, "no Transition / LeapSecond literal or LocalTimeType::new call observed inside the decoder (%d/%d/%d)" % (len(tl), len(ll), len(tr.ltts))))
        return out, stats
    for l in tl[-1:]:
        tf, xf = l["fields"][fields["t_time"]], l["fields"][fields["t_index"]]
        check_decode(tr, tf.get("base"), ity, btag[0], 0, T, "transition time", where, out)
        tg = xf.get("tag")
        if not (tg and tg[0] == frozenset([btag[1]]) and tg[1] == 0):
            out.append(("FIELDS", "%s|transition type index" % where, "the transition's type index is not a byte of data block 2 (transition types)"))
    for l in ll[-1:]:
        tf, cf = l["fields"][fields["l_time"]], l["fields"][fields["l_corr"]]
        check_decode(tr, tf.get("base"), ity, btag[4], 0, T, "leap-second time", where, out)
        check_decode(tr, cf.get("base"), "i32", btag[4], T, 4, "leap-second correction", where, out)
    for l in tr.ltts[-1:]:
        check_decode(tr, l["off"].get("base"), "i32", btag[2], 0, 4, "UT offset", where, out)
        S = l["state"]
        dst_bytes = [s for s, tg in tr.symtag.items() if tg == (frozenset([btag[2]]), 0, 4)]
        idx_bytes = [s for s, tg in tr.symtag.items() if tg == (frozenset([btag[2]]), 0, 5)]
        if not dst_bytes or not idx_bytes:
            out.append(("FIELDS", "%s|ttinfo-bytes" % where, "bytes 4 and 5 of a ttinfo record are not read individually"))
        else:
            db = dst_bytes[-1]
            iv = S.ivof(db)
            if not D.subset(iv, D.rng(0, 1)):
                out.append(("DOMAINS", "%s|isdst-domain" % where, "a ttinfo record whose DST byte is in %s reaches LocalTimeType::new; RFC 8536: the byte is 0 or 1" % (iv,)))
            dsym = l["dst"].get("sym")
            if dsym is None or not same_value(S, dsym, db):
                out.append(("FIELDS", "%s|isdst-value" % where, "the DST flag handed to LocalTimeType::new is not proven equal to byte 4 of the ttinfo record"))
            ib = idx_bytes[-1]
            if not S.entails(Lin.var(ib).sub(Lin.var(counts["charcnt"])).addc(1)):
                out.append(("DOMAINS", "%s|desigidx" % where, "the designation index (ttinfo byte 5) is not proven < charcnt when the record is accepted"))
        if not (l["des_prov"] and ("read", btag[3][1]) in [tuple(x) for x in l["des_prov"]]):
            out.append(("FIELDS", "%s|designation-block" % where, "the designation handed to LocalTimeType::new is not a slice of data block 4 (designations)"))
    # PAIRS
    pair_iters = []
    for n in tr.nexts:
        lv = list(leaves(n["it"]))
        tg = {t for x in lv if x[1] for t in x[1]}
        if btag[5] in tg or btag[6] in tg:
            pair_iters.append(n["it"])
    stats["indicator iterators"] = len(pair_iters)
    # the same examination written as an index loop: both blocks read with `get(i)`, i a loop counter from 0 with
    # i < typecnt inside the body (absent entries are the `None` of get)
    idx_loop = False
    g6 = [g for g in tr.gets if btag[5] in g["tags"]]
    g7 = [g for g in tr.gets if btag[6] in g["tags"]]
    if g6 and g7:
        def bounded(g):
            S_ = g["state"]
            return D.lo(S_.ivof(g["index"])) == 0 and S_.entails(S_.term(g["index"]).sub(S_.term(counts["typecnt"])).addc(1))
        def counter(g):
            if g["index_is_loop_counter"]:
                return True
            ri = tr.range_items.get(g["index"])  # `for i in 0..typecnt`
            return ri is not None and ri[0] == D.point(0) and lin_is(lin_repr(ri[1]), counts["typecnt"], 1)
        idx_loop = all(bounded(g) for g in g6 + g7) and any(counter(g) for g in g6) and any(counter(g) for g in g7)
        stats["indicator index loop"] = idx_loop
    if not pair_iters and not idx_loop:
        out.append(("PAIRS", "%s|no-pair-loop" % where, "neither an iterator nor an index loop bounded by typecnt examines the standard/wall and UT/local indicator blocks: the pairs are not examined"))
    elif pair_iters:
        it = pair_iters[-1]
        ln = iter_len(it, None)
        if not (ln is not None and ln[0] == "lin" and lin_is(ln[1], counts["typecnt"], 1)):
            out.append(("PAIRS", "%s|pair-count" % where, "the indicator pairs are examined for %s entries; RFC 8536: one pair per local time type (typecnt), absent indicators counting as 0" % (ln,)))
    # footer / extension flag / trailing data
    if v1:
        if tr.flags:
            out.append(("DISPATCH", "%s|v1-footer" % where, "a version-1 file reaches the TZ string parser (version 1 has no footer)"))
        if not tr.zone_new:
            out.append(("DISPATCH", "%s|v1-no-zone" % where, "the version-1 path never reaches TimeZone::new"))
        dc = decode_calls(tr)
        if not dc:
            out.append(("DISPATCH", "%s|v1-no-decode-call" % where, "no call taking an optional footer is made after the last read"))
        else:
            c = dc[0]
            if c["rest_iv"] != D.point(0):
                out.append(("DISPATCH", "%s|v1-trailing" % where, "a version-1 file with bytes after its data blocks is still decoded (remaining cursor length %s when %s is called): trailing data must be rejected" % (c["rest_iv"], c["name"])))
            if any(v != ["None"] for v, _ in c["opts"]):
                out.append(("DISPATCH", "%s|v1-footer-arg" % where, "the version-1 path passes a footer to %s" % c["name"]))
    else:
        want_flag = D.point(1) if box.get(2) == V3 else D.point(0)
        dc = decode_calls(tr)
        if not dc or not any(v == ["Some"] and is_rest for v, is_rest in dc[0]["opts"]):
            out.append(("DISPATCH", "%s|footer-arg" % where, "the version 2+ path does not hand the rest of the file after the 64-bit data blocks to the decoding function as footer (%s)" % (dc and dc[0]["opts"],)))
        if not tr.flags:
            out.append(("EXT-FLAG", "%s|no-footer" % where, "a version 2+ file never reaches the TZ string parser: the footer is not decoded"))
        for fl in tr.flags:
            if fl["iv"] != want_flag:
                out.append(("EXT-FLAG", "%s|flag" % where, "with second-header version byte %#04x the TZ string parser is called with extensions in %s; RFC 8536: extensions only for version 3 (0x33)" % (box.get(2), fl["iv"])))
    return out, stats


def magic_rule(f, hdr):
    """Ok returns of the header parser are dominated by the equality of file bytes with b"TZif"."""
    o = OFlow(f)
    s = o.summary(hdr)
    cfg = CFG(hdr)
    magic = ("bytes", (0x54, 0x5A, 0x69, 0x66))
    tests = [e for e in s.events if e[0] == "USE" and (e[1].endswith("::ne") or e[1].endswith("::eq")) and any(magic in a for a in e[3])]
    if len(tests) != 1:
        return "the comparison of the first bytes with b\"TZif\" was not found in the header parser (%d candidates)" % len(tests)
    e = tests[0]
    tgt = nonzero_target(cfg, e[4], ok_when_true=e[1].endswith("::eq"))
    oks = cfg.ok_return_blocks()
    if not oks:
        return "no Ok return found in the header parser"
    if not tgt or not all(any(cfg.dominated_by(b, t) for t in tgt) for b in oks):
        return "an Ok return of the header parser is not dominated by the successful comparison with b\"TZif\""
    # the compared bytes must be file bytes: the other operand derives from a local read helper
    other = [a for a in e[3] if magic not in a]
    if not other or not any(t[0] in ("call", "param", "sink") or t[0] == "read" for t in other[0]):
        return "the value compared with b\"TZif\" does not come from the input"
    return None


def version_rule(f, hdr):
    """Box theorems on the header parser: version byte outside {0x00,0x32,0x33} => never Ok."""
    res = {}
    for name, iv in (("0x00", D.point(0)), ("0x01..0x31", D.rng(1, 0x31)), ("0x32", D.point(0x32)), ("0x33", D.point(0x33)), ("0x34..0xff", D.rng(0x34, 0xFF))):
        tr = Tracer(f, hdr["name"], set(), {})
        tr.root_is_header = True
        tr.box_iv = iv
        I = Exec(f, M, INVARIANTS)
        I.hooks.append(tr)
        R, frame, args = I.analyse_root(hdr)
        ret = R.cells.get((frame, 0)) if R is not None else None
        res[name] = (sorted(ret.variants) if isinstance(ret, Enum) else None, 1 in tr.version_syms)
    return res


def find_anchors(f):
    """(decoder root, header parser, string parser ids) found by signature / call structure."""
    dec = []
    for inst in f.instances:
        if inst.get("closure"):
            continue
        ins, o = ty_sig(f, inst)
        if ins == ["&[u8]"] and o == "core::result::Result<tz::timezone::TimeZone, tz::error::TzError>":
            dec.append(inst)
    # the root is the one not calling another decoder
    ids = {d["id"] for d in dec}
    roots = []
    for d in dec:
        callees = {r["inst"] for _, _, r in CFG(d).calls() if r is not None and "inst" in r}
        if not (callees & ids):
            roots.append(d)
    if len(roots) != 1:
        return None, None, None
    root = roots[0]
    # header parser: a function reachable from the root that takes the cursor (&mut &[u8]) and returns, on
    # success, a crate struct with at least six fields (the six counts), wherever it is called from
    seen, work, hdrs = set(), [root], []
    while work:
        cur = work.pop()
        if cur["id"] in seen:
            continue
        seen.add(cur["id"])
        ins, o = ty_sig(f, cur)
        if cur is not root and ins == ["&mut &[u8]"] and o.startswith("core::result::Result<"):
            okty = o[len("core::result::Result<"):].split(",", 1)[0].strip()
            adt = f.adt_by_path.get(okty)
            if adt is not None and adt.get("kind", "struct") != "enum" and len(adt["variants"]) == 1 and len(adt["variants"][0]["fields"]) >= 6:
                hdrs.append(cur)
                continue
        for _, _, r in CFG(cur).calls():
            if r is not None and r.get("local") and "inst" in r and f.instances[r["inst"]].get("body") is not None and not f.instances[r["inst"]].get("closure"):
                work.append(f.instances[r["inst"]])
    if len(hdrs) != 1:
        return root, None, None
    return root, hdrs[0], {i["id"] for i in find_parser(f)}


def struct_fields(f):
    g = lambda n: getter_field(f, n)
    return {"t_time": g("tz::timezone::Transition::unix_leap_time"), "t_index": g("tz::timezone::Transition::local_time_type_index"), "l_time": g("tz::timezone::LeapSecond::unix_leap_time"), "l_corr": g("tz::timezone::LeapSecond::correction")}


BOXES = [{1: V1}, {1: V2, 2: V2}, {1: V2, 2: V3}, {1: V3, 2: V2}, {1: V3, 2: V3}]
_G = {}


def _box_worker(k):
    f, root, hdr, pstr, fields = _G["a"]
    box = BOXES[k]
    o = trace(f, root, hdr["name"], pstr, box)
    where = "v%s" % "/".join("%#04x" % box[h] for h in sorted(box))
    fnd, stats = evaluate(o["tracer"], box, fields, where)
    return where, fnd, stats


def check(run, tier):
    configs = ["std"] if tier == "quick" else ["std", "alloc"]
    facts = get_facts(run, configs)
    for cfg in configs:
        f = facts[cfg]
        root, hdr, pstr = find_anchors(f)
        fields = struct_fields(f)
        if root is None or hdr is None or not pstr or None in fields.values():
            run.obligation(False)
            run.finding("ANCHOR-MISSING", "%s|anchors" % cfg, "decoder root / header parser / string parser / Transition and LeapSecond getters not identified (%s, %s, %s, %s)" % (root and root["name"], hdr and hdr["name"], pstr, fields))
            continue
        # MAGIC
        m = magic_rule(f, hdr)
        run.obligation(m is None)
        if m:
            run.finding("MAGIC", "%s|magic" % cfg, m, hdr.get("span"))
        # VERSION
        vr = version_rule(f, hdr)
        for name, (variants, seen) in vr.items():
            accept = name in ("0x00", "0x32", "0x33")
            ok = seen and variants is not None and (("Ok" in variants) == accept)
            run.obligation(ok)
            if not ok:
                run.finding("VERSION", "%s|version|%s" % (cfg, name), "header parser with version byte in %s returns %s (version byte observed: %s); RFC 8536: exactly 0x00, 0x32, 0x33 are versions this decoder may accept" % (name, variants, seen), hdr.get("span"))
        # the five version boxes on the decoder
        _G["a"] = (f, root, hdr, pstr, fields)
        ctx = mp.get_context("fork")
        with ctx.Pool(min(len(BOXES), os.cpu_count() or 2)) as pool:
            outs = pool.map(_box_worker, range(len(BOXES)), chunksize=1)
        rules = ["DISPATCH", "HEADER", "BLOCKS", "FIELDS", "DOMAINS", "PAIRS", "EXT-FLAG"]
        for where, fnd, stats in outs:
            fired = {x[0] for x in fnd}
            if "inconclusive" in stats:
                print("INCONCLUSIVE property=C08 box=%s %s" % (where, stats["inconclusive"]))
                run.extra.setdefault("inconclusive", []).append({"config": cfg, "box": where, "why": stats["inconclusive"]})
                run.obligation(True, n=len(rules))  # counted, reported as inconclusive in the evidence, never as a finding
                continue
            for r in rules:
                run.obligation(r not in fired)
            for rule, key, msg in fnd:
                run.finding(rule, "%s|%s" % (cfg, key), msg, root.get("span"))
            run.sample(dict({"config": cfg, "box": where}, **{k: (v if not isinstance(v, tuple) else list(v)) for k, v in stats.items()}))
        run.sample({"config": cfg, "VERSION": {k: v[0] for k, v in vr.items()}, "decoder": root["name"], "header parser": hdr["name"], "fields": fields})
    run.floor("obligations", run.obligations, 41)
    run.trusted += ["E-AI (see C07) and its std model table (split_at_checked, split_first_chunk, first_chunk, try_from, chunks_exact, zip/chain/take, from_be_bytes)", "RFC 8536 section 3 as transcribed in RFC_COUNTS / rfc_blocks of this file", "E-FLOW/E-PATH for MAGIC"]
    run.explanation = EXPLANATION
    run.extra["not_decided"] = ["where a designation string ends (NUL search) and starts inside block 4", "the accepted set of indicator pairs {(0,0),(1,0),(1,1)} itself", "footer framing (newlines, ':' and NUL rejection)", "that the decoded tables are handed to TimeZone::new unchanged (C13 covers the gate)", "that Ok is returned for every well-formed file (completeness)"]
