"""E-PATH: CFG path rules on monomorphic bodies (dominance, reachability, success edges of calls)."""


def succs(b):
    t = b["term"]
    k = t["k"]
    if k == "goto":
        return [t["t"]]
    if k == "switch":
        return [c[1] for c in t["cases"]] + [t["otherwise"]]
    if k in ("call", "assert", "drop"):
        return [t["t"]] if t.get("t") is not None else []
    return []


class CFG:
    def __init__(self, inst):
        self.inst = inst
        self.blocks = inst["body"]["blocks"]
        self.n = len(self.blocks)
        self.succ = {i: [s for s in succs(b)] for i, b in enumerate(self.blocks) if not b.get("cleanup")}
        self.pred = {}
        for i, ss in self.succ.items():
            for s in ss:
                self.pred.setdefault(s, []).append(i)
        self._dom = None

    def reachable_from(self, starts, avoid=()):
        seen, st = set(), list(starts)
        while st:
            x = st.pop()
            if x in seen or x in avoid:
                continue
            seen.add(x)
            st.extend(self.succ.get(x, []))
        return seen

    def dominators(self):
        if self._dom is not None:
            return self._dom
        reach = self.reachable_from([0])
        order = sorted(reach)
        dom = {b: set(reach) for b in order}
        dom[0] = {0}
        changed = True
        while changed:
            changed = False
            for b in order:
                if b == 0:
                    continue
                ps = [p for p in self.pred.get(b, []) if p in reach]
                if not ps:
                    continue
                new = set.intersection(*[dom[p] for p in ps]) | {b}
                if new != dom[b]:
                    dom[b] = new
                    changed = True
        self._dom = dom
        return dom

    def dominated_by(self, b, d):
        return d in self.dominators().get(b, set())

    def calls(self):
        """[(block index, terminator, callee description dict or None)]"""
        out = []
        for i, b in enumerate(self.blocks):
            if b.get("cleanup"):
                continue
            t = b["term"]
            if t["k"] == "call":
                f = t["f"]
                r = (f["resolved"] or f["declared"]) if f["k"] == "item" else None
                out.append((i, t, r))
        return out

    def copies_of(self, local):
        """Locals that receive the value of `local` by plain use/copy/move (forward closure)."""
        out = {local}
        changed = True
        while changed:
            changed = False
            for b in self.blocks:
                for st in b["stmts"]:
                    if st["k"] == "assign" and st["rv"]["k"] == "use" and not st["place"]["p"]:
                        op = st["rv"]["op"]
                        pl = op.get("c") or op.get("m")
                        if pl is not None and not pl["p"] and pl["l"] in out and st["place"]["l"] not in out:
                            out.add(st["place"]["l"])
                            changed = True
        return out

    def success_targets(self, call_block):
        """Blocks entered only when the Result/Option returned by the call in `call_block` is
        Ok/Some: follows `?` (Try::branch -> Continue edge) and direct matches on the discriminant."""
        t = self.blocks[call_block]["term"]
        dest = t["dest"]["l"]
        holders = self.copies_of(dest)
        targets = []
        # through Try::branch
        for i, tt, r in self.calls():
            if r is not None and r["def"].endswith("::Try>::branch") and tt["args"]:
                a = tt["args"][0]
                pl = a.get("m") or a.get("c")
                if pl is not None and not pl["p"] and pl["l"] in holders:
                    targets.extend(self._discr_targets(self.copies_of(tt["dest"]["l"]), ok_value=0))
        targets.extend(self._discr_targets(holders, ok_value=0))
        return targets

    def failure_targets(self, call_block):
        t = self.blocks[call_block]["term"]
        holders = self.copies_of(t["dest"]["l"])
        out = []
        for i, tt, r in self.calls():
            if r is not None and r["def"].endswith("::Try>::branch") and tt["args"]:
                a = tt["args"][0]
                pl = a.get("m") or a.get("c")
                if pl is not None and not pl["p"] and pl["l"] in holders:
                    out.extend(self._discr_targets(self.copies_of(tt["dest"]["l"]), ok_value=1))
        out.extend(self._discr_targets(holders, ok_value=1))
        return out

    def _discr_targets(self, holders, ok_value):
        """Targets of `switch discriminant(h)` edges for the variant with discriminant ok_value
        (Ok / Some-for-Result-like enums have 0 = Ok/Continue/None... callers pass the right value)."""
        out = []
        for i, b in enumerate(self.blocks):
            dl = None
            for st in b["stmts"]:
                if st["k"] == "assign" and st["rv"]["k"] == "discr" and st["rv"]["place"]["l"] in holders and not st["rv"]["place"]["p"]:
                    dl = st["place"]["l"]
            t = b["term"]
            if dl is not None and t["k"] == "switch":
                op = t["op"]
                pl = op.get("m") or op.get("c")
                if pl is not None and pl["l"] == dl:
                    hit = [c[1] for c in t["cases"] if c[0] == ok_value]
                    if hit:
                        out.extend(hit)
                    else:
                        # `switch d [1: err, otherwise: ok]` form
                        if all(c[0] != ok_value for c in t["cases"]):
                            out.append(t["otherwise"])
        return out

    def ok_return_blocks(self):
        """Blocks that assign `_0 = Result::Ok{..}` (or Option::Some)."""
        out = []
        for i, b in enumerate(self.blocks):
            if b.get("cleanup"):
                continue
            for st in b["stmts"]:
                if st["k"] == "assign" and st["place"]["l"] == 0 and not st["place"]["p"] and st["rv"]["k"] == "aggregate" and st["rv"].get("variant") in ("Ok",):
                    out.append(i)
        return out

    def field_reads(self, param_local):
        """Field indices read from `*param` (the parameter is a reference to a struct) or `param`."""
        holders = self.copies_of(param_local)
        out = set()

        def visit(x):
            if isinstance(x, dict):
                if "l" in x and "p" in x and len(x) == 2 and x["l"] in holders:
                    proj = [p for p in x["p"] if p != "deref"]
                    if proj and isinstance(proj[0], dict) and "f" in proj[0]:
                        out.add(proj[0]["f"])
                for v in x.values():
                    visit(v)
            elif isinstance(x, list):
                for v in x:
                    visit(v)

        for b in self.blocks:
            if not b.get("cleanup"):
                visit(b["stmts"])
                visit(b["term"])
        return out


def field_reads_deep(f, inst, param_local, depth=0):
    """field_reads of the parameter, including reads made by closures built in this function that capture (a copy
    of / a reference to) the parameter."""
    c = CFG(inst)
    out = set(c.field_reads(param_local))
    if depth > 2:
        return out
    holders = c.copies_of(param_local)
    # references to a holder (`&_1`) are holders too, for the purpose of capture
    changed = True
    while changed:
        changed = False
        for b in c.blocks:
            for st in b["stmts"]:
                if st["k"] == "assign" and not st["place"]["p"] and st["place"]["l"] not in holders:
                    rv = st["rv"]
                    src = None
                    if rv["k"] == "ref":
                        src = rv["place"]
                    elif rv["k"] == "use":
                        src = rv["op"].get("c") or rv["op"].get("m")
                    if src is not None and src["l"] in holders and all(p == "deref" for p in src["p"]):
                        holders.add(st["place"]["l"])
                        changed = True
    by_key = {}
    for i in f.instances:
        by_key.setdefault(i["key"], []).append(i)
    # the parameter handed on to a crate function (a private accessor / key function): what that function reads
    for bi, t, r in c.calls():
        if r is None or not r.get("local") or "inst" not in r:
            continue
        callee = f.instances[r["inst"]]
        if callee.get("body") is None or callee.get("closure"):
            continue
        for ai, a in enumerate(t["args"]):
            pl = a.get("c") or a.get("m")
            if pl is not None and not pl["p"] and pl["l"] in holders and ai < callee["body"]["arg_count"]:
                out |= field_reads_deep(f, callee, ai + 1, depth + 1)
    for b in c.blocks:
        for st in b["stmts"]:
            if st["k"] == "assign" and st["rv"]["k"] == "aggregate" and st["rv"].get("ak") == "closure" and not st["place"]["p"]:
                ty = f.ty(inst["body"]["locals"][st["place"]["l"]]["ty"])
                if ty["k"] != "closure":
                    continue
                for j, op in enumerate(st["rv"]["ops"]):
                    pl = op.get("c") or op.get("m")
                    if pl is None or pl["p"] or pl["l"] not in holders:
                        continue
                    for ci in by_key.get(ty["key"], []):
                        # locals of the closure loaded from upvar j
                        cb = ci["body"]
                        ups = set()
                        for bb in cb["blocks"]:
                            for s2 in bb["stmts"]:
                                if s2["k"] == "assign" and s2["rv"]["k"] in ("use", "ref") and not s2["place"]["p"]:
                                    src = (s2["rv"]["op"].get("c") or s2["rv"]["op"].get("m")) if s2["rv"]["k"] == "use" else s2["rv"]["place"]
                                    if src is not None and src["l"] == 1:
                                        fs = [p for p in src["p"] if isinstance(p, dict) and "f" in p]
                                        if fs and fs[0]["f"] == j:
                                            rest = src["p"][src["p"].index(fs[0]) + 1:]
                                            more = [p for p in rest if isinstance(p, dict) and "f" in p]
                                            if more:
                                                out.add(more[0]["f"])  # read directly through the upvar
                                            else:
                                                ups.add(s2["place"]["l"])
                        for u in ups:
                            out |= field_reads_deep(f, ci, u, depth + 1)
    return out
